"""Per-property check definitions: which harness, which build variants, how many cases per tier,
what counts as non-trivial, which assumptions are recorded in the evidence."""
import glob
import json
import os
import re
import subprocess
import time

import vlib
from vlib import VERIF


class Stage:
    def __init__(self, name, harness, variant="asan", quick=1000, thorough=20000, args=(), sources=None,
                 link_lib=True, common=True, env=None, per_worker_env=None, nworkers=None, need_snapshots=False,
                 extra_flags=(), post=None, tools=False, wrapper=()):
        self.name, self.harness, self.variant = name, harness, variant
        if os.environ.get("VERIF_VARIANT_OVERRIDE") and variant in ("asan", "tsan"):      # bin/covreport: same workload on the coverage build
            self.variant = os.environ["VERIF_VARIANT_OVERRIDE"]
        self.tools = tools
        self.wrapper = list(wrapper)
        self.quick, self.thorough = quick, thorough
        self.args, self.sources = list(args), sources
        self.link_lib, self.common = link_lib, common
        self.env, self.per_worker_env, self.nworkers = env, per_worker_env, nworkers
        self.need_snapshots = need_snapshots
        self.extra_flags = list(extra_flags)
        self.post = post

    def build(self):
        if self.tools:      # command-line tools of the repository, built with the same sanitizer flags
            self.env = dict(self.env or {})
            self.env["VERIF_TOOLS_DIR"] = vlib.build_tools(self.variant)
        srcs = None
        if self.sources:
            srcs = [os.path.join(VERIF, "harness", s) for s in self.sources]
        return vlib.build_harness(self.harness, self.variant, sources=srcs, link_lib=self.link_lib,
                                  common=self.common if not srcs else False, extra_flags=self.extra_flags)

    def full_args(self):
        a = list(self.args)
        if self.need_snapshots:
            a += ["--data", vlib.snapshots_dir()]
        return a


VALGRIND = ["valgrind", "-q", "--error-exitcode=0", "--leak-check=no", "--track-origins=yes", "--log-file=vg.%p.log"]
VALGRIND_ENV = {"VERIF_CPU_SCALE": "40"}


def valgrind_post(st, res, out):
    """memcheck writes one log per process (worker and forked batch children); every error block is classified like a crash text and
    de-duplicated by (kind, innermost hwloc frames). The case is not identified (the stage is a sample): the key and the stack are."""
    total, distinct = 0, {}
    for f in sorted(glob.glob(os.path.join(out, "vg.*.log"))):
        text = open(f, errors="replace").read()
        if not text.strip():
            continue
        for blk in re.split(r"(?m)^==\d+== \n", text):
            if not re.search(r"^==\d+== (Invalid|Conditional jump|Use of uninitialised|Mismatched|Syscall param|Source and destination|Argument)", blk, re.M):
                continue
            total += 1
            key = vlib.classify_crash({"stderr": blk})
            distinct.setdefault(key, blk.strip()[:2500])
    for key, blk in sorted(distinct.items()):
        res["records"].append({"t": "viol", "case": -1, "key": key, "detail": blk, "desc": "valgrind memcheck report collected from " + out})
    res["stats"]["valgrind.error_blocks"] = total
    res["stats"]["valgrind.distinct_reports"] = len(distinct)


def valgrind_stage(harness, thorough, **kw):
    """thorough-tier sample of the same cases on the uninstrumented build under valgrind memcheck (uninitialised values, accesses the red zones miss)"""
    env = dict(VALGRIND_ENV); env.update(kw.pop("env", {}) or {})
    return Stage("valgrind", harness, "plain", quick=0, thorough=thorough, wrapper=VALGRIND, env=env, post=valgrind_post, **kw)


class Prop:
    def __init__(self, pid, stages, rule, nontrivial_classes, floor, assumptions, extra=None,
                 technique="", level_text="", level_note=""):
        self.technique, self.level_text = technique, level_text
        self.level_note = level_note or "; ".join(assumptions)
        self.pid, self.stages, self.rule = pid, stages, rule
        self.nontrivial_classes, self.floor, self.assumptions = nontrivial_classes, floor, assumptions
        self.extra = extra or {}

    def run(self, tier, seed, rundir, t0, cases_override=0):
        merged = dict(records=[], stats={}, distinct={}, samples=[])
        failures = []
        stage_info = {}
        # build everything first (parallel builds of different variants share nothing)
        exes = {}
        for st in self.stages:
            if (st.thorough if tier == "thorough" else st.quick) > 0:
                exes[st.name] = st.build()
        for si, st in enumerate(self.stages):
            cases = st.thorough if tier == "thorough" else st.quick
            if cases <= 0:
                continue      # a stage that the tier does not run is not run by --cases either
            cases = cases_override or cases
            out = os.path.join(rundir, st.name)
            ts = time.time()
            n, failed = vlib.run_workers(exes[st.name], out, seed, cases, tier, nworkers=st.nworkers,
                                         extra_args=st.full_args(), env_extra=st.env,
                                         per_worker_env=st.per_worker_env, wrapper=st.wrapper)
            for k, rc, cmd in failed:
                tail = ""
                try:
                    tail = open(os.path.join(out, "w%d.log" % k)).read()[-400:]
                except Exception:
                    pass
                failures.append("stage %s worker %d exited %s: %s" % (st.name, k, rc, tail))
            res = vlib.read_results(out)
            self.confirm_hangs(st, exes[st.name], res, out, seed, cases, tier)
            if st.post:
                st.post(st, res, out)
            multi = len(self.stages) > 1
            for r in res["records"]:
                r["stage"] = st.name
                if multi and r.get("t") == "viol":
                    pass
            merged["records"] += res["records"]
            for k, v in res["stats"].items():
                kk = "%s:%s" % (st.name, k) if multi and k != "cases" else k
                merged["stats"][kk] = merged["stats"].get(kk, 0) + v
                if multi and k == "cases":
                    merged["stats"]["%s:cases" % st.name] = v
            for cls, s in res["distinct"].items():
                merged["distinct"].setdefault(cls, set()).update(s)
            merged["samples"] += ["[%s] %s" % (st.name, s) for s in res["samples"]][:6]
            stage_info[st.name] = dict(variant=st.variant, cases=cases, workers=n, wall_s=round(time.time() - ts, 1))
        classes = None
        if self.nontrivial_classes is not None:
            classes = set(self.nontrivial_classes)
        extra = dict(self.extra)
        extra["stages"] = stage_info
        return vlib.finish(self.pid, tier, seed, t0, merged, self.rule, classes, self.floor, self.assumptions,
                           extra=extra, harness_failures=failures,
                           replay_info=dict(stages=[s.name for s in self.stages]))

    def confirm_hangs(self, st, exe, res, out, seed, cases, tier):
        """A CPU-limit hit is re-run once alone; only a reproduced one stays a 'hang' violation."""
        confirmed = {}
        for r in res["records"]:
            if r.get("t") != "hang":
                continue
            # at most 2 confirmations per crash context: further hangs with a confirmed context are taken as confirmed
            ctx = r.get("ctx", "")
            if confirmed.get(ctx, 0) >= 2:
                continue
            confirmed[ctx] = confirmed.get(ctx, 0) + 1
            env = vlib.sanitizer_env(out)
            if st.env:
                env.update(st.env)
            cmd = [exe, "--seed", str(seed), "--cases", str(cases), "--tier", tier, "--out", out,
                   "--only", str(r["case"])] + st.full_args()
            subprocess.run(cmd, env=env, stdout=subprocess.DEVNULL, stderr=subprocess.DEVNULL, cwd=out)
            again, rerun, finished = False, [], False
            try:
                for line in open(os.path.join(out, "only%d.jsonl" % r["case"])):
                    x = json.loads(line)
                    if x.get("t") == "hang":
                        again = True
                    elif x.get("t") in ("viol", "crash"):
                        rerun.append(x)
                    elif x.get("t") == "stats":
                        finished = True
            except Exception:
                pass
            if not again:
                confirmed[ctx] -= 1
                if finished:
                    # the case ran to completion under the same oracles when re-run alone: it is evaluated, whatever it reported is
                    # taken from the re-run, and the first attempt is only counted
                    r["t"] = "rerun-ok"
                    res["records"] += rerun
                    res["stats"]["cpu_limit_hits_completed_on_rerun"] = res["stats"].get("cpu_limit_hits_completed_on_rerun", 0) + 1
                else:
                    r["t"] = "timeout"
                    r["msg"] = "CPU limit hit once; the re-run neither reproduced it nor finished"

    def replay(self, rep, rundir):
        stname = rep.get("stage") or self.stages[0].name
        st = [s for s in self.stages if s.name == stname][0]
        exe = st.build()
        tier = rep.get("tier", "quick")
        cases = st.thorough if tier == "thorough" else st.quick
        env = vlib.sanitizer_env(rundir)
        if st.env:
            env.update(st.env)
        if st.per_worker_env:
            env.update(st.per_worker_env(0))
        cmd = [exe, "--seed", str(rep["seed"]), "--cases", str(cases), "--tier", tier, "--out", rundir,
               "--only", str(rep["case"]), "--verbose"] + st.full_args()
        print("replaying: " + " ".join(cmd))
        subprocess.run(cmd, env=env, cwd=rundir)
        viol = False
        for f in glob.glob(os.path.join(rundir, "only*.jsonl")):
            for line in open(f):
                try:
                    r = json.loads(line)
                except Exception:
                    continue
                if r.get("t") in ("viol", "crash", "hang"):
                    viol = True
        if viol:
            print("VIOLATION property=%s replay=%s" % (self.pid, "(replayed)"))
            return 1
        print("replay: no violation reproduced")
        return 0


COMMON_ASSUME = [
    "trusted base: harness code, libc, gcc sanitizer runtimes, generated config.h of the configured tree",
    "sanitizers only see executed paths; red zones miss far/intra-object overflows",
]

PROPS = {}
NOT_CLAIMED = {}
HOOK_COMMITS = []

PROPS["C03"] = Prop(
    "C03",
    [Stage("asan", "c03_bitmap", "asan", quick=10000, thorough=400000),
     Stage("msan", "c03_bitmap", "msanbm", quick=3000, thorough=60000,
           sources=["c03_bitmap.c", "common/runner.c"], link_lib=True)],
    rule=("random programs of 200 hwloc_bitmap_* calls over 8 slots, every result observed through isset into the "
          "independent SET model; all unary/binary queries on slots and on equal-by-construction twins every 20 ops. "
          "non-trivial+distinct = compared or combined operand pairs whose internal encodings differ in word count or "
          "infinite flag, keyed by (op, count1, count2, inf1, inf2, aliasing / inclusion relation)"),
    nontrivial_classes=[1, 2], floor=200,
    assumptions=COMMON_ASSUME + [
        "explicit indexes stay below 1984 so that the 2048-bit model window is exact",
        "encoding counters read through a harness-side mirror of struct hwloc_bitmap_s (evidence only)",
        "MSan stage instruments bitmap.c + harness only (bitmap.c depends on libc only)"],
    technique="differential runtime monitor: random bitmap API programs vs. an independent finite/cofinite set model, under gcc ASan+UBSan and clang MSan",
    level_text=("exploration: every executed hwloc_bitmap_* call is compared with an independent set model and all queries are "
                "re-evaluated on equal-by-construction twins with different internal encodings and on aliased operands; held on the "
                "programs generated for the seed, says nothing about programs not generated"),
)

C04_ENV = {"ASAN_OPTIONS_EXTRA": "max_allocation_size_mb=128"}
PROPS["C04"] = Prop(
    "C04",
    [Stage("asan", "c04_bitmapstr", "asan", quick=60000, thorough=1500000, env=C04_ENV),
     Stage("msan", "c04_bitmapstr", "msanbm", quick=20000, thorough=300000,
           sources=["c04_bitmapstr.c", "common/runner.c"], env=C04_ENV)],
    rule=("even cases: a generated bitmap printed in the 3 formats (snprintf contract on exact-size heap buffers for every "
          "L in 0..needed+2 (sampled in the middle when needed>160), asprintf equality, parse-back into clean and dirty "
          "destinations compared through the SET model); odd cases: a rendered/mutated/random string in an exact-size heap "
          "block given to the matching sscanf. distinct+non-trivial = class 1: (format, word count, infinite flag, needed "
          "length) of printed bitmaps; class 2: (format, accept/reject, generator class, token-shape bits, length) of parse inputs"),
    nontrivial_classes=[1, 2], floor=300,
    assumptions=COMMON_ASSUME + [
        "explicit indexes stay below 1984 (model window); hex-digit runs in list-format inputs are cut to 6 characters and "
        "single allocations are capped at 128 MiB (allocator returns NULL) so that accepted inputs cannot legitimately ask for gigabytes",
        "truncated text is required to be a prefix of the full text with a NUL inside the buffer (as stated); being shorter than the room is only counted",
        "parsing into a dirty destination vs a fresh one is an informational counter for arbitrary inputs (not promised), verdict-bearing for the library's own output"],
    technique="runtime monitor: round-trip/contract oracles over generated bitmaps and hostile strings in exact-size heap blocks under gcc ASan+UBSan and clang MSan",
    level_text=("exploration: every generated bitmap is printed/parsed in the three formats with the snprintf contract checked for every "
                "buffer length, and every generated or mutated input string is parsed from an exact-size heap block so that a one-byte "
                "over-read is an ASan report; MSan catches results that depend on uninitialised words"),
)


def xml_backend_env(k):
    # the XML back-end choice is cached in process-wide statics: fix it per worker process. Worker k owns the case indexes congruent to k
    # modulo the number of workers and the harnesses pick case classes with index % 3, 4, 8...: the assignment mixes all bits of k so that every
    # such class is run with both importers and both exporters (with import = k % 2 the XML classes of several monitors only ever saw one parser).
    b = [(k >> i) & 1 for i in range(6)]
    return {"HWLOC_LIBXML_IMPORT": str((b[0] + b[1] + b[2] + b[3] + b[4] + b[5]) % 2), "HWLOC_LIBXML_EXPORT": str((b[1] + b[3] + b[5]) % 2)}


PROPS["C01"] = Prop(
    "C01",
    [Stage("asan", "c01_load", "asan", quick=4000, thorough=80000, need_snapshots=True, per_worker_env=xml_backend_env),
     valgrind_stage("c01_load", 2400, need_snapshots=True, per_worker_env=xml_backend_env)],
    rule=("one load per case: generated synthetic descriptions (5/8), corpus XML by file or buffer (1/8), the bundled Linux/x86/x86+linux "
          "snapshots with every applicable component selection (2/8), the live machine (1/24), each with a default or random "
          "configuration (17 type filters incl. corner vectors, 10 topology flags); oracle = independent WF + built-in checker. "
          "distinct+non-trivial = class 1: distinct (source hash, loaded shape, filter vector, flag word) of successful loads with >= 3 "
          "levels or a special object"),
    nontrivial_classes=[1], floor=300,
    assumptions=COMMON_ASSUME + [
        "sibling order, memory-children order and symmetric_subtree are not in the statement: only checked through the built-in checker",
        "os_index values stay below the 2048-bit model window (counter wf.os_index_beyond_window otherwise)",
        "snapshot loads use the component selections of the repository's test drivers (linux,stop / x86,stop / x86,linux,stop ...)",
        "the XML importer/exporter pair is fixed per worker process by a function of all bits of the worker number (every case class sees both parsers)"],
    technique="runtime monitor: independent well-formedness oracle (public accessors + SET model) and hwloc_topology_check() on every successful load, under gcc ASan+UBSan+LSan",
    level_text=("exploration: sources x configurations are sampled; every successful load is checked by an oracle that shares no code with the "
                "library's checker, and by the built-in checker (abort = violation)"),
)


PROPS["C07"] = Prop(
    "C07",
    [Stage("asan", "c07_synthetic", "asan", quick=30000, thorough=900000, env={"ASAN_OPTIONS_EXTRA": "max_allocation_size_mb=256"}),
     valgrind_stage("c07_synthetic", 9600)],
    rule=("index%3==0: a generator AST (typed levels, structural Group/Die/NUMA level, attached NUMA with sizes, explicit/sparse/"
          "interleaved PU indexes) rendered and loaded with every type kept; widths, level order, PU-index partitions per level, cache "
          "sizes, NUMA counts/memory/locality/attachment are compared with the AST's own expectation. index%3==1: hostile strings "
          "(valid+token mutations, chains of 118-131 levels around the 128 limit, restricted alphabet, bytes) in exact-size heap blocks. "
          "index%3==2: export with 3 random flag words: snprintf contract, reload, per-flag comparison table, fixpoint. "
          "distinct+non-trivial = class 1: AST shapes with >= 4 levels or an index/attached clause; class 2: hostile input shape "
          "classes; class 3: (topology shape, export flag word)"),
    nontrivial_classes=[1, 2, 3], floor=300,
    assumptions=COMMON_ASSUME + [
        "faithfulness is demanded only for ASTs whose Group/Die/NUMA levels bring structure (arity in and out >= 2); others are safety+WF only",
        "index orderings are checked as partitions of PU indexes per level (sibling order is by cpuset, not by creation)",
        "descriptions whose arity product exceeds 20000 are parsed but not loaded; single allocations capped at 256 MiB",
        "documented defaults checked: NUMA 1GiB, L1 32KiB, Ln 256KiB<<2n, single NUMA node when none is given"],
    technique="runtime monitor: AST-expectation oracle, hostile strings in exact-size heap blocks, export contract/round-trip/fixpoint, under gcc ASan+UBSan+LSan",
    level_text=("exploration: generated descriptions are compared with an expectation computed by the generator itself, hostile strings are "
                "parsed from exact-size heap blocks (one byte over-read = ASan report), and every export is checked for the snprintf "
                "contract, reload equality under the flag table of the property, and fixpoint"),
)


PROPS["C11"] = Prop(
    "C11",
    [Stage("asan", "c11_types", "asan", quick=6000, thorough=150000, per_worker_env=xml_backend_env),
     valgrind_stage("c11_types", 3200)],
    rule=("index%4 in {0,1}: every object (sampled above 60 objects; always every I/O, Group, MemCache object) of a corpus XML whose "
          "osdev_type words are rewritten (single, multiple, all 7 bits, zero, unknown bits) or of a synthetic topology with cache depths "
          "1..5 / instruction caches / several Group depths: type_snprintf under 5 flag words with the snprintf contract on exact-size "
          "heap buffers, sscanf back (type + cache/group/bridge/osdev attributes), attr_snprintf with separators of 0..40 bytes; "
          "same-level type text; index%4 in {2,3}: hostile strings for hwloc_type_sscanf in exact-size heap blocks with 5 attr sizes; "
          "case 3: the complete 20x20 hwloc_compare_types table + kind predicates (exhaustive sub-check). distinct+non-trivial = class 1: "
          "(type, attribute tuple, flag word) printed; class 2: hostile string shape classes"),
    nontrivial_classes=[1, 2], floor=200,
    assumptions=COMMON_ASSUME + [
        "OS-device type sets are compared on the 7 defined bits: unknown bits provided by XML cannot be carried by the text",
        "'all objects of one level print the same type text' is applied to normal, NUMA and MemCache levels (Bridge/OSDev levels mix sub-types by design)",
        "non-termination = reproduced exhaustion of a 20 s CPU-time limit per case"],
    technique="runtime monitor: print/parse identity and snprintf contract on exact-size heap buffers for every object, hostile type strings, exhaustive type table, under gcc ASan+UBSan with a CPU-time limit",
    level_text=("exploration over objects/flag words/strings (held on what was generated); the 20x20 compare_types table and the kind "
                "predicates are enumerated completely in every run"),
)


PROPS["C09"] = Prop(
    "C09",
    [Stage("asan", "c09_helpers", "asan", quick=6000, thorough=150000, per_worker_env=xml_backend_env)],
    rule=("one WF-clean topology per case (synthetic or corpus XML under a random configuration, then 0-2 random restricts to make "
          "it asymmetric / CPU-less), 40 (thorough 60) rounds of 9 query families with generated sets (empty, whole, not included, "
          "infinite, one object, unions straddling siblings, object minus a PU, random subsets): covering/child covering, largest "
          "objects, inside/covering iterators by depth and type, ancestors/common ancestor/next_child, closest objects, cpuset<->nodeset, "
          "same locality, type/depth lookups, hwloc_distrib, singlify_per_core; each compared with a brute-force scan of the flat view "
          "through the SET model. distinct+non-trivial = class 1: (helper, answer depth / count class) whose brute-force answer is not "
          "the root and not NULL"),
    nontrivial_classes=[1], floor=100,
    assumptions=COMMON_ASSUME + [
        "hwloc_get_common_ancestor_obj and ancestor lookups are exercised on normal objects (virtual depths are negative)",
        "distrib: pairwise disjointness demanded only for pairwise-disjoint roots, n <= PUs below them and until >= PU depth",
        "closest_objs: completeness demanded for same-depth objects whose cpuset is not included in the source's",
        "topologies failing WF after the random restricts are skipped here (they are C02/C08 findings)"],
    technique="runtime monitor: helper results vs brute-force set-theoretic definitions computed over all objects with the SET model, under gcc ASan+UBSan",
    level_text="exploration: generated topologies x generated query sets/objects; every helper call is compared with its definition evaluated by exhaustive scan",
)


PROPS["C02"] = Prop(
    "C02",
    [Stage("asan", "c02_history", "asan", quick=4000, thorough=80000, per_worker_env=xml_backend_env)],
    rule=("one history per case: an initial topology (synthetic or corpus XML, random filters, INCLUDE_DISALLOWED/NO_* flags) then 4-12 "
          "(thorough 4-16) random modifying calls with valid and invalid arguments (restrict by cpuset/nodeset with all 32 flag words + "
          "unknown bits, insert_misc, alloc/insert/free group with 11 set shapes and kind/subkind/dont_merge, allow, distances "
          "add(+GROUP)/remove, memattr register/set_value, cpukinds_register, infos, subtype, refresh) with dup / XML-reload carriers; after "
          "every call: WF + built-in checker, CANON(all) equality when the call is documented to leave the topology untouched, "
          "type/userdata persistence by gp_index. distinct+non-trivial = class 1: histories with >= 2 successful calls that changed CANON, "
          "keyed by (initial shape, sequence of (op, outcome class))"),
    nontrivial_classes=[1], floor=300,
    assumptions=COMMON_ASSUME + [
        "object identity is the gp_index; a Group replaced by a newly inserted Group counts as old object gone / new object appeared",
        "'observably unchanged' is CANON equality (tree, sets, attributes, infos, userdata pointers, allowed sets, distances, memattrs, cpukinds)",
        "ENOMEM paths are not injected"],
    technique="runtime monitor: history executor with per-step well-formedness oracle, before/after canonical dumps and identity persistence table, under gcc ASan+UBSan+LSan",
    level_text="exploration: random histories; every step is followed by the independent WF oracle, the built-in checker and the unchanged/persistence monitors",
)


PROPS["C08"] = Prop(
    "C08",
    [Stage("asan", "c08_restrict", "asan", quick=5000, thorough=120000, per_worker_env=xml_backend_env)],
    rule=("one topology per case (synthetic or corpus XML incl. PCI/OS devices under I/O filters ALL/IMPORTANT, random configuration, "
          "0-7 inserted Misc objects) then 1-4 successive restricts with generated sets (empty, infinite, superset, disjoint, one "
          "object, all but one object, complement, first bit, random subsets) and all 32 flag words (+ unknown bits); each call is "
          "compared with a before/after model keyed by gp_index: root/complete/allowed sets, exact PU set, per-object sets = old minus "
          "dropped resources, who may disappear (NUMA, PU, normal objects vs mergeable levels), Misc/I-O re-attachment vs ADAPT flags, "
          "EINVAL conditions and unchanged CANON. distinct+non-trivial = class 1: successful restricts that removed a non-leaf object "
          "or re-attached a special child, keyed by (shape after, flag word, removed-type set)"),
    nontrivial_classes=[1], floor=200,
    assumptions=COMMON_ASSUME + [
        "a normal object with remaining PUs/NUMA nodes may vanish only if its type filter is KEEP_STRUCTURE (or Die/Package): level merging as at load time",
        "Misc/I-O children of an object removed through a level merge are kept with or without ADAPT flags; 'closest surviving ancestor' / "
        "'dropped' is demanded only for parents removed because nothing remained below them; the merge partner (same cpuset) is accepted as new parent"],
    technique="runtime monitor: before/after reference model of hwloc_topology_restrict keyed by gp_index with SET arithmetic, plus WF and CANON-unchanged oracles, under gcc ASan+UBSan+LSan",
    level_text="exploration: generated topologies x sets x all flag words, applied once and repeatedly; every call is checked against the documented effect computed independently",
)


PROPS["C05"] = Prop(
    "C05",
    [Stage("asan", "c05_xmlroundtrip", "asan", quick=6000, thorough=150000, per_worker_env=xml_backend_env),
     valgrind_stage("c05_xmlroundtrip", 2400, per_worker_env=xml_backend_env)],
    rule=("one derived topology per case (synthetic or corpus XML under a random configuration, optional restrict, 0-13 annotating calls: "
          "Misc objects, infos/subtypes with XML-special characters, distances, memattr registrations and values, cpukinds; userdata on "
          "25% of the objects exported plain and base64 with lengths 0..50): v3 export by buffer or file -> import from an exact-size "
          "copy -> CANON equality (tree, sets, attributes, infos, page types, distances, memattrs, cpukinds, topology infos, support "
          "under IMPORT_SUPPORT), userdata callback log equality, byte fixpoint of a second export, v2-format export -> same tree and "
          "sets. The 16 workers cover the 4 (export, import) back-end pairs. distinct+non-trivial = class 1: topologies carrying >= 3 "
          "of {complete != main sets, escaped characters, userdata, distances, memattr values, cpukinds, special objects, page types, "
          "infos}, keyed by (feature vector, shape)"),
    nontrivial_classes=[1], floor=100,
    assumptions=COMMON_ASSUME + [
        "names, subtypes, infos and plain userdata use printable ASCII only (export.h documents that other characters are dropped)",
        "reload keeps every type (Groups with KEEP_STRUCTURE: the API refuses KEEP_ALL); filters, flags and is_thissystem are not compared",
        "support bits are compared only under IMPORT_SUPPORT"],
    technique="runtime monitor: canonical-dump equality, byte fixpoint and userdata callback log over export/import of derived topologies for each XML back-end pair, under gcc ASan+UBSan+LSan",
    level_text="exploration: derived topologies x {buffer,file} x 4 back-end pairs x {v3,v2}; equality is decided on a dump obtained through the public API only",
)


PROPS["C06"] = Prop(
    "C06",
    # allocations above 256 MiB fail (allocator_may_return_null): a document asking for a 10^5 x 10^5 matrix is refused by malloc as it
    # would be on a real machine, instead of costing seconds of shadow-memory poisoning that the CPU limit would blame on hwloc
    [Stage("asan", "c06_xmlfuzz", "asan", quick=16000, thorough=600000, per_worker_env=xml_backend_env,
           env={"ASAN_OPTIONS_EXTRA": "max_allocation_size_mb=256"}),
     # under memcheck a multi-GB malloc simply succeeds lazily; the uninstrumented importer then only touches what the document provides
     valgrind_stage("c06_xmlfuzz", 4800, per_worker_env=xml_backend_env, env={"VERIF_NO_HUGE_ALLOC": "1"})],
    rule=("one input per case: a base document (corpus file 40%, v3 export of a small annotated topology 30%, v2-format export 20%, "
          "diff document 10%) with 0 (8%), 1 (69%) or 2-3 structure-aware mutations (attribute value replaced by boundary/garbage "
          "values incl. attribute-specific lists, tweaked, dropped, duplicated; element dropped, duplicated, moved, renamed; text "
          "content replaced; truncation at element boundaries; byte replace/insert/delete; unstructured fragments), given by buffer "
          "(exact-size heap block, with or without final NUL) or file to the import back end of the worker (even: nolibxml, odd: "
          "libxml2). Oracles: 0/-1 returns, no sanitizer/leak/assert/CPU-limit event, WF + built-in checker + read-only battery "
          "(CANON getters, snprintf, v3/v2/synthetic export, dup, destroy) on success, reuse (set_synthetic+load) after failure. "
          "distinct+non-trivial = class 1: (mutation descriptor list, outcome) of topology inputs; class 2: diff inputs"),
    nontrivial_classes=[1, 2], floor=500,
    assumptions=COMMON_ASSUME + [
        "set_xmlbuffer sizes are >= 1 and equal to the allocation (size documented as including the final NUL; both with and without one)",
        "bounded time = 20 s of CPU per input (typical inputs take < 50 ms), re-run once before being reported as a hang",
        "uninitialised reads are only visible to the valgrind sample of the thorough tier, not to ASan"],
    technique="runtime monitor: structure-aware XML mutation fuzzing in forked ASan+UBSan+LSan processes with CPU-time limit; WF oracle, built-in checker and read-only battery on every successful load",
    level_text=("exploration: mutated valid documents for both back ends and entry points; memory safety, leaks, hangs and assertion "
                "failures are verdict-bearing for every input, well-formedness for every successful load"),
)


PROPS["C12"] = Prop(
    "C12",
    [Stage("asan", "c12_dup", "asan", quick=3000, thorough=70000, per_worker_env=xml_backend_env)],
    rule=("one source per case (synthetic or corpus XML, random configuration) modified by 0-9 calls (annotations + restricts that invalidate "
          "the distances/memattr caches), userdata on half of the objects; dup; CANON(all incl. gp_index, userdata pointers, filters, flags, "
          "support) and XML bytes of copy vs original; a 2-9 call history on one of them with the other's CANON compared after every call; "
          "then destroy one (random order), run the read-only battery + XML export + a modifying history on the survivor and destroy it "
          "under ASan/LSan. distinct+non-trivial = class 1: dups of topologies with >= 2 side structures whose later history changed the "
          "mutated copy, keyed by (feature vector, shape, which copy was mutated / destroyed first)"),
    nontrivial_classes=[1], floor=100,
    assumptions=COMMON_ASSUME + ["the topology-level userdata pointer (hwloc_topology_set_userdata) is only counted, the statement is about object userdata"],
    technique="runtime monitor: canonical-dump equality, cross-mutation monitor and destroy-one-then-use-the-other under gcc ASan+LSan (shared storage shows as use-after-free / double free)",
    level_text="exploration: dups of modified topologies; independence is decided by ASan/LSan on destruction-order tests plus dump comparisons after every call on the other copy",
)


PROPS["C13"] = Prop(
    "C13",
    [Stage("asan", "c13_distances", "asan", quick=4000, thorough=80000, per_worker_env=xml_backend_env),
     valgrind_stage("c13_distances", 1600, per_worker_env=xml_backend_env)],
    rule=("reference list model {name, kind, objects by (type, gp_index), values}: histories of 4-11 calls on a topology loaded without distances "
          "(valid and invalid add_create/add_values/add_commit incl. grouping flags, remove / remove_by_depth / release_remove, restrict, dup and "
          "XML round trip as carriers, the four transforms on a private NVLinkBandwidth matrix with switch ports at random positions); after "
          "every call get / get_by_depth / get_by_type-equivalent / get_by_name are compared with the model as multisets for array sizes "
          "0, exact, larger, smaller (count, filled entries, poison beyond), every returned object must be an object of this topology. "
          "distinct+non-trivial = class 1: histories ending with >= 2 live structures that crossed >= 1 carrier, keyed by operation sequence"),
    nontrivial_classes=[1], floor=100,
    assumptions=COMMON_ASSUME + ["structures are compared as multisets: the order in which get() returns them is not part of the property",
                                 "the topology is loaded with NO_DISTANCES so that the model starts empty; OS/XML-provided matrices are covered by C05/C12"],
    technique="runtime monitor: executable reference model of the distances list checked after every call, under gcc ASan+UBSan+LSan",
    level_text="exploration: random add/remove/restrict/dup/XML/transform histories against a reference list model, all query variants after every call",
)


PROPS["C14"] = Prop(
    "C14",
    [Stage("asan", "c14_memattrs", "asan", quick=4000, thorough=80000, per_worker_env=xml_backend_env),
     valgrind_stage("c14_memattrs", 1600, per_worker_env=xml_backend_env)],
    rule=("reference map model attribute -> target node -> {no-initiator value | initiators (cpuset or object) -> value}, seeded from what the loaded "
          "topology already holds: histories of 5-14 calls (valid and invalid register, set_value with cpuset / sub-cpuset / object / NULL / empty "
          "initiators and bad flags, restrict, dup and XML round trip as carriers, refresh); after every call, for every attribute: get_by_name / "
          "get_name / get_flags, get_targets (NULL, stored, random initiators; array sizes 0, exact, larger, smaller), get_initiators (same sizes), "
          "get_value for every stored entry (exact and sub-cpuset) and for unknown targets, get_best_target / get_best_initiator optimality with "
          "ties, Capacity / Locality against local_memory / cpuset weight and read-only, get_local_numanode_objs for random locations and flag words "
          "against the definition, get_default_nodeset (existing nodes, pairwise disjoint cpusets). distinct+non-trivial = class 1: histories ending "
          "with >= 3 stored values that crossed >= 1 carrier or restrict, keyed by operation sequence"),
    nontrivial_classes=[1], floor=100,
    assumptions=COMMON_ASSUME + ["stored cpuset initiators of one (attribute, target) are kept pairwise disjoint as the statement requires: a set_value whose cpuset partially "
                                 "overlaps a stored one is not issued", "initiator cpusets are taken inside the topology cpuset",
                                 "enumerations are compared as multisets, best-of answers may be any optimal entry"],
    technique="runtime monitor: executable reference model of the memory-attribute store checked after every call, under gcc ASan+UBSan+LSan",
    level_text="exploration: random register/set/restrict/dup/XML histories against a reference map model, all query variants after every call",
)


PROPS["C15"] = Prop(
    "C15",
    [Stage("asan", "c15_cpukinds", "asan", quick=5000, thorough=100000, per_worker_env=xml_backend_env)],
    rule=("per-PU coverage model (which registrations covered each PU, last forced efficiency), seeded with the kinds found at load: histories of "
          "4-15 calls (valid and invalid hwloc_cpukinds_register over object cpusets, random subsets, existing kinds minus one PU, PUs outside the "
          "topology, repeated info pairs, forced efficiencies -5..5; restrict; dup and XML round trip as carriers; refresh); after every call every "
          "kind is read with get_info and checked: non-empty, pairwise disjoint, union == covered PUs (inside the topology after a restrict), infos "
          "contain every pair of every registration covering each of its PUs, no exact duplicates, nothing no covering registration provided; "
          "efficiencies all -1 or identity, forced order respected when all known and distinct; get_by_cpuset on 6 probe sets (kind, single PU, "
          "two kinds, partially covered, untouched, random, empty/NULL) against the reported partition; ENOENT / EINVAL conventions. "
          "distinct+non-trivial = class 1: histories with >= 2 successful registrations, >= 2 final kinds and >= 1 carrier or restrict, keyed by "
          "operation sequence and kind count"),
    nontrivial_classes=[1], floor=100,
    assumptions=COMMON_ASSUME + ["HWLOC_CPUKINDS_RANKING is unset (default ranking strategy)",
                                 "forced efficiencies of kinds that came with the loaded topology are not observable through the API: the forced-order rule is only "
                                 "evaluated when every kind's last covering registration was issued by the harness"],
    technique="runtime monitor: per-PU coverage reference model checked after every call, under gcc ASan+UBSan+LSan",
    level_text="exploration: random register/restrict/dup/XML histories against a per-PU coverage model, all kinds and probe queries checked after every call",
)


PROPS["C16"] = Prop(
    "C16",
    [Stage("asan", "c16_diff", "asan", quick=5000, thorough=100000, per_worker_env=xml_backend_env)],
    rule=("pairs (A, B): A = synthetic or corpus topology annotated with names, duplicate info pairs, topology infos, distances, memattrs, cpukinds; "
          "B = dup(A) + 0-6 representable edits (rename, info value incl. values equal to another pair of the same object, NUMA local memory with "
          "total_memory, topology info value) and, in 1/4 of the cases, one non-representable edit (add/remove info, Misc, restrict, subtype, name "
          "set<->unset, distances, memattr, cpukind, topology info added). Oracle: diff_build return value and TOO_COMPLEX presence against the edit "
          "labels (an info change whose (name, value) also matches an earlier pair of the same array is labelled non-addressable); NULL iff nothing "
          "differs; apply on a copy of A == B on names/infos/memory (canonical dump) and diff_build(copy, B) empty; APPLY_REVERSE restores A "
          "(full dump); diff XML export/load returns an identical list and refname; rollback: the entries of the diff plus chained entries on the "
          "same attribute plus one failing entry (6 kinds) at position N: return value == -N and full dump unchanged. "
          "distinct+non-trivial = class 1: pairs with >= 2 representable edits or a non-representable one, keyed by (edit kinds, count, shape)"),
    nontrivial_classes=[1], floor=100,
    assumptions=COMMON_ASSUME + ["hand-built diff entries carry non-NULL strings", "B is edited by writing the public object fields a diff addresses (name, info value, local_memory/total_memory), "
                                 "since no API modifies them"],
    technique="runtime monitor: labelled-edit oracle for diff_build, canonical-dump equality after apply / reverse / failed apply, under gcc ASan+UBSan+LSan",
    level_text="exploration: random labelled edit sets on copies of annotated topologies; build/apply/reverse/XML/rollback checked per pair",
)


PROPS["C19"] = Prop(
    "C19",
    [Stage("asan", "c19_shmem", "asan", quick=1500, thorough=40000, per_worker_env=xml_backend_env)],
    rule=("one topology per case (synthetic or corpus XML, random configuration, 0-9 annotating / restricting calls): get_length; write into a memfd at "
          "a page-aligned offset 0..8 pages at an address whose following 64 MiB are PROT_NONE (any byte written past `length` faults, attributed by "
          "the context key); adopt with wrong address / length / offset / flags and with a corrupted header version or ABI word (EINVAL), adopt "
          "twice (EBUSY); adopt; WF oracle + built-in check, canonical dump and XML bytes of the adopted topology vs the original (every getter runs "
          "on the read-only mapping, a getter that writes faults); dup of the adopted topology; restrict, insert_misc, alloc/insert group, "
          "distances add_create/remove/remove_by_depth/release_remove, diff_apply, memattr register/set_value, cpukinds_register must fail and leave "
          "the dump unchanged, refresh must leave it unchanged; allow(ALL) and "
          "allow(CUSTOM) must work when the source had INCLUDE_DISALLOWED (EINVAL otherwise); destroy must unmap the range (/proc/self/maps). "
          "hwloc_obj_add_info and hwloc_obj_set_subtype (no way to know that their object lives in a read-only mapping) run in a sub-fork and are "
          "recorded, not judged. distinct+non-trivial = class 1: shares of topologies with >= 2 side structures or a non-zero offset, keyed by (features, offset, shape)"),
    nontrivial_classes=[1], floor=100,
    assumptions=COMMON_ASSUME + ["every modifying entry point that receives the topology is judged; hwloc_obj_add_info / hwloc_obj_set_subtype on objects of an adopted topology "
                                 "(the documentation says object fields cannot be changed) are recorded in the evidence but carry no verdict",
                                 "writer and adopter are the same process (the adopt path is identical; cross-process ABI differences cannot occur with one build)"],
    technique="runtime monitor: PROT_NONE guard region + ASan fault attribution, canonical-dump / XML equality, errno checks, /proc/self/maps inspection",
    level_text="exploration: write/adopt of annotated topologies at several offsets; guard region after the mapping; adopted-side modifying calls and allow()",
)


_TSAN_FRAME = re.compile(r"^\s*#(\d+) (\S+) (\S+)")


def _tsan_access(stack_text):
    """(origin, function) of one access stack: origin is 'hwloc' when the innermost non-interceptor frame is hwloc code, 'ext:<lib>'
    when it is inside an uninstrumented shared library (TSan only sees that library through libc interceptors such as strcmp and cannot
    see its own atomics), 'harness' otherwise. function is the innermost hwloc function of the stack."""
    origin, top = None, None
    for line in stack_text.splitlines():
        m = _TSAN_FRAME.match(line)
        if not m:
            continue
        fn, loc = m.group(2), m.group(3)
        rest = line[m.end():]
        if "libtsan" in rest or "libtsan" in loc:
            continue
        is_repo = ("/harness/" not in loc and not loc.startswith(vlib.VERIF) and
                   ((vlib.REPO + "/") in loc or "/hwloc/" in loc or "/include/hwloc" in loc))
        if origin is None:
            if is_repo:
                origin = "hwloc"
            elif "/harness/" in loc or loc.startswith(vlib.VERIF):
                origin = "harness"
            else:
                lib = re.search(r"\((lib[\w.+-]+?\.so[\w.]*)\+", rest)
                origin = "ext:" + (lib.group(1) if lib else "?")
        if is_repo and top is None:
            top = fn
    return origin or "?", top


def tsan_post(st, res, out):
    """Collect the ThreadSanitizer report blocks written by every process of the stage (log_path=tsan), de-duplicate them by
    (kind, sorted set of the innermost hwloc functions of the accesses made by hwloc code) and turn each distinct one into a violation."""
    total, distinct, not_judged = 0, {}, {}
    for f in sorted(glob.glob(os.path.join(out, "tsan.*"))):
        text = open(f, errors="replace").read()
        for blk in text.split("=================="):
            m = re.search(r"WARNING: ThreadSanitizer: ([^\n(]+)", blk)
            if not m:
                continue
            total += 1
            kind = m.group(1).strip().replace(" ", "-")
            accs = []
            for p in re.split(r"\n\n", blk):
                if re.search(r"(?m)^\s+(Previous )?([Aa]tomic )?([Rr]ead|[Ww]rite) of size", p):
                    accs.append(_tsan_access(p))
            if kind != "data-race":
                fn = _tsan_access(blk)[1]
                distinct.setdefault("tsan:%s@%s" % (kind, fn or "?"), blk.strip()[:2500])
                continue
            judged = sorted(set(fn for o, fn in accs[:2] if o == "hwloc" and fn))
            if not judged:
                k = "+".join(sorted(set(o for o, _ in accs[:2]))) or "?"
                not_judged[k] = not_judged.get(k, 0) + 1
                continue
            distinct.setdefault("tsan:%s@%s" % (kind, "|".join(judged)), blk.strip()[:2500])
    for key, blk in sorted(distinct.items()):
        res["records"].append({"t": "viol", "case": -1, "key": key, "detail": blk, "desc": "TSan report collected from " + out})
    res["stats"]["tsan.report_blocks"] = total
    res["stats"]["tsan.distinct_hwloc_reports"] = len(distinct)
    for k, v in not_judged.items():
        res["stats"]["tsan.not_judged." + k[:48]] = v


PROPS["C17"] = Prop(
    "C17",
    [Stage("tsan", "c17_threads", "tsan", quick=96, thorough=1600, per_worker_env=xml_backend_env, post=tsan_post,
           env={"TSAN_OPTIONS": "halt_on_error=0:second_deadlock_stack=1:exitcode=0:history_size=4:log_path=tsan"})],
    rule=("gcc ThreadSanitizer build of the library and the harness. Even cases: one topology (synthetic or corpus XML with I/O and Misc kept), "
          "4-13 annotating calls followed by restricts (which invalidate the distances / memattr object caches), hwloc_topology_refresh(), the "
          "consulting battery once single-threaded (canonical dump of everything incl. distances / memattrs / cpukinds, XML v3 and v2 export, "
          "synthetic export, per-object type/attr printing + covering / largest / closest / ancestor helpers + bitmap queries, distances "
          "get / by_name / release, memattr targets / initiators / value / best, cpukinds, default nodeset), then 4-12 threads released by a "
          "barrier each running the battery 3x (6x thorough) in rotated order: every result must equal the single-threaded one. Odd cases: 4-12 "
          "threads x 2-4 independent histories (init, load from synthetic / XML file / XML buffer / the running system, 2-7 modifying calls, "
          "refresh, battery, dup, destroy) compared with the same seeded histories re-run alone. Every TSan report with an hwloc frame is a "
          "violation, de-duplicated by (kind, pair of outermost hwloc functions). distinct+non-trivial = class 1: reader swarms over topologies "
          "with >= 2 of {distances, memattr values, cpukinds}, keyed by (features, threads, shape); class 2: thread groups where at least "
          "one history per thread loaded"),
    nontrivial_classes=[1, 2], floor=20,
    assumptions=COMMON_ASSUME + ["interleavings are those the scheduler produces with 16 worker processes x 4-12 threads on 16 cores (oversubscribed) plus sched_yield "
                                 "between sub-batteries in some threads; TSan's happens-before analysis generalises over timing only for code both threads executed",
                                 "races whose two stacks lie entirely outside hwloc (harness, libc, libxml2 internals) are counted but not judged"],
    technique="ThreadSanitizer (gcc -fsanitize=thread) on reader swarms and independent-history thread groups + per-thread result digests compared with a single-threaded run",
    level_text="exploration: TSan over concurrent readers of one refreshed topology and over threads with independent topologies; results compared with single-threaded runs",
)


PROPS["C10"] = Prop(
    "C10",
    [Stage("asan", "c10_bind", "asan", quick=2400, thorough=40000, nworkers=8)],
    rule=("the harness executable defines sched_setaffinity / sched_getaffinity / pthread_set/getaffinity_np / syscall (mbind, set_mempolicy, get_mempolicy, "
          "migrate_pages, move_pages); the statically linked library binds to them, every call and mask is logged. 3 of 4 cases (fake kernel with 64..4096 "
          "CPUs / 64..1024 nodes): a synthetic or corpus-XML topology loaded with or without HWLOC_TOPOLOGY_FLAG_IS_THISSYSTEM, 24 random calls over the "
          "17 binding entry points x 8 set classes (subset, topology set, superset, complete, only-offline, empty, outside complete, infinite) x flag words "
          "(incl. unknown bits) x 8 policy values: invalid arguments must give -1/EINVAL with no binding call logged; on a foreign topology set-calls return 0 "
          "with nothing logged and get-calls report the complete set / MIXED; missing Linux hooks give -1/ENOSYS; every mask logged during a set-call on a "
          "this-system topology must be non-empty, inside the complete set, equal to the complete set when the input covers the topology set and equal to "
          "the input otherwise. 1 of 4 cases (pass-through, the running system): pre-bind the thread to a random subset, hwloc_topology_load with "
          "6 component selections x flags: sched_getaffinity after == before (no setaffinity at all with DONT_CHANGE_BINDING); then 12 subsets of the "
          "allowed CPUs: set_cpubind(THREAD) / get_cpubind == subset == kernel mask, get_last_cpu_location inside it. distinct+non-trivial = class 1: "
          "(entry point, flags, set class, topology kind) of calls whose proper-subset mask reached the fake kernel; class 2: live subsets round-tripped"),
    nontrivial_classes=[1, 2], floor=40,
    assumptions=COMMON_ASSUME + ["mutually exclusive flag pairs (PROCESS|THREAD) are not expected to be rejected: the statement lists unknown bits only",
                                 "hwloc_alloc_membind without STRICT is documented to fall back to a plain allocation on an invalid set; it must then not call mbind",
                                 "memory-binding system calls are only observed through the fake kernel",
                                 "the old-nodes mask of migrate_pages designates sources ('all nodes') and is not judged"],
    technique="runtime monitor at the OS boundary: link-time interposition of the affinity / mempolicy entry points (logging + kernel emulation), errno oracles, live round trip",
    level_text="exploration: random binding calls over generated sets, flags and policies with every OS-boundary call logged; live affinity round trips on the sandbox CPUs",
)


PROPS["C18"] = Prop(
    "C18",
    [Stage("asan", "c18_snapshots", "asan", quick=1600, thorough=40000, need_snapshots=True, per_worker_env=xml_backend_env),
     valgrind_stage("c18_snapshots", 800, need_snapshots=True, per_worker_env=xml_backend_env)],
    rule=("every case hard-link-clones one bundled snapshot (42 Linux fsroots, 29 x86 CPUID dumps, the x86+linux pairs; cycling), removes a set "
          "of paths from the clone (1/4 of the cases none, 1/4 one or two paths under sys/devices/system, 1/4 up to 8, 1/4 up to 40 biased to "
          "sys/devices/system, proc, sys/class, sys/bus; candidates = regular files, symlinks and directories whose name does not end in a digit; "
          "a removed directory takes its content with it), then with the component selection that applies (the repository's own test drivers: "
          "linux,stop / x86,stop / x86,linux,stop / linux,x86,stop, HWLOC_X86_TOPOEXT_NUMANODES, per-test env knobs) and a default or random "
          "filter / flag configuration: load -> clean -1 or WF oracle + built-in checker; second load -> identical full canonical dump; load "
          "with the INCLUDE_DISALLOWED bit flipped -> PU / NUMA inclusion and allowed sets == default root sets; XML export -> reload -> "
          "equal dump (C05 rules); all under ASan+UBSan+LSan. distinct+non-trivial = class 1: (snapshot, removal set, configuration) whose "
          "result differs from the intact snapshot's; class 3: intact loads by (snapshot, selection, configuration)"),
    nontrivial_classes=[1, 3], floor=100,
    assumptions=COMMON_ASSUME + ["names ending in a digit are treated as kernel-guaranteed instances whatever their type (cpuN, nodeN, indexN, the puN files of CPUID dumps) and are only "
                                 "removed together with a removed non-instance ancestor directory",
                                 "component selections follow the repository's test drivers; the host's own x86 back end is never combined with a foreign Linux snapshot"],
    technique="runtime monitor: fault injection on hard-link clones of the bundled snapshots + WF oracle, determinism / view / XML round-trip comparisons under gcc ASan+UBSan+LSan",
    level_text="exploration: sampled removal sets over all bundled snapshots x component selections x configurations; four consistency oracles per loaded clone",
)


PROPS["C20"] = Prop(
    "C20",
    [Stage("asan", "c20_tools", "asan", quick=3000, thorough=60000, tools=True)],
    rule=("hwloc-calc, lstopo-no-graphics, hwloc-diff, hwloc-patch and hwloc-distrib are compiled from /repo/utils with ASan+UBSan and run as real "
          "processes on generated synthetic strings and corpus XML files; the harness loads the same input with the library (the tools' documented "
          "configuration: everything kept, IMPORT_SUPPORT) and computes every expected value from the generated expression tree. 5/10 cases "
          "hwloc-calc: 1-5 terms (type:index chains with X, X-Y, X-, X:N wrap-around, all/odd/even, nested relative indexes; all/root; hex masks) "
          "combined with '', ~, x, ^, and one output mode: set in hwloc/list/taskset format (exact string of the library formatter), -I and "
          "--po -I (index lists), -N (count, and == number of -I entries), --single, --largest and -H (output fed back to hwloc-calc must give "
          "the set / the union of intersecting objects). 2/10 lstopo: XML output byte-equal to the library export of its reload, reload "
          "canonical-equal to the input loaded by the library, synthetic output == hwloc_topology_export_synthetic and a fixpoint. 1/10 "
          "hwloc-diff A B + hwloc-patch A == B bytes for 1-4 representable edits. 1/10 hwloc-distrib N: N parsable, non-empty sets inside "
          "the root, union == root, disjoint when N <= #PUs, --single. 1/10 malformed command lines must exit non-zero; any signal, timeout or "
          "sanitizer report of a tool is a violation. distinct+non-trivial = classes 1-4 (calc with >= 2 terms or nesting, lstopo, diff/patch, distrib)"),
    nontrivial_classes=[1, 2, 3, 4], floor=60,
    assumptions=COMMON_ASSUME + ["only grammar documented in hwloc(7) / hwloc-calc(1) is generated; indexes out of range are not generated (their handling is not specified)",
                                 "Group levels and types present at several depths are not named in expressions (they need depth attributes)",
                                 "tool memory leaks at exit are not judged (detect_leaks=0 for the tools)"],
    technique="runtime monitor: sanitizer-built tools run as processes, outputs compared with values computed through the library API from the generated command-line AST",
    level_text="exploration: generated command lines over the documented grammars on generated topologies; equivalence with the library and between options",
)


# what the second session added to each workload (DESIGN.md section 4.21); appended to the rule recorded in every evidence file
ROUND2 = {
    "C01": "directed cases at the first indexes (8 regression witnesses, every single (type, filter), seeded - thorough: all - pairs of (type, filter) over 3 rich descriptions); XML exports of generated machines with injected CPU-less NUMA nodes",
    "C05": "blind exports right after a restrict; TAB/LF/CR in strings for a quarter of the case blocks",
    "C06": "corpus/witness-xml documents unmutated at the first indexes, topology reused after each failure in four ways and compared with a fresh load; metamorphic sibling-swap case (class 4)",
    "C07": "type-named interleaving lists of 2-3 ancestor types in any order",
    "C09": "same_locality with subtype / name-prefix filters and I/O sources",
    "C10": "validation cases on duplicates; live loads with a differently bound second thread and RESTRICT_TO_CPUBINDING",
    "C11": "objects printed after group insertions / restrict / Misc insertion",
    "C12": "info arrays emptied before the dup; identical info edits on both copies",
    "C13": "terminal shared-memory carrier adopted by the writer and by a process forked before the write",
    "C15": "HWLOC_CPUKINDS_RANKING strategy drawn per case; hardware-like info pairs",
    "C16": "bulk pairs of hundreds of entries; attribute, os_index and allowed-set edits among the non-representable ones",
    "C17": "registry-churn mode (class 3); directed distances + restrict before refresh",
    "C18": "enumerated removals of cpu<K>/node<K> entries for the first CPUs (mode 4)",
    "C19": "pre-existing file sizes around length / offset / offset+length; second adopter forked before the write",
    "C20": "hwloc-distrib option combinations compared set by set; I/O-object locations; nodeset output below CPU-less packages; more malformed shapes",
}
for _k, _v in ROUND2.items():
    PROPS[_k].rule += " Added later: " + _v + "."
