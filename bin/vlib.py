#!/usr/bin/env python3
"""Shared driver library for the hwloc runtime-monitoring checks (stdlib only).

Build: compiles /repo's working tree (or $VERIF_REPO) directly with the wanted
sanitizer flags into /verif/.cache/<hash>/<variant>/libhwloc.a; the hash covers
every .c/.h under hwloc/, include/ and utils/ so any edit triggers a rebuild.
Run: spawns N worker processes of a harness binary, merges their JSONL output,
classifies crashes from the captured sanitizer text, applies known findings,
writes the evidence file and prints the verdict lines.
"""
import fcntl
import glob
import hashlib
import json
import os
import re
import shutil
import struct
import subprocess
import sys
import time
from concurrent.futures import ThreadPoolExecutor

VERIF = os.path.dirname(os.path.dirname(os.path.abspath(__file__)))
REPO = os.environ.get("VERIF_REPO", "/repo")
CACHE = os.environ.get("VERIF_CACHE", os.path.join(VERIF, ".cache"))
NCPU = int(os.environ.get("VERIF_JOBS", str(os.cpu_count() or 4)))

LIB_SOURCES = """topology traversal distances memattrs cpukinds components bind bitmap
pci-common diff shmem misc base64 topology-noos topology-synthetic topology-xml
topology-xml-nolibxml topology-xml-libxml topology-linux topology-hardwired
topology-x86 topology-pci""".split()

LIB_DEFS = ["-DHAVE_CONFIG_H", "-DHWLOC_INSIDE_LIBHWLOC", '-DHWLOC_PLUGINS_PATH=""',
            '-DRUNSTATEDIR="/var/run"', "-DHWLOC_VERIF"]
LINK_LIBS = ["-lm", "-ludev", "-lpciaccess", "-lxml2", "-lpthread", "-ldl"]

VARIANTS = {
    "asan": dict(cc="gcc", flags=["-O1", "-g", "-fno-omit-frame-pointer",
                                  "-fsanitize=address,undefined",
                                  "-fno-sanitize-recover=all"]),
    "tsan": dict(cc="gcc", flags=["-O1", "-g", "-fsanitize=thread"]),
    "plain": dict(cc="gcc", flags=["-O1", "-g"]),
    # line/branch coverage of the workload itself (bin/covreport): evidence of what the monitors reached, never an oracle
    "cov": dict(cc="gcc", flags=["-O0", "-g", "--coverage", "-fprofile-update=atomic", "-DHV_COV"]),
    "msanbm": dict(cc="clang-14", flags=["-O1", "-g", "-fsanitize=memory",
                                         "-fsanitize-memory-track-origins",
                                         "-fno-omit-frame-pointer"],
                   only=["bitmap"]),
}


class HarnessError(Exception):
    pass


def log(*a):
    print(*a, file=sys.stderr, flush=True)


def includes():
    return ["-I%s/include" % REPO, "-I%s/hwloc" % REPO, "-I/usr/include/libxml2"]


_tree_hash = None


def tree_hash():
    """SHA-256 over every .c/.h (and .dtd) below hwloc/, include/, utils/ of the repo."""
    global _tree_hash
    if _tree_hash:
        return _tree_hash
    h = hashlib.sha256()
    h.update(os.path.realpath(REPO).encode() + b"\0")      # builds embed source paths (debug info, sanitizer stacks): never share them between roots
    files = []
    for sub in ("hwloc", "include", "utils"):
        for root, dirs, fs in os.walk(os.path.join(REPO, sub)):
            dirs[:] = [d for d in dirs if d not in (".libs", ".deps")]
            for f in fs:
                if f.endswith((".c", ".h", ".dtd")):
                    files.append(os.path.join(root, f))
    files.sort()
    for p in files:
        h.update(os.path.relpath(p, REPO).encode())
        h.update(b"\0")
        with open(p, "rb") as fh:
            h.update(fh.read())
        h.update(b"\0")
    _tree_hash = h.hexdigest()[:20]
    return _tree_hash


class Lock:
    def __init__(self, path):
        self.path = path

    def __enter__(self):
        os.makedirs(os.path.dirname(self.path), exist_ok=True)
        self.fd = open(self.path, "w")
        fcntl.flock(self.fd, fcntl.LOCK_EX)
        return self

    def __exit__(self, *a):
        fcntl.flock(self.fd, fcntl.LOCK_UN)
        self.fd.close()


def _run(cmd, **kw):
    p = subprocess.run(cmd, stdout=subprocess.PIPE, stderr=subprocess.STDOUT, text=True, **kw)
    return p.returncode, p.stdout


def prune_cache(keep):
    """Keep only the cache directory of the current tree hash (+ shared dirs)."""
    if os.environ.get("VERIF_KEEP_CACHE"):
        return
    try:
        for d in os.listdir(CACHE):
            p = os.path.join(CACHE, d)
            if d in (keep, "snapshots", "locks", "runs") or not os.path.isdir(p):
                continue
            if d.startswith("tree-"):
                # remove stale builds older than 30 minutes (another check may still use them)
                if time.time() - os.path.getmtime(p) > 1800:
                    shutil.rmtree(p, ignore_errors=True)
    except FileNotFoundError:
        pass


def variant_dir(variant):
    return os.path.join(CACHE, "tree-" + tree_hash(), variant)


def build_lib(variant):
    """Build libhwloc.a for a variant from the repo working tree. Returns its path."""
    v = VARIANTS[variant]
    d = variant_dir(variant)
    lib = os.path.join(d, "libhwloc.a")
    with Lock(os.path.join(CACHE, "locks", "lib-%s-%s" % (tree_hash(), variant))):
        if os.path.exists(lib):
            os.utime(os.path.dirname(d))
            return lib
        for need in ("include/private/autogen/config.h", "include/hwloc/autogen/config.h",
                     "hwloc/static-components.h"):
            if not os.path.exists(os.path.join(REPO, need)):
                raise HarnessError("generated header %s missing in %s (tree not configured)" % (need, REPO))
        t0 = time.time()
        os.makedirs(d, exist_ok=True)
        srcs = v.get("only", LIB_SOURCES)
        objs = []

        def cc(name):
            src = os.path.join(REPO, "hwloc", name + ".c")
            obj = os.path.join(d, name + ".o")
            cmd = [v["cc"]] + v["flags"] + LIB_DEFS + includes() + ["-w", "-c", src, "-o", obj]
            rc, out = _run(cmd)
            if rc != 0:
                raise HarnessError("compile failed: %s\n%s" % (" ".join(cmd), out[-4000:]))
            return obj

        with ThreadPoolExecutor(max_workers=NCPU) as ex:
            objs = list(ex.map(cc, srcs))
        tmp = lib + ".tmp"
        if os.path.exists(tmp):
            os.unlink(tmp)
        rc, out = _run(["ar", "rcs", tmp] + objs)
        if rc != 0:
            raise HarnessError("ar failed: " + out)
        os.rename(tmp, lib)
        log("[vbuild] %s lib built in %.1fs (%s)" % (variant, time.time() - t0, d))
    prune_cache("tree-" + tree_hash())
    return lib


def harness_hash(sources, extra):
    h = hashlib.sha256()
    for p in sorted(sources) + sorted(glob.glob(os.path.join(VERIF, "harness/common/*.h"))):
        h.update(p.encode())
        with open(p, "rb") as fh:
            h.update(fh.read())
    h.update(repr(extra).encode())
    return h.hexdigest()[:16]


def build_harness(name, variant, sources=None, extra_flags=(), link_lib=True, common=True):
    """Compile harness/<name>.c (+ common/*.c) against the variant's library."""
    v = VARIANTS[variant]
    lib = build_lib(variant) if link_lib or v.get("only") else None
    srcs = list(sources) if sources else [os.path.join(VERIF, "harness", name + ".c")]
    if common:
        srcs += sorted(glob.glob(os.path.join(VERIF, "harness/common/*.c")))
    hh = harness_hash(srcs, (variant, tuple(extra_flags), link_lib))
    d = variant_dir(variant)
    exe = os.path.join(d, "%s-%s" % (name, hh))
    with Lock(os.path.join(CACHE, "locks", "h-%s-%s-%s" % (tree_hash(), variant, name))):
        if os.path.exists(exe):
            return exe
        t0 = time.time()
        os.makedirs(d, exist_ok=True)
        cmd = ([v["cc"]] + v["flags"] + ["-DHWLOC_VERIF", "-D_GNU_SOURCE", "-Wall", "-Wno-unused-function", "-Wno-misleading-indentation", "-Wno-format-truncation", "-Wno-comment",
               "-I" + os.path.join(VERIF, "harness/common")] + includes() + list(extra_flags) + srcs)
        if lib:
            cmd += [lib]
        cmd += ["-o", exe + ".tmp"] + LINK_LIBS
        rc, out = _run(cmd)
        if rc != 0:
            raise HarnessError("harness compile failed: %s\n%s" % (" ".join(cmd), out[-6000:]))
        os.rename(exe + ".tmp", exe)
        if out.strip():
            log(out[-3000:])
        log("[vbuild] harness %s/%s built in %.1fs" % (variant, name, time.time() - t0))
    return exe


TOOLS = {
    "hwloc-calc": ["utils/hwloc/hwloc-calc.c"],
    "hwloc-diff": ["utils/hwloc/hwloc-diff.c"],
    "hwloc-patch": ["utils/hwloc/hwloc-patch.c"],
    "hwloc-distrib": ["utils/hwloc/hwloc-distrib.c"],
    "hwloc-info": ["utils/hwloc/hwloc-info.c"],
    "hwloc-annotate": ["utils/hwloc/hwloc-annotate.c"],
    "lstopo-no-graphics": ["utils/lstopo/lstopo.c", "utils/lstopo/lstopo-draw.c", "utils/lstopo/lstopo-tikz.c", "utils/lstopo/lstopo-fig.c",
                           "utils/lstopo/lstopo-svg.c", "utils/lstopo/lstopo-ascii.c", "utils/lstopo/lstopo-text.c", "utils/lstopo/lstopo-xml.c",
                           "utils/lstopo/lstopo-shmem.c", "utils/hwloc/common-ps.c"],
}


def build_tools(variant):
    """Compile the repository's command-line tools from /repo/utils against the variant's library; returns the directory."""
    v = VARIANTS[variant]
    lib = build_lib(variant)
    d = os.path.join(variant_dir(variant), "tools")
    with Lock(os.path.join(CACHE, "locks", "tools-%s-%s" % (tree_hash(), variant))):
        if os.path.exists(os.path.join(d, "DONE")):
            return d
        t0 = time.time()
        os.makedirs(d, exist_ok=True)

        def one(item):
            name, srcs = item
            cmd = ([v["cc"]] + v["flags"] + ["-D_GNU_SOURCE", "-w", "-I" + os.path.join(REPO, "utils/hwloc"), "-I" + os.path.join(REPO, "utils/lstopo")] +
                   includes() + [os.path.join(REPO, x) for x in srcs] + [lib, "-o", os.path.join(d, name)] + LINK_LIBS + ["-lncursesw"])
            rc, out = _run(cmd)
            if rc != 0:
                raise HarnessError("tool compile failed: %s\n%s" % (" ".join(cmd), out[-4000:]))
        with ThreadPoolExecutor(max_workers=len(TOOLS)) as ex:
            list(ex.map(one, TOOLS.items()))
        open(os.path.join(d, "DONE"), "w").write("ok\n")
        log("[vbuild] %d tools (%s) built in %.1fs" % (len(TOOLS), variant, time.time() - t0))
    return d


# ---------------------------------------------------------------------------------------
# snapshots

def snapshots_dir():
    """Extract the bundled Linux/x86 tarballs once per content hash. Returns the directory."""
    h = hashlib.sha256()
    tars = []
    for sub in ("linux", "x86", "x86+linux", "linux/allowed"):
        tars += sorted(glob.glob(os.path.join(REPO, "tests/hwloc", sub, "*.tar.bz2")))
    for t in tars:      # keyed by content: every checkout of the same tarballs shares one extraction, whatever its path or mtimes
        h.update(os.path.relpath(t, REPO).encode() + b"\0")
        with open(t, "rb") as fh:
            h.update(hashlib.sha256(fh.read()).digest())
    d = os.path.join(CACHE, "snapshots", h.hexdigest()[:16])
    with Lock(os.path.join(CACHE, "locks", "snapshots")):
        if os.path.exists(os.path.join(d, "DONE")):
            os.utime(d)
            return d
        # other extractions may be in use by a check running on another tree: only remove those not used for a day
        try:
            for other in os.listdir(os.path.join(CACHE, "snapshots")):
                po = os.path.join(CACHE, "snapshots", other)
                if po != d and time.time() - os.path.getmtime(po) > 86400:
                    shutil.rmtree(po, ignore_errors=True)
        except FileNotFoundError:
            pass
        shutil.rmtree(d, ignore_errors=True)
        os.makedirs(d)
        t0 = time.time()

        def ex(t):
            sub = os.path.basename(os.path.dirname(t))
            if sub == "allowed":
                sub = "linux"
            name = os.path.basename(t)[:-len(".tar.bz2")]
            out = os.path.join(d, sub, name)
            os.makedirs(out, exist_ok=True)
            rc, o = _run(["tar", "xjf", t, "-C", out])
            if rc != 0:
                raise HarnessError("tar failed for %s: %s" % (t, o))
        with ThreadPoolExecutor(max_workers=NCPU) as exr:
            list(exr.map(ex, tars))
        open(os.path.join(d, "DONE"), "w").write("ok\n")
        log("[vbuild] %d snapshots extracted in %.1fs" % (len(tars), time.time() - t0))
    return d


# ---------------------------------------------------------------------------------------
# running workers

def sanitizer_env(outdir):
    env = dict(os.environ)
    env["ASAN_OPTIONS"] = ("abort_on_error=0:halt_on_error=1:detect_leaks=1:exitcode=86:"
                           "allocator_may_return_null=1:detect_stack_use_after_return=0:"
                           "handle_abort=0:max_malloc_fill_size=256:malloc_fill_byte=190:"
                           "quarantine_size_mb=16:detect_odr_violation=0")
    env["UBSAN_OPTIONS"] = "print_stacktrace=1:halt_on_error=1:exitcode=86"
    env["LSAN_OPTIONS"] = "print_suppressions=0"
    env["TSAN_OPTIONS"] = "halt_on_error=0:second_deadlock_stack=1:exitcode=0:history_size=4"
    env["HWLOC_HIDE_ERRORS"] = "2"
    env["LANG"] = "C"
    env["LC_ALL"] = "C"
    for k in ("HWLOC_XMLFILE", "HWLOC_SYNTHETIC", "HWLOC_FSROOT", "HWLOC_CPUID_PATH", "HWLOC_COMPONENTS",
              "HWLOC_XML_VERBOSE", "HWLOC_SYNTHETIC_VERBOSE", "HWLOC_DEBUG_VERBOSE", "HWLOC_THISSYSTEM",
              "HWLOC_LIBXML", "HWLOC_LIBXML_IMPORT", "HWLOC_LIBXML_EXPORT"):
        env.pop(k, None)
    env["VERIF_REPO_ROOT"] = REPO
    env["VERIF_ROOT"] = VERIF
    env["MSAN_OPTIONS"] = "exit_code=86:halt_on_error=1:allocator_may_return_null=1"
    return env


def run_workers(exe, outdir, seed, cases, tier, nworkers=None, extra_args=(), env_extra=None,
                per_worker_env=None, timeout=None, wrapper=()):
    """Run nworkers copies of a harness; worker k owns the indices i with i % n == k."""
    n = nworkers or NCPU
    n = max(1, min(n, cases))
    os.makedirs(outdir, exist_ok=True)
    env = sanitizer_env(outdir)
    if env_extra:
        env_extra = dict(env_extra)
        x = env_extra.pop("ASAN_OPTIONS_EXTRA", None)
        if x:
            env["ASAN_OPTIONS"] += ":" + x
            env["MSAN_OPTIONS"] += ":" + x
        env.update(env_extra)
    procs = []
    for k in range(n):
        e = dict(env)
        if per_worker_env:
            e.update(per_worker_env(k))
        cmd = list(wrapper) + [exe, "--seed", str(seed), "--cases", str(cases), "--worker", str(k), "--nworkers", str(n),
                                "--tier", tier, "--out", outdir] + list(extra_args)
        lf = open(os.path.join(outdir, "w%d.log" % k), "w")
        procs.append((k, subprocess.Popen(cmd, env=e, stdout=lf, stderr=subprocess.STDOUT, cwd=outdir), lf, cmd))
    failed = []
    deadline = time.time() + (timeout or 6 * 3600)
    for k, p, lf, cmd in procs:
        try:
            rc = p.wait(timeout=max(1, deadline - time.time()))
        except subprocess.TimeoutExpired:
            p.kill()
            rc = -9
        lf.close()
        if rc != 0:
            failed.append((k, rc, cmd))
    return n, failed


def read_results(outdir):
    """Merge worker output. Returns dict(records=[...], stats={}, distinct=set(), samples=[])."""
    records, stats, samples = [], {}, []
    distinct = {}
    for f in sorted(glob.glob(os.path.join(outdir, "w*.jsonl"))):
        with open(f, "rb") as fh:
            for line in fh:
                line = line.decode("utf-8", "replace").strip()
                if not line:
                    continue
                try:
                    r = json.loads(line)
                except Exception:
                    records.append({"t": "garbled", "line": line[:500]})
                    continue
                t = r.get("t")
                if t == "stats":
                    for k, v in r["v"].items():
                        stats[k] = stats.get(k, 0) + v
                elif t == "max":
                    for k, v in r["v"].items():
                        stats[k] = max(stats.get(k, 0), v)
                elif t == "sample":
                    samples.append(r["v"])
                else:
                    records.append(r)
    for f in sorted(glob.glob(os.path.join(outdir, "w*.distinct"))):
        data = open(f, "rb").read()
        for i in range(0, len(data) - 15, 16):
            cls, hv = struct.unpack_from("<QQ", data, i)
            distinct.setdefault(cls, set()).add(hv)
    return dict(records=records, stats=stats, distinct=distinct, samples=samples)


# ---------------------------------------------------------------------------------------
# crash classification

_FRAME = re.compile(r"^\s*#(\d+) 0x[0-9a-f]+ in (\S+) (\S+)")


def _repo_frames(text, maxn=2):
    out = []
    for line in text.splitlines():
        m = _FRAME.match(line)
        if not m:
            if out and not line.strip():
                break
            continue
        fn, loc = m.group(2), m.group(3)
        if "/harness/" in loc or loc.startswith(VERIF):
            continue
        if (REPO + "/") in loc or "/hwloc/" in loc or "/include/hwloc" in loc or "/include/private/" in loc or "/utils/" in loc:
            if fn not in out:
                out.append(fn)
            if len(out) >= maxn:
                break
    return out


def classify_crash(rec):
    """Derive a stable violation signature from the captured stderr of a crashed case."""
    text = rec.get("stderr", "")
    m = re.search(r"ERROR: AddressSanitizer: (\S+)", text)
    if m:
        kind = m.group(1)
        if kind == "SEGV":
            # distinguish NULL deref (low address) from wild access
            a = re.search(r"SEGV on unknown address (0x[0-9a-f]+)", text)
            if a and int(a.group(1), 16) < 4096:
                kind = "SEGV-null"
            w = re.search(r"caused by a (READ|WRITE) memory access", text)
            if w:
                kind += "-" + w.group(1).lower()
        fr = _repo_frames(text[m.start():])
        return "asan:%s@%s" % (kind, "<".join(fr) if fr else "?")
    m = re.search(r"^(\S+?):(\d+):(\d+): runtime error: (.*)$", text, re.M)
    if m:
        msg = re.sub(r"0x[0-9a-f]+", "ADDR", m.group(4))
        msg = re.sub(r"-?\d+", "N", msg)[:80]
        fr = _repo_frames(text[m.start():], 1)
        return "ubsan:%s@%s:%s" % (msg.replace(" ", "_"), os.path.basename(m.group(1)), fr[0] if fr else "?")
    m = re.search(r"ERROR: LeakSanitizer: detected memory leaks", text)
    if m:
        fr = _repo_frames(text[m.start():], 3)
        return "lsan:leak@%s" % ("<".join(fr) if fr else "?")
    m = re.search(r"^\S+: (\S+?):(\d+): (.*?): Assertion [`'](.*)' failed", text, re.M)
    if m:
        fn = m.group(3)
        if "(" in fn:      # clang prints the whole signature
            fn = re.findall(r"(\w+)\s*\(", fn)[0]
        return "assert@%s:%s" % (fn, re.sub(r"\s+", "", m.group(4))[:80])
    m = re.search(r"^==\d+== (Invalid (?:read|write) of size \d+|Conditional jump or move depends on uninitialised value\(s\)|"
                  r"Use of uninitialised value of size \d+|Invalid free\(\).*|Mismatched free\(\).*|Syscall param \S+ (?:points to|contains) uninitialised byte\(s\)|"
                  r"Source and destination overlap in \w+.*|Argument '\w+' of function \w+ has a fishy.*)", text, re.M)
    if m:
        kind = re.sub(r"\d+", "N", m.group(1)).replace(" ", "_")[:60]
        fr = []
        for line in text[m.start():].splitlines()[1:14]:
            f = re.match(r"^==\d+==\s+(?:at|by) 0x[0-9A-F]+: (\S+) \((\S+?):\d+\)", line)
            if not f:
                if fr and not line.strip("= 0123456789"):
                    break
                continue
            fn, fil = f.group(1), f.group(2)
            if fil.endswith(".c") and not fil.startswith(("c0", "c1", "c2", "runner", "gen", "hist", "canon", "wf", "snap")) and fn not in fr:
                fr.append(fn)
            if len(fr) >= 2:
                break
        return "valgrind:%s@%s" % (kind, "<".join(fr) if fr else "?")
    m = re.search(r"WARNING: MemorySanitizer: (\S+)", text)
    if m:
        fr = _repo_frames(text[m.start():])
        return "msan:%s@%s" % (m.group(1), "<".join(fr) if fr else "?")
    if rec.get("fault_in_mapping"):
        return "fault:%s" % rec["fault_in_mapping"]
    if rec.get("signal"):
        return "signal:%d" % rec["signal"]
    return "exit:%s" % rec.get("exit")


# ---------------------------------------------------------------------------------------
# known findings

def load_known():
    p = os.path.join(VERIF, "known_findings.json")
    if not os.path.exists(p):
        return []
    return json.load(open(p)).get("findings", [])


def match_known(prop, key, known):
    for k in known:
        if k.get("status") != "open":
            continue      # the key regex starts with the property id(s) the finding applies to
        if re.fullmatch(k["key"], key):
            return k
    return None


# ---------------------------------------------------------------------------------------
# verdict

def finish(prop, tier, seed, t0, results, rule, nontrivial_classes, floor, assumptions, extra=None,
           harness_failures=(), level="exploration", evaluations_key="cases", exhaustive=False,
           replay_info=None):
    """Apply known findings, write evidence, print verdict lines, return exit code."""
    known = load_known()
    stats = results["stats"]
    viols = {}      # key -> first record
    inconclusive = list(harness_failures)
    for r in results["records"]:
        t = r.get("t")
        if t == "viol":
            key = "%s/%s" % (prop, r["key"])
        elif t == "crash":
            key = "%s/%s" % (prop, classify_crash(r))
            if r.get("ctx"):
                key += "/" + r["ctx"]
        elif t == "hang":
            key = "%s/hang@%s" % (prop, r.get("ctx", "?"))
        elif t in ("timeout", "garbled", "harness"):
            inconclusive.append("%s at case %s: %s" % (t, r.get("case"), str(r.get("msg", r.get("line", "")))[:200]))
            continue
        else:
            continue
        r["fullkey"] = key
        viols.setdefault(key, []).append(r)

    new, knownhits = [], {}
    rdir = os.path.join(os.environ.get("VERIF_REPLAY_DIR") or os.path.join(VERIF, "replays"), prop)      # overridden by bin/seedtest --worktree only
    for key, recs in sorted(viols.items()):
        k = match_known(prop, key, known)
        if k:
            knownhits.setdefault(k["title"], []).append(key)
            continue
        os.makedirs(rdir, exist_ok=True)
        r = recs[0]
        path = os.path.join(rdir, hashlib.sha1(key.encode()).hexdigest()[:12] + ".case")
        rep = dict(property=prop, key=key, seed=seed, tier=tier, case=r.get("case"), count=len(recs),
                   detail=r.get("detail"), desc=r.get("desc"), stderr=r.get("stderr"), kind=r.get("t"))
        if replay_info:
            rep.update(replay_info)
        with open(path, "w") as fh:
            json.dump(rep, fh, indent=1)
        new.append((key, path, r))

    evaluations = int(stats.get(evaluations_key, 0))
    dn = 0
    per_class = {}
    for cls, s in results["distinct"].items():
        per_class[str(cls)] = len(s)
        if nontrivial_classes is None or cls in nontrivial_classes:
            dn += len(s)
    cov = dict(evaluations=evaluations, distinct_nontrivial=dn, rule=rule,
               samples=results["samples"][:12] or ["(no sample recorded)"],
               distinct_by_class=per_class,
               counters={k: stats[k] for k in sorted(stats)},
               known_findings_hit={t: sorted(set(v))[:8] for t, v in knownhits.items()},
               new_violation_keys=[k for k, _, _ in new][:50],
               inconclusive=inconclusive[:20],
               exhaustive=bool(exhaustive), tree_hash=tree_hash(), repo=REPO)
    if extra:
        cov.update(extra)
    ev = dict(property_id=prop, tier=tier, seed=int(seed), level=level, coverage=cov,
              assumptions=list(assumptions), wall_s=round(time.time() - t0, 2), violations=len(new))
    evd = os.environ.get("VERIF_EVIDENCE_DIR") or os.path.join(VERIF, "evidence")      # overridden by bin/seedtest --worktree only
    os.makedirs(evd, exist_ok=True)
    evp = os.path.join(evd, prop + ".json")
    with open(evp + ".tmp", "w") as fh:
        json.dump(ev, fh, indent=1, sort_keys=True)
    os.rename(evp + ".tmp", evp)

    for title, keys in sorted(knownhits.items()):
        print("KNOWN-FINDING: property=%s %s" % (prop, title))
    # every open finding listed for this property is announced on every run; the ones whose witness this run's sample did not
    # draw are marked as such (the evidence file only counts the observed ones)
    for k in known:
        if k.get("status") == "open" and k.get("property") == prop and k["title"] not in knownhits:
            print("KNOWN-FINDING: property=%s %s [listed in known_findings.json; not re-observed by this run's sample]" % (prop, k["title"]))
    for key, path, r in new:
        print("VIOLATION property=%s replay=%s" % (prop, path))
        print("  key=%s" % key)
        d = r.get("detail") or r.get("stderr", "")[-600:]
        if d:
            print("  " + str(d)[:600].replace("\n", "\n  "))
    print("%s %s seed=%s: evaluations=%d distinct_nontrivial=%d violations=%d known=%d wall=%.1fs" %
          (prop, tier, seed, evaluations, dn, len(new), len(knownhits), time.time() - t0))
    if new:
        return 1
    if inconclusive:
        for m in inconclusive[:10]:
            print("INCONCLUSIVE %s: %s" % (prop, m))
        return 2
    if dn < floor:
        print("INCONCLUSIVE %s: only %d distinct non-trivial cases observed (floor %d)" % (prop, dn, floor))
        return 2
    return 0
