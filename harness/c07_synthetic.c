/* C07: synthetic descriptions. mode = index % 3:
 *  0 faithful build of a generator AST (partition/size/type expectations computed by the harness),
 *  1 hostile description strings in exact-size heap blocks (safety, 0/-1, WF on success),
 *  2 export: snprintf contract, reload, per-flag comparison table, fixpoint. */
#include "hv.h"
#include "topo.h"
#include "snp.h"
#include <ctype.h>

const char *hv_property = "C07";
unsigned hv_batch = 16;
unsigned hv_cpu_limit_s = 60;
static struct hv_rng R;

void hv_setup(void) {}

static hwloc_topology_t load_keepall(const char *desc, int *stage)
{
  struct tg_config c; tg_config_default(&c);
  for (int t = 0; t < TG_NTYPES; t++) c.filter[t] = HWLOC_TYPE_FILTER_KEEP_ALL;
  c.filter[HWLOC_OBJ_GROUP] = HWLOC_TYPE_FILTER_KEEP_STRUCTURE;
  c.filter[HWLOC_OBJ_MACHINE] = c.filter[HWLOC_OBJ_PU] = c.filter[HWLOC_OBJ_NUMANODE] = -1;
  return tl_load_synthetic(desc, &c, stage);
}

/* ------------------------------------------------------------------ mode 0: faithful build */
struct alevel { hwloc_obj_type_t type; const char *name; unsigned arity; unsigned long width; uint64_t size; /* cache size or numa memory, 0 = default */
                unsigned nattached; uint64_t amem[3]; uint64_t amsc[3]; };
static const struct { hwloc_obj_type_t t; const char *n[3]; } TN[] = {
  { HWLOC_OBJ_PACKAGE, { "Package", "pack", "pa" } }, { HWLOC_OBJ_DIE, { "Die", "die", "di" } },
  { HWLOC_OBJ_L3CACHE, { "L3Cache", "l3", "L3u" } }, { HWLOC_OBJ_L2CACHE, { "L2Cache", "l2", "l2u" } }, { HWLOC_OBJ_L1CACHE, { "L1dCache", "l1d", "L1" } },
  { HWLOC_OBJ_L1ICACHE, { "L1iCache", "l1i", "L1i" } }, { HWLOC_OBJ_CORE, { "Core", "core", "co" } } };

static uint64_t cache_default(hwloc_obj_type_t t)
{
  unsigned d = t >= HWLOC_OBJ_L1ICACHE ? (unsigned)(t - HWLOC_OBJ_L1ICACHE + 1) : (unsigned)(t - HWLOC_OBJ_L1CACHE + 1);
  return d == 1 ? 32 * 1024 : (256ULL * 1024) << (2 * d);
}
static uint64_t gen_size(struct hv_str *out, const char *key)
{
  static const struct { const char *u; uint64_t m; } U[] = { { "", 1 }, { "kB", 1000 }, { "KiB", 1024 }, { "MB", 1000000 }, { "MiB", 1 << 20 }, { "GB", 1000000000ULL }, { "GiB", 1ULL << 30 }, { "kiB", 1024 }, { "mb", 1000000 }, { "TiB", 1ULL << 40 } };
  unsigned u = (unsigned)hv_below(&R, 10);
  uint64_t v = 1 + hv_below(&R, u == 0 ? 1u << 28 : u >= 9 ? 4 : u >= 5 ? 64 : 5000);
  hv_str_add(out, "%s=%llu%s", key, (unsigned long long)v, U[u].u);
  return v * U[u].m;
}

static int cmp_u64p(const void *a, const void *b) { uint64_t x = *(const uint64_t *)a, y = *(const uint64_t *)b; return x < y ? -1 : x > y; }
static int cmp_u(const void *a, const void *b) { unsigned x = *(const unsigned *)a, y = *(const unsigned *)b; return x < y ? -1 : x > y; }

static void faithful_case(uint64_t index)
{
  struct alevel lv[12]; unsigned nl = 0;
  struct hv_str d; hv_str_init(&d);
  /* choose typed levels in canonical order, one optional structural Group, one optional NUMA level */
  int numa_level_at = -1, group_at = -1;
  unsigned pick[7], np = 0;
  for (unsigned k = 0; k < 7; k++) if (hv_chance(&R, 1, 2)) pick[np++] = k;
  if (np && hv_chance(&R, 1, 4)) group_at = (int)hv_below(&R, np + 1);
  int want_numa_level = hv_chance(&R, 1, 3);
  if (want_numa_level) numa_level_at = (int)hv_below(&R, np + 1);
  for (unsigned k = 0; k <= np; k++) {
    if ((int)k == group_at) { lv[nl].type = HWLOC_OBJ_GROUP; lv[nl].name = hv_chance(&R, 1, 2) ? "Group" : "group"; nl++; }
    if ((int)k == numa_level_at) { lv[nl].type = HWLOC_OBJ_NUMANODE; lv[nl].name = hv_chance(&R, 1, 2) ? "NUMANode" : "numa"; nl++; }
    if (k < np) { lv[nl].type = TN[pick[k]].t; lv[nl].name = TN[pick[k]].n[hv_below(&R, 3)]; nl++; }
  }
  lv[nl].type = HWLOC_OBJ_PU; lv[nl].name = hv_chance(&R, 1, 6) ? "" : hv_chance(&R, 1, 2) ? "PU" : "pu"; nl++;
  unsigned long width = 1;
  for (unsigned i = 0; i < nl; i++) {
    unsigned long room = 192 / width; unsigned a = 1;
    unsigned cap = room > 6 ? 6 : (unsigned)room;
    if (cap >= 2) a = 1 + (unsigned)hv_below(&R, cap);
    /* structural requirements: Group and Die bring structure (arity in and out >= 2 when possible) */
    if ((lv[i].type == HWLOC_OBJ_GROUP || lv[i].type == HWLOC_OBJ_DIE || lv[i].type == HWLOC_OBJ_NUMANODE) && a < 2) a = cap >= 2 ? 2 : 1;
    if (i > 0 && (lv[i - 1].type == HWLOC_OBJ_GROUP || lv[i - 1].type == HWLOC_OBJ_NUMANODE) && a < 2) a = cap >= 2 ? 2 : 1;
    lv[i].arity = a; width *= a; lv[i].width = width; lv[i].size = 0; lv[i].nattached = 0;
  }
  /* a Group/NUMA-level/Die that could not get structure is not covered by the faithfulness oracle: regenerate as plain */
  int structural_ok = 1;
  for (unsigned i = 0; i < nl; i++) {
    if ((lv[i].type == HWLOC_OBJ_GROUP || lv[i].type == HWLOC_OBJ_NUMANODE || lv[i].type == HWLOC_OBJ_DIE) && (lv[i].arity < 2 || (i + 1 < nl && lv[i + 1].arity < 2))) structural_ok = 0;
  }
  unsigned long npus = width;
  /* attached NUMA (only without a NUMA level), attached to Machine (i == 0 means before level 0) or to typed level i-1 */
  unsigned long nnuma = 0;
  uint64_t numa_expected_total_mem = 0;
  unsigned attach_slot[12]; memset(attach_slot, 0, sizeof attach_slot);
  if (numa_level_at < 0) {
    for (unsigned i = 0; i < nl; i++) {
      if (!hv_chance(&R, 1, 3)) continue;
      unsigned long pw = i ? lv[i - 1].width : 1;
      unsigned k = 1 + (unsigned)hv_below(&R, 2);
      if (nnuma + k * pw > 256) continue;
      attach_slot[i] = k; nnuma += k * pw;
    }
  }
  /* PU index clause */
  unsigned *pu_idx = malloc(npus * sizeof *pu_idx);
  for (unsigned long j = 0; j < npus; j++) pu_idx[j] = (unsigned)j;
  int idx_mode = structural_ok ? (int)hv_below(&R, 5) : 0;     /* 0 none, 1 explicit permutation, 2 explicit sparse, 3 interleave by one ancestor type, 4 by a list of ancestor types in any order */
  unsigned il_level = 0, il_list[3], il_n = 0;
  if (idx_mode == 4) {
    unsigned cand[12], nc = 0;
    for (unsigned i = 0; i + 1 < nl; i++) if (lv[i].type != HWLOC_OBJ_GROUP && lv[i].type != HWLOC_OBJ_NUMANODE && lv[i].name[0]) cand[nc++] = i;
    if (nc < 2) idx_mode = nc ? 3 : 0;
    else { il_n = 2 + (nc > 2 && hv_chance(&R, 1, 2));
      for (unsigned k = 0; k < il_n; k++) { unsigned pick = (unsigned)hv_below(&R, nc - k), t2 = cand[pick]; cand[pick] = cand[nc - k - 1]; il_list[k] = t2; }   /* distinct levels, any order: top-down, bottom-up, mixed */ }
  }
  if (idx_mode == 3) {
    unsigned cand[12], nc = 0;
    for (unsigned i = 0; i + 1 < nl; i++) if (lv[i].type != HWLOC_OBJ_GROUP && lv[i].type != HWLOC_OBJ_NUMANODE) cand[nc++] = i;
    if (!nc) idx_mode = 0; else il_level = cand[hv_below(&R, nc)];
  }
  if (idx_mode == 1 || idx_mode == 2) {
    for (unsigned long i = npus - 1; i > 0; i--) { unsigned long j = hv_below(&R, i + 1); unsigned t = pu_idx[i]; pu_idx[i] = pu_idx[j]; pu_idx[j] = t; }
    if (idx_mode == 2) for (unsigned long j = 0; j < npus; j++) pu_idx[j] = pu_idx[j] * 3 + 7;
  } else if (idx_mode == 3) {
    unsigned long w = lv[il_level].width, step = npus / w;
    for (unsigned long j = 0; j < npus; j++) pu_idx[j] = (unsigned)((j / step) % w + (j % step) * w);
  } else if (idx_mode == 4) {
    /* "interleaved by the first listed type first, then by the next one ...": the coordinate of PU j for a listed level is the rank of
     * its ancestor of that level inside the closest listed level above it (or inside the machine); the first listed type is the
     * least significant digit, what is left (the rank of the PU inside its deepest listed ancestor) is the most significant one */
    unsigned long mul = 1, deepest_step = npus; int bottom_up = 0;
    for (unsigned k = 0; k + 1 < il_n; k++) if (il_list[k] > il_list[k + 1]) bottom_up = 1;
    for (unsigned long j = 0; j < npus; j++) pu_idx[j] = 0;
    for (unsigned k = 0; k < il_n; k++) {
      unsigned me = il_list[k]; unsigned long above = 1;
      for (unsigned q = 0; q < il_n; q++) if (il_list[q] < me && lv[il_list[q]].width > above) above = lv[il_list[q]].width;
      unsigned long step = npus / lv[me].width, nb = lv[me].width / above;
      for (unsigned long j = 0; j < npus; j++) pu_idx[j] += (unsigned)(((j / step) % nb) * mul);
      mul *= nb; if (step < deepest_step) deepest_step = step;
    }
    for (unsigned long j = 0; j < npus; j++) pu_idx[j] += (unsigned)((j % deepest_step) * mul);
    hv_stat(bottom_up ? "faithful.interleave_list_not_top_down" : "faithful.interleave_list_top_down", 1);
  }
  /* render */
  for (unsigned i = 0; i < nl; i++) {
    for (unsigned q = 0; q < attach_slot[i]; q++) {
      hv_str_add(&d, "%s[%s", d.len ? " " : "", hv_chance(&R, 1, 2) ? "NUMANode" : "numa");
      lv[i].amem[q] = 0; lv[i].amsc[q] = 0;
      int open = 0;
      if (hv_chance(&R, 1, 2)) { hv_str_add(&d, "("); lv[i].amem[q] = gen_size(&d, "memory"); open = 1; }
      if (hv_chance(&R, 1, 4)) { hv_str_add(&d, open ? " " : "("); lv[i].amsc[q] = gen_size(&d, "memorysidecachesize"); open = 1; }
      if (open) hv_str_add(&d, ")");
      hv_str_add(&d, "]");
      lv[i].nattached++;
      unsigned long pw = i ? lv[i - 1].width : 1;
      numa_expected_total_mem += pw * (lv[i].amem[q] ? lv[i].amem[q] : 1ULL << 30);
    }
    hv_str_add(&d, "%s", d.len ? " " : "");
    if (lv[i].name[0]) hv_str_add(&d, "%s:", lv[i].name);
    hv_str_add(&d, "%u", lv[i].arity);
    int open = 0;
    if (tk_is_cache(lv[i].type) && hv_chance(&R, 1, 2)) { hv_str_add(&d, "("); lv[i].size = gen_size(&d, "size"); open = 1; }
    if (lv[i].type == HWLOC_OBJ_NUMANODE && hv_chance(&R, 1, 2)) { hv_str_add(&d, "("); lv[i].size = gen_size(&d, "memory"); open = 1; }
    if (i == nl - 1 && idx_mode) {
      hv_str_add(&d, open ? " indexes=" : "(indexes="); open = 1;
      if (idx_mode == 3) hv_str_add(&d, "%s", lv[il_level].name);
      else if (idx_mode == 4) for (unsigned k = 0; k < il_n; k++) hv_str_add(&d, "%s%s", k ? ":" : "", lv[il_list[k]].name);
      else for (unsigned long j = 0; j < npus; j++) hv_str_add(&d, "%s%u", j ? "," : "", pu_idx[j]);
    }
    if (open) hv_str_add(&d, ")");
  }
  if (numa_level_at >= 0) { for (unsigned i = 0; i < nl; i++) if (lv[i].type == HWLOC_OBJ_NUMANODE) { nnuma = lv[i].width; numa_expected_total_mem = lv[i].width * (lv[i].size ? lv[i].size : 1ULL << 30); } }
  else if (!nnuma) { nnuma = 1; numa_expected_total_mem = 1ULL << 30; }      /* documented: a single NUMA node is added when none is given */

  hv_desc("faithful%s: \"%s\"\n", structural_ok ? "" : "(safety only)", d.s);
  hv_ctxkey("faithful:set_synthetic+load");
  int stage = 0;
  char *blk = hv_exact_dup(d.s, d.len + 1);
  hwloc_topology_t t = load_keepall(blk, &stage);
  free(blk);
  if (!t) { hv_viol("faithful.rejected", "generator description rejected at stage %d: %s", stage, d.s); goto out; }
  if (wf_check(t, "faithful.") == 0) wf_builtin(t, "faithful");
  hv_stat("faithful.loaded", 1);
  if (!structural_ok) { hv_stat("faithful.safety_only", 1); hwloc_topology_destroy(t); goto out; }

  /* expectations */
  if ((unsigned long)hwloc_get_nbobjs_by_type(t, HWLOC_OBJ_PU) != npus) hv_viol("faithful.pu_count", "%d PUs, description says %lu", hwloc_get_nbobjs_by_type(t, HWLOC_OBJ_PU), npus);
  if ((unsigned long)hwloc_get_nbobjs_by_type(t, HWLOC_OBJ_NUMANODE) != nnuma) hv_viol("faithful.numa_count", "%d NUMA nodes, description says %lu", hwloc_get_nbobjs_by_type(t, HWLOC_OBJ_NUMANODE), nnuma);
  if (hwloc_get_root_obj(t)->total_memory != numa_expected_total_mem) hv_viol("faithful.total_memory", "total memory %llu, description says %llu", (unsigned long long)hwloc_get_root_obj(t)->total_memory, (unsigned long long)numa_expected_total_mem);
  int prevdepth = 0;
  for (unsigned i = 0; i < nl && !hv_viol_count(); i++) {
    if (lv[i].type == HWLOC_OBJ_NUMANODE) {
      hwloc_obj_t n = NULL; uint64_t want = lv[i].size ? lv[i].size : 1ULL << 30;
      while ((n = hwloc_get_next_obj_by_type(t, HWLOC_OBJ_NUMANODE, n)) != NULL) {
        if (n->attr->numanode.local_memory != want) { hv_viol("faithful.numa_memory", "NUMA P#%u has %llu bytes, expected %llu", n->os_index, (unsigned long long)n->attr->numanode.local_memory, (unsigned long long)want); break; }
        if ((unsigned long)hwloc_bitmap_weight(n->cpuset) != npus / lv[i].width) { hv_viol("faithful.numa_locality", "NUMA P#%u covers %d PUs, expected %lu", n->os_index, hwloc_bitmap_weight(n->cpuset), npus / lv[i].width); break; }
      }
      continue;
    }
    int depth = hwloc_get_type_depth(t, lv[i].type);
    if (lv[i].type == HWLOC_OBJ_GROUP) {
      /* count Group objects over all depths: the NUMA level may add Groups of its own */
      unsigned long ng = 0; int td = hwloc_topology_get_depth(t);
      for (int dd = 0; dd < td; dd++) if (hwloc_get_depth_type(t, dd) == HWLOC_OBJ_GROUP) ng += hwloc_get_nbobjs_by_depth(t, dd);
      if (numa_level_at < 0 ? ng != lv[i].width : ng < lv[i].width)
        hv_viol("faithful.group_level", "structural Group level (arity %u, children arity %u): %lu Group objects, description says %lu", lv[i].arity, lv[i + 1].arity, ng, lv[i].width);
      continue;
    }
    if (depth < 0) { hv_viol("faithful.level_missing", "level %s:%u missing (get_type_depth=%d)", lv[i].name, lv[i].arity, depth); break; }
    if (depth <= prevdepth && i) { hv_viol("faithful.level_order", "level %s at depth %d not below the previous level (depth %d)", lv[i].name, depth, prevdepth); break; }
    prevdepth = depth;
    unsigned n = hwloc_get_nbobjs_by_depth(t, depth);
    if (n != lv[i].width) { hv_viol("faithful.level_width", "level %s has %u objects, description says %lu", lv[i].name, n, lv[i].width); break; }
    /* partition of PU indexes: block k of the creation order must be the cpuset of one object of the level */
    unsigned long s = npus / lv[i].width;
    uint64_t *want = malloc(lv[i].width * sizeof *want), *got = malloc(lv[i].width * sizeof *got);
    for (unsigned long k = 0; k < lv[i].width; k++) {
      unsigned *blk2 = malloc(s * sizeof *blk2); memcpy(blk2, pu_idx + k * s, s * sizeof *blk2); qsort(blk2, s, sizeof *blk2, cmp_u);
      want[k] = hv_hash_bytes(blk2, s * sizeof *blk2, 1); free(blk2);
      hwloc_obj_t o = hwloc_get_obj_by_depth(t, depth, (unsigned)k);
      unsigned *g = malloc((s + 1) * sizeof *g); unsigned long ng = 0; int id;
      for (id = hwloc_bitmap_first(o->cpuset); id >= 0 && ng <= s; id = hwloc_bitmap_next(o->cpuset, id)) g[ng++] = (unsigned)id;
      got[k] = ng == s ? hv_hash_bytes(g, s * sizeof *g, 1) : 0; free(g);
      if (tk_is_cache(lv[i].type)) {
        uint64_t ws = lv[i].size ? lv[i].size : cache_default(lv[i].type);
        if (o->attr->cache.size != ws) { hv_viol("faithful.cache_size", "%s size %llu, expected %llu", lv[i].name, (unsigned long long)o->attr->cache.size, (unsigned long long)ws); break; }
      }
    }
    qsort(want, lv[i].width, sizeof *want, cmp_u64p); qsort(got, lv[i].width, sizeof *got, cmp_u64p);
    if (memcmp(want, got, lv[i].width * sizeof *want)) hv_viol("faithful.partition", "objects of level %s do not partition the PU indexes as written (index mode %d)", lv[i].name, idx_mode);
    free(want); free(got);
    /* attached NUMA nodes hang below the objects of the previous typed level */
  }
  /* attached NUMA nodes: a node written before level i is local to one object of level i-1, i.e. its cpuset has npus/width(i-1)
   * PUs. Consecutive levels of arity 1 have identical cpusets, so slots are grouped by locality size, not by parent type. */
  for (unsigned i = 0; i < nl && !hv_viol_count(); i++) {
    if (!lv[i].nattached) continue;
    unsigned long bs = npus / (i ? lv[i - 1].width : 1);
    int first = 1; for (unsigned k = 0; k < i; k++) if (lv[k].nattached && npus / (k ? lv[k - 1].width : 1) == bs) first = 0;
    if (!first) continue;
    unsigned long cnt = 0, wantcnt = 0; uint64_t memsum = 0, wantsum = 0, mscsum = 0, wantmsc = 0;
    for (unsigned k = i; k < nl; k++) {
      if (!lv[k].nattached || npus / (k ? lv[k - 1].width : 1) != bs) continue;
      unsigned long pw = k ? lv[k - 1].width : 1;
      wantcnt += pw * lv[k].nattached;
      for (unsigned q = 0; q < lv[k].nattached; q++) { wantsum += pw * (lv[k].amem[q] ? lv[k].amem[q] : 1ULL << 30); wantmsc += pw * lv[k].amsc[q]; }
    }
    hwloc_obj_t n = NULL;
    while ((n = hwloc_get_next_obj_by_type(t, HWLOC_OBJ_NUMANODE, n)) != NULL) {
      if ((unsigned long)hwloc_bitmap_weight(n->cpuset) != bs) continue;
      hwloc_obj_t p = n->parent; uint64_t msc = 0;
      while (p && tk_kind(p->type) == TK_MEMORY) { if (p->type == HWLOC_OBJ_MEMCACHE) msc += p->attr->cache.size; p = p->parent; }
      cnt++; memsum += n->attr->numanode.local_memory; mscsum += msc;
    }
    if (cnt != wantcnt) hv_viol("faithful.attached_count", "%lu NUMA nodes local to %lu PUs, description attaches %lu", cnt, bs, wantcnt);
    else if (memsum != wantsum) hv_viol("faithful.attached_memory", "NUMA nodes local to %lu PUs hold %llu bytes, description says %llu", bs, (unsigned long long)memsum, (unsigned long long)wantsum);
    else if (mscsum != wantmsc) hv_viol("faithful.attached_mscache", "memory-side caches of NUMA nodes local to %lu PUs hold %llu bytes, description says %llu", bs, (unsigned long long)mscsum, (unsigned long long)wantmsc);
  }
  /* NUMA os_index values are 0..n-1 by default */
  if (!hv_viol_count()) {
    unsigned *ni = malloc((nnuma + 1) * sizeof *ni); unsigned long k = 0; hwloc_obj_t n = NULL;
    while ((n = hwloc_get_next_obj_by_type(t, HWLOC_OBJ_NUMANODE, n)) != NULL && k < nnuma) ni[k++] = n->os_index;
    qsort(ni, k, sizeof *ni, cmp_u);
    for (unsigned long j = 0; j < k; j++) if (ni[j] != j) { hv_viol("faithful.numa_indexes", "NUMA os_index values are not 0..%lu", nnuma - 1); break; }
    free(ni);
  }
  hv_stat("faithful.checked", 1);
  {
    uint64_t sh = 3;
    for (unsigned i = 0; i < nl; i++) sh = hv_hash_u64(((uint64_t)lv[i].type << 16) | lv[i].arity | (uint64_t)lv[i].nattached << 24 | (uint64_t)!!lv[i].size << 28, sh);
    if (nl >= 4 || idx_mode || nnuma > 1) hv_distinct(1, hv_hash_u64((uint64_t)idx_mode, sh));
  }
  if (index < 30) hv_sample("faithful: \"%s\" -> %lu PUs, %lu NUMA, index mode %d", d.s, npus, nnuma, idx_mode);
  hwloc_topology_destroy(t);
out:
  free(pu_idx); hv_str_free(&d);
}

/* ------------------------------------------------------------------ mode 1: hostile strings */
static int load_is_affordable(const char *s)
{
  /* product of all digit runs outside parentheses bounds the number of objects a load would create */
  double prod = 1; int paren = 0;
  for (const char *p = s; *p;) {
    if (*p == '(') paren++; else if (*p == ')' && paren) paren--;
    if (isdigit((unsigned char)*p)) {
      char *e; unsigned long v = strtoul(p, &e, 0);
      if (!paren) { if (v > 1) prod *= (double)v; }
      else if (v > 100000 && (p == s || !isalpha((unsigned char)p[-1]))) {
        /* a huge explicit index asks for a bitmap of that many bits: legitimate but unaffordable (sizes such as memory=... are fine) */
        const char *q = p; while (q > s && q[-1] != '=' && q[-1] != '(' ) q--;
        if (q - s >= 8 && !strncmp(q - 8, "indexes=", 8)) return 0;
      }
      p = e; continue;
    }
    p++;
  }
  return prod <= 20000;
}

static void hostile_case(uint64_t index)
{
  struct hv_str d; hv_str_init(&d);
  unsigned cls = (unsigned)hv_below(&R, 10);
  if (cls < 4) {                       /* valid + mutations */
    struct tg_synth_opts o; tg_synth_opts_default(&o); o.max_pus = 128;
    tg_synth_random(&R, &o, &d);
    if (cls >= 1) {
      static const char *tok[] = { "(", ")", "[", "]", ":", " ", "0", "-1", "4294967296", "99999999999999999999", "machine:2", "misc:1", "pu:2", "core:1", "numa:2", "[numa]", "[core]", "[numa(memory=1GB)",
        "(indexes=)", "(indexes=0,0)", "(indexes=1)", "(indexes=core:core)", "(indexes=2*0)", "(indexes=0*2)", "(indexes=3*3:1*3)", "(indexes=numa)", "(size=)", "(memory=18446744073709551615TB)", "group:1", "Tile:2", "Module:1",
        "l9:2", "L1:", "x", ",", "indexes=", "(memorysidecachesize=1kB)", "\n", "\t", "osdev:1", "bridge:1", "pci:1", "Cache:2", "l1i", "die:2", "(", "((" };
      unsigned n = 1 + (unsigned)hv_below(&R, 3);
      /* an explicit index list in which one value appears twice (the description stays syntactically valid) */
      if (hv_chance(&R, 1, 4)) { char *ix = strstr(d.s, "indexes="); if (ix && isdigit((unsigned char)ix[8])) { char *e = ix + 8; unsigned nt = 1; while (isdigit((unsigned char)*e) || *e == ',') { if (*e == ',') nt++; e++; }
          if (nt >= 2) { unsigned i = (unsigned)hv_below(&R, nt), j = (i + 1 + (unsigned)hv_below(&R, nt - 1)) % nt; char *ti = ix + 8, *tj = ix + 8; for (unsigned k = 0; k < i; k++) ti = strchr(ti, ',') + 1; for (unsigned k = 0; k < j; k++) tj = strchr(tj, ',') + 1;
            size_t li = strspn(ti, "0123456789"), lj = strspn(tj, "0123456789"); char vj[24]; snprintf(vj, sizeof vj, "%.*s", (int)(lj < 20 ? lj : 20), tj);
            struct hv_str n2; hv_str_init(&n2); hv_str_addn(&n2, d.s, (size_t)(ti - d.s)); hv_str_addn(&n2, vj, strlen(vj)); hv_str_addn(&n2, ti + li, strlen(ti + li)); hv_str_free(&d); d = n2; n = 0; hv_stat("hostile.duplicate_index_lists", 1); } } }
      for (unsigned k = 0; k < n; k++) {
        size_t pos = d.len ? (size_t)hv_below(&R, d.len + 1) : 0;
        switch (hv_below(&R, 5)) {
        case 0: case 1: { const char *t = tok[hv_below(&R, sizeof tok / sizeof *tok)]; struct hv_str n2; hv_str_init(&n2); hv_str_addn(&n2, d.s, pos); hv_str_addn(&n2, t, strlen(t)); hv_str_addn(&n2, d.s + pos, d.len - pos); hv_str_free(&d); d = n2; break; }
        case 2: if (d.len) { size_t l = 1 + (size_t)hv_below(&R, 6); if (pos + l > d.len) l = d.len - pos; memmove(d.s + pos, d.s + pos + l, d.len - pos - l + 1); d.len -= l; } break;
        case 3: if (d.len) { d.len = pos; d.s[pos] = 0; } break;
        default: if (d.len) { size_t p = pos < d.len ? pos : d.len - 1; d.s[p] = (char)(1 + hv_below(&R, 255)); } break;
        }
      }
    }
  } else if (cls < 7) {                /* deep chains around the 128-level limit */
    static const char *ty[] = { "group", "Group", "gr" };
    unsigned n = hv_chance(&R, 2, 3) ? 118 + (unsigned)hv_below(&R, 14) : 1 + (unsigned)hv_below(&R, 140);
    int typed = hv_chance(&R, 3, 4), with_numa = hv_chance(&R, 1, 3), with_att = !with_numa && hv_chance(&R, 1, 3);
    unsigned numa_at = (unsigned)hv_below(&R, n), twos = 0;
    for (unsigned i = 0; i < n; i++) {
      unsigned a = (twos < 5 && hv_chance(&R, 1, 20)) ? 2 : 1; twos += a == 2;
      if (with_att && i == numa_at) hv_str_add(&d, "%s[numa]", d.len ? " " : "");
      if (with_numa && i == numa_at && typed) hv_str_add(&d, "%snuma:%u", d.len ? " " : "", a);
      else if (typed) hv_str_add(&d, "%s%s:%u", d.len ? " " : "", ty[hv_below(&R, 3)], a);
      else hv_str_add(&d, "%s%u", d.len ? " " : "", a);
    }
    hv_str_add(&d, "%s%s", d.len ? " " : "", hv_chance(&R, 1, 2) ? "pu:1" : "1");
    hv_stat("hostile.deep_chains", 1);
  } else if (cls < 9) {                /* restricted alphabet */
    static const char al[] = "0123456789:()[] ,=*-abcdeglmnopruzNLCGPD";
    unsigned n = (unsigned)hv_below(&R, 40);
    for (unsigned k = 0; k < n; k++) { char c = al[hv_below(&R, sizeof al - 1)]; hv_str_addn(&d, &c, 1); }
  } else {
    unsigned n = (unsigned)hv_below(&R, 60);
    for (unsigned k = 0; k < n; k++) { char c = (char)(1 + hv_below(&R, 255)); hv_str_addn(&d, &c, 1); }
  }
  hv_desc("hostile (class %u, %zu bytes): \"", cls, d.len);
  for (size_t i = 0; i < d.len; i++) { unsigned char c = (unsigned char)d.s[i]; if (c >= 32 && c < 127 && c != '\\' && c != '"') hv_desc("%c", c); else hv_desc("\\x%02x", c); }
  hv_desc("\"\n");
  char *blk = hv_exact_dup(d.s, d.len + 1);
  hwloc_topology_t t;
  hwloc_topology_init(&t);
  hv_ctxkey("hostile:set_synthetic");
  errno = 0;
  int rc = hwloc_topology_set_synthetic(t, blk);
  int e = errno;
  if (rc != 0 && rc != -1) hv_viol("hostile.retval", "set_synthetic returned %d", rc);
  if (rc == -1 && e != EINVAL) hv_viol("hostile.errno", "set_synthetic failed with errno %d, expected EINVAL", e);
  hv_stat(rc == 0 ? "hostile.accepted" : "hostile.rejected", 1);
  uint64_t shape = (uint64_t)cls | (uint64_t)(rc == 0) << 8;
  if (rc == 0) {
    if (load_is_affordable(d.s)) {
      /* the string may be freed before load: the backend keeps its own copy */
      if (hv_chance(&R, 1, 2)) { memset(blk, '#', d.len); }
      hwloc_topology_set_all_types_filter(t, HWLOC_TYPE_FILTER_KEEP_ALL);
      if (hv_chance(&R, 1, 2)) hwloc_topology_set_type_filter(t, HWLOC_OBJ_GROUP, HWLOC_TYPE_FILTER_KEEP_NONE);
      hv_ctxkey("hostile:load");
      int lrc = hwloc_topology_load(t);
      if (lrc == 0) { if (wf_check(t, "hostile.") == 0) wf_builtin(t, "hostile"); hv_stat("hostile.loaded", 1); shape |= 1u << 9; shape |= (uint64_t)(hwloc_topology_get_depth(t) > 64) << 10; }
      else { hv_viol("hostile.accepted_but_load_failed", "set_synthetic accepted the description but load returned %d", lrc); }
    } else hv_stat("hostile.accepted_too_large_to_load", 1);
  }
  hv_ctxkey("hostile:destroy");
  hwloc_topology_destroy(t);
  free(blk);
  shape |= (uint64_t)(d.len > 40) << 11 | (uint64_t)!!strchr(d.s, '[') << 12 | (uint64_t)!!strchr(d.s, '(') << 13 | (uint64_t)!!strstr(d.s, "indexes") << 14;
  hv_distinct(2, hv_hash_u64(shape, 9));
  if (index < 40) hv_sample("%s", hv_desc_get());
  hv_str_free(&d);
}

/* ------------------------------------------------------------------ mode 2: export */
struct exp_arg { hwloc_topology_t t; unsigned long flags; };
static int exp_call(char *buf, size_t len, void *arg) { struct exp_arg *a = arg; return hwloc_topology_export_synthetic(a->t, buf, len, a->flags); }

struct numasig { unsigned weight, os; uint64_t mem, msc; };
static int cmp_numasig(const void *a, const void *b)
{
  const struct numasig *x = a, *y = b;
  if (x->weight != y->weight) return x->weight < y->weight ? -1 : 1;
  if (x->mem != y->mem) return x->mem < y->mem ? -1 : 1;
  if (x->msc != y->msc) return x->msc < y->msc ? -1 : 1;
  return 0;
}
/* what the property asks a reload to preserve, as text. skip_groups/skip_die: levels that the export flags legitimately
 * turn into mergeable Groups; sorted_numa: compare NUMA nodes as a multiset (locality, memory, memory-side cache) */
static void level_signature(hwloc_topology_t t, struct hv_str *out, int cache_names, int skip_groups, int skip_die, int attrs, int memory, int numa_sequence)
{
  int depth = hwloc_topology_get_depth(t);
  for (int d = 0; d < depth; d++) {
    hwloc_obj_type_t ty = hwloc_get_depth_type(t, d);
    if ((skip_groups && ty == HWLOC_OBJ_GROUP) || (skip_die && ty == HWLOC_OBJ_DIE)) continue;
    hv_str_add(out, "%s*%u", (!cache_names && tk_is_cache(ty)) ? "Cache" : hwloc_obj_type_string(ty), hwloc_get_nbobjs_by_depth(t, d));
    if (attrs && tk_is_cache(ty)) hv_str_add(out, "(size=%llu)", (unsigned long long)hwloc_get_obj_by_depth(t, d, 0)->attr->cache.size);
    hv_str_add(out, "\n");
  }
  if (attrs) {
    hv_str_add(out, "PU:");
    hwloc_obj_t o = NULL; while ((o = hwloc_get_next_obj_by_type(t, HWLOC_OBJ_PU, o)) != NULL) hv_str_add(out, "%u,", o->os_index);
    hv_str_add(out, "\n");
  }
  if (memory) {
    unsigned n = (unsigned)hwloc_get_nbobjs_by_type(t, HWLOC_OBJ_NUMANODE), k = 0;
    struct numasig *v = calloc(n + 1, sizeof *v);
    hwloc_obj_t o = NULL;
    while ((o = hwloc_get_next_obj_by_type(t, HWLOC_OBJ_NUMANODE, o)) != NULL && k < n) {
      hwloc_obj_t p = o->parent; uint64_t msc = 0; while (p && tk_kind(p->type) == TK_MEMORY) { if (p->type == HWLOC_OBJ_MEMCACHE) msc = p->attr->cache.size; p = p->parent; }
      v[k].weight = (unsigned)hwloc_bitmap_weight(o->cpuset); v[k].os = o->os_index; v[k].mem = attrs ? o->attr->numanode.local_memory : 0; v[k].msc = attrs ? msc : 0; k++;
    }
    if (attrs && numa_sequence) { hv_str_add(out, "NUMA os_index sequence:"); for (unsigned i = 0; i < k; i++) hv_str_add(out, "%u,", v[i].os); hv_str_add(out, "\n"); }
    qsort(v, k, sizeof *v, cmp_numasig);
    for (unsigned i = 0; i < k; i++) hv_str_add(out, "NUMA local to %u PUs mem=%llu msc=%llu\n", v[i].weight, (unsigned long long)v[i].mem, (unsigned long long)v[i].msc);
    free(v);
  }
}

/* a NUMA node hangs from a normal object whose cpuset is shared with its parent or its only child: the description
 * cannot tell which of them holds the memory (the core attaches memory by cpuset) */
static int ambiguous_memory_parent(hwloc_topology_t t)
{
  hwloc_obj_t n = NULL;
  while ((n = hwloc_get_next_obj_by_type(t, HWLOC_OBJ_NUMANODE, n)) != NULL) {
    hwloc_obj_t p = n->parent; while (p && tk_kind(p->type) == TK_MEMORY) p = p->parent;
    if (!p) continue;
    if (p->arity == 1) return 1;
    if (p->parent && p->parent->arity == 1) return 1;
  }
  return 0;
}

static void export_case(uint64_t index)
{
  struct hv_str d; hv_str_init(&d);
  struct tg_synth_opts o; tg_synth_opts_default(&o); o.max_pus = 128;
  if (hv_chance(&R, 1, 8)) { o.max_levels = 14; }
  tg_synth_random(&R, &o, &d);
  struct tg_config c; tg_config_random(&R, &c, 0);
  c.flags &= (HWLOC_TOPOLOGY_FLAG_INCLUDE_DISALLOWED | HWLOC_TOPOLOGY_FLAG_NO_DISTANCES | HWLOC_TOPOLOGY_FLAG_NO_MEMATTRS | HWLOC_TOPOLOGY_FLAG_NO_CPUKINDS | HWLOC_TOPOLOGY_FLAG_IMPORT_SUPPORT);
  struct hv_str cs; hv_str_init(&cs); tg_config_str(&c, &cs);
  hv_desc("export source \"%s\" config %s\n", d.s, cs.s);
  int stage; hv_ctxkey("export:load");
  hwloc_topology_t t = tl_load_synthetic(d.s, &c, &stage);
  if (!t) { hv_stat(stage == 1 ? "generator_invalid_synthetic" : "export.source_load_failed", 1); goto out; }
  if (wf_check(t, "export.source.") == 0) wf_builtin(t, "export.source");
  if (!hwloc_get_root_obj(t)->symmetric_subtree) { hv_viol("export.source_not_symmetric", "a topology built from a synthetic description has a non-symmetric root"); hwloc_topology_destroy(t); goto out; }
  unsigned long fw = hv_below(&R, 16);
  for (unsigned rep = 0; rep < 3 && !hv_viol_count(); rep++, fw = hv_below(&R, 16)) {
    struct exp_arg a = { t, fw };
    char what[40], key[96]; snprintf(what, sizeof what, "export_synthetic.f%lx", fw);
    char *s1 = NULL;
    hv_ctxkey("export:export flags=%#lx", fw);
    errno = 0;
    int n = hv_snp_contract("export_synthetic", exp_call, &a, &s1, &R);
    hv_desc("flags %#lx -> %d \"%s\"\n", fw, n, s1 ? s1 : "");
    if (n < 0) {
      if (!(fw & HWLOC_TOPOLOGY_EXPORT_SYNTHETIC_FLAG_V1)) { snprintf(key, sizeof key, "export.failed.f%lx", fw); hv_viol(key, "export of a symmetric topology failed (errno %d) with flags %#lx", errno, fw); }
      else hv_stat("export.v1_refused", 1);
      free(s1); continue;
    }
    hv_stat("export.ok", 1);
    /* reload the exported string with every type kept */
    hv_ctxkey("export:reload flags=%#lx", fw);
    int st2; hwloc_topology_t t2 = load_keepall(s1, &st2);
    if (!t2) { snprintf(key, sizeof key, "export.reload_rejected.f%lx", fw & 1); hv_viol(key, "exported string \"%s\" (flags %#lx) is rejected by set_synthetic/load (stage %d)", s1, fw, st2); free(s1); continue; }
    if (wf_check(t2, "export.reload.") == 0) wf_builtin(t2, "export.reload");
    /* NO_EXTENDED_TYPES and V1 write Die as Group (and NO_EXTENDED_TYPES caches as "Cache"); with V1 or IGNORE_MEMORY the Groups
     * that only exist to hold memory lose their reason to exist on reload: such levels are not part of the comparison */
    int noext = !!(fw & HWLOC_TOPOLOGY_EXPORT_SYNTHETIC_FLAG_NO_EXTENDED_TYPES), v1 = !!(fw & HWLOC_TOPOLOGY_EXPORT_SYNTHETIC_FLAG_V1);
    int nomem = !!(fw & HWLOC_TOPOLOGY_EXPORT_SYNTHETIC_FLAG_IGNORE_MEMORY);
    int attrs = !(fw & HWLOC_TOPOLOGY_EXPORT_SYNTHETIC_FLAG_NO_ATTRS);
    int memory = !(v1 || nomem);
    int skip_groups = noext || v1 || nomem, skip_die = noext || v1;
    int has_group_or_die = 0;
    for (int dd = 0; dd < hwloc_topology_get_depth(t); dd++) if (hwloc_get_depth_type(t, dd) == HWLOC_OBJ_GROUP || hwloc_get_depth_type(t, dd) == HWLOC_OBJ_DIE) has_group_or_die = 1;
    int amb = ambiguous_memory_parent(t);
    struct hv_str g1, g2; hv_str_init(&g1); hv_str_init(&g2);
    level_signature(t, &g1, !noext, skip_groups, skip_die, attrs, memory, !amb); level_signature(t2, &g2, !noext, skip_groups, skip_die, attrs, memory, !amb);
    const char *df = canon_diff(&g1, &g2);
    if (df) { snprintf(key, sizeof key, "export.roundtrip_differs.f%lx", fw); hv_viol(key, "reload of \"%.300s\" differs from the source: %s", s1, df); }
    /* fixpoint */
    char *buf = malloc((size_t)n + 4096);
    int n2 = hwloc_topology_export_synthetic(t2, buf, (size_t)n + 4096, fw);
    if (skip_groups && has_group_or_die) hv_stat("export.fixpoint_not_demanded_mergeable_groups", 1);
    else if (n2 != n || strcmp(buf, s1)) {
      snprintf(key, sizeof key, "export.not_fixpoint.f%lx%s", fw, amb && !nomem ? ".same_cpuset_parents" : "");
      size_t c = 0; while (s1[c] && buf[c] == s1[c]) c++;
      hv_viol(key, "export(load(S)) (%d bytes) differs from S (%d bytes) at offset %zu: S has \"%.120s\", re-export has \"%.120s\"", n2, n, c, s1 + (c > 40 ? c - 40 : 0), n2 >= 0 ? buf + (c > 40 ? c - 40 : 0) : "(failed)");
    }
    free(buf);
    hv_distinct(3, hv_hash_u64(fw, tv_shape_hash(t)));
    hv_str_free(&g1); hv_str_free(&g2);
    hwloc_topology_destroy(t2);
    if (index < 40 && rep == 0) hv_sample("export flags %#lx of \"%s\" -> \"%s\"", fw, d.s, s1);
    free(s1);
  }
  hv_ctxkey("export:destroy");
  hwloc_topology_destroy(t);
out:
  hv_str_free(&d); hv_str_free(&cs);
}

void hv_case(uint64_t index)
{
  hv_rng_seed(&R, HV.seed, "c07", index);
  switch (index % 3) { case 0: faithful_case(index); break; case 1: hostile_case(index); break; default: export_case(index); }
  hv_ctxkey("%s", "");
  hv_leak_check();
}
