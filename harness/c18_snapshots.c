/* C18: discovery from Linux/x86 snapshots is robust, deterministic and self-consistent, also when attribute files, symlinks and
 * non-instance directories are missing. Each case works on a hard-link clone of a bundled snapshot from which a removal set was deleted. */
#define _GNU_SOURCE
#include "hv.h"
#include "topo.h"
#include "snap.h"
#include <dirent.h>
#include <sys/stat.h>
#include <unistd.h>
#include <fcntl.h>
#include <ctype.h>

const char *hv_property = "C18";
unsigned hv_batch = 4;
unsigned hv_cpu_limit_s = 240;
static struct hv_rng R;
static struct snap *snaps; static unsigned nsnaps;

void hv_setup(void) { nsnaps = snap_list(&snaps); }

/* ---- clone + candidate enumeration ---- */
struct cand { char *rel; char type; /* f, l, d */ int hot; };
static struct cand *C; static unsigned NC, CC;
static unsigned long nfiles;
static int ends_in_digit(const char *name) { size_t n = strlen(name); return n && isdigit((unsigned char)name[n - 1]); }
static void add_cand(const char *rel, char type)
{
  const char *base = strrchr(rel, '/'); base = base ? base + 1 : rel;
  if (ends_in_digit(base)) return;                   /* numbered instances are never removed on their own */
  if (NC == CC) { CC = CC ? CC * 2 : 4096; C = realloc(C, CC * sizeof *C); }
  C[NC].rel = strdup(rel); C[NC].type = type;
  C[NC].hot = !strncmp(rel, "sys/devices/system/", 19) ? 2 : (!strncmp(rel, "proc/", 5) || !strncmp(rel, "sys/class/", 10) || !strncmp(rel, "sys/bus/", 8) || !strncmp(rel, "sys/firmware/", 13) || !strncmp(rel, "sys/kernel/", 11) || !strchr(rel, '/')) ? 1 : 0;
  NC++;
}
static void clone_tree(const char *src, const char *dst, const char *rel)
{
  DIR *d = opendir(src); if (!d) hv_fail("opendir %s: %s", src, strerror(errno));
  struct dirent *e;
  while ((e = readdir(d)) != NULL) {
    if (!strcmp(e->d_name, ".") || !strcmp(e->d_name, "..")) continue;
    char s[4096], t[4096], r[4096];
    snprintf(s, sizeof s, "%s/%s", src, e->d_name); snprintf(t, sizeof t, "%s/%s", dst, e->d_name); snprintf(r, sizeof r, "%s%s%s", rel, rel[0] ? "/" : "", e->d_name);
    struct stat st; if (lstat(s, &st) != 0) continue;
    if (S_ISDIR(st.st_mode)) { if (mkdir(t, 0755) != 0) hv_fail("mkdir %s: %s", t, strerror(errno)); add_cand(r, 'd'); clone_tree(s, t, r); }
    else if (S_ISLNK(st.st_mode)) { char lk[4096]; ssize_t n = readlink(s, lk, sizeof lk - 1); if (n < 0) continue; lk[n] = 0; if (symlink(lk, t) != 0) hv_fail("symlink %s: %s", t, strerror(errno)); add_cand(r, 'l'); nfiles++; }
    else if (S_ISREG(st.st_mode)) { if (link(s, t) != 0) hv_fail("link %s -> %s: %s", s, t, strerror(errno)); add_cand(r, 'f'); nfiles++; }
  }
  closedir(d);
}
static void rm_rf(const char *path)
{
  struct stat st; if (lstat(path, &st) != 0) return;
  if (S_ISDIR(st.st_mode)) {
    DIR *d = opendir(path); if (d) { struct dirent *e; while ((e = readdir(d)) != NULL) { if (!strcmp(e->d_name, ".") || !strcmp(e->d_name, "..")) continue; char p[4096]; snprintf(p, sizeof p, "%s/%s", path, e->d_name); rm_rf(p); } closedir(d); }
    rmdir(path);
  } else unlink(path);
}
static void free_cands(void) { for (unsigned i = 0; i < NC; i++) free(C[i].rel); NC = 0; }

/* ---- loads ---- */
static hwloc_topology_t load_with(const struct snap *s, unsigned variant, unsigned testenv, const struct tg_config *c, const char *what)
{
  hwloc_topology_t t = NULL;
  snap_setenv(s, variant, testenv);
  hv_ctxkey("load:%s:%s", what, s->name);
  hwloc_topology_init(&t);
  if (tg_config_apply(t, c)) { hwloc_topology_destroy(t); snap_clearenv(); return NULL; }
  if (hwloc_topology_load(t) < 0) { hwloc_topology_destroy(t); t = NULL; }
  snap_clearenv();
  hv_stat("loads", 1);
  return t;
}
static unsigned canon_what(hwloc_topology_t t)
{
  unsigned w = (CANON_ALL | CANON_DIST_SORTED) & ~(unsigned)(CANON_USERDATA | CANON_CONFIG | CANON_SUPPORT);
  unsigned long fl = hwloc_topology_get_flags(t);
  if (fl & HWLOC_TOPOLOGY_FLAG_IMPORT_SUPPORT) w |= CANON_SUPPORT;
  if (fl & HWLOC_TOPOLOGY_FLAG_NO_DISTANCES) w &= ~(unsigned)CANON_DIST;
  if (fl & HWLOC_TOPOLOGY_FLAG_NO_MEMATTRS) w &= ~(unsigned)CANON_MEMATTR;
  if (fl & HWLOC_TOPOLOGY_FLAG_NO_CPUKINDS) w &= ~(unsigned)CANON_CPUKINDS;
  return w;
}
static void os_indexes(hwloc_topology_t t, hwloc_obj_type_t type, hwloc_bitmap_t out) { hwloc_bitmap_zero(out); for (hwloc_obj_t o = hwloc_get_next_obj_by_type(t, type, NULL); o; o = hwloc_get_next_obj_by_type(t, type, o)) hwloc_bitmap_set(out, o->os_index); }

void hv_case(uint64_t index)
{
  hv_rng_seed(&R, HV.seed, "c18", index);
  const struct snap *s0 = &snaps[index % nsnaps];
  uint64_t round = index / nsnaps;
  struct tg_config c; if (round % 3 == 0) tg_config_default(&c); else tg_config_random(&R, &c, 0);
  c.flags &= ~(unsigned long)(HWLOC_TOPOLOGY_FLAG_RESTRICT_TO_CPUBINDING | HWLOC_TOPOLOGY_FLAG_RESTRICT_TO_MEMBINDING | HWLOC_TOPOLOGY_FLAG_IS_THISSYSTEM | HWLOC_TOPOLOGY_FLAG_THISSYSTEM_ALLOWED_RESOURCES);
  unsigned variant = (unsigned)hv_below(&R, 8), testenv = round % 2 ? (unsigned)hv_below(&R, 32) : 1;
  struct hv_str cs; hv_str_init(&cs); tg_config_str(&c, &cs);
  /* clone */
  char root[3072]; snprintf(root, sizeof root, "%s/clones", HV.outdir ? HV.outdir : "."); mkdir(root, 0755);
  snprintf(root, sizeof root, "%s/clones/c%llu-%d", HV.outdir ? HV.outdir : ".", (unsigned long long)index, (int)getpid());
  rm_rf(root); if (mkdir(root, 0755) != 0) hv_fail("mkdir %s: %s", root, strerror(errno));
  struct snap s = *s0; nfiles = 0; free_cands();
  hv_ctxkey("clone:%s", s0->name);
  if (s0->kind == 'l') { clone_tree(s0->fsroot, root, ""); snprintf(s.fsroot, sizeof s.fsroot, "%s", root); }
  else if (s0->kind == 'x') { clone_tree(s0->cpuid, root, ""); snprintf(s.cpuid, sizeof s.cpuid, "%s", root); }
  else { char a[4096]; snprintf(a, sizeof a, "%s/fsroot", root); mkdir(a, 0755); clone_tree(s0->fsroot, a, "fsroot"); snprintf(s.fsroot, sizeof s.fsroot, "%s", a); snprintf(a, sizeof a, "%s/cpuid", root); mkdir(a, 0755); clone_tree(s0->cpuid, a, "cpuid"); snprintf(s.cpuid, sizeof s.cpuid, "%s", a);
    for (unsigned i = 0; i < NC; i++) { const char *r = C[i].rel; if (!strncmp(r, "fsroot/", 7)) { r += 7; C[i].hot = !strncmp(r, "sys/devices/system/", 19) ? 2 : (!strncmp(r, "proc/", 5) || !strncmp(r, "sys/class/", 10) || !strncmp(r, "sys/bus/", 8)) ? 1 : 0; } else C[i].hot = 1; } }
  hv_max("max_snapshot_files", nfiles);
  /* removal set */
  unsigned nrm = 0, mode = (unsigned)(round % 5);
  /* mode 4: enumerated removal of one non-instance entry directly below one of the first CPU (or NUMA node) instance directories:
   * cpu<K>/topology first (K = 0..7 over the rounds), then cpu<K>/cache, node<K>/cpumap, ... These entries decide which CPU is the first
   * of its core/package/node, i.e. where objects are placed and how siblings are ordered. */
  char directed[300] = "";
  if (mode == 4 && s0->kind != 'x' && NC) {
    uint64_t r4 = round / 5; unsigned K = (unsigned)(r4 % 8); uint64_t e = r4 / 8;
    static const char *const ent[] = { "cpu/cpu%u/topology", "cpu/cpu%u/cache", "node/node%u/cpumap", "cpu/cpu%u/online", "node/node%u/meminfo", "cpu/cpu%u/topology/core_cpus", "cpu/cpu%u/topology/package_cpus", "cpu/cpu%u/topology/thread_siblings", "cpu/cpu%u/topology/core_siblings", "node/node%u/distance", "cpu/cpu%u/cpu_capacity", "cpu/cpu%u/cpufreq" };
    char rel[200]; snprintf(rel, sizeof rel, ent[e % (sizeof ent / sizeof *ent)], K);
    snprintf(directed, sizeof directed, "%ssys/devices/system/%s", s0->kind == 'l' ? "" : "fsroot/", rel);
  }
  if (mode == 1) nrm = 1 + (unsigned)hv_below(&R, 2); else if (mode == 2) nrm = 1 + (unsigned)hv_below(&R, 8); else if (mode == 3) nrm = 1 + (unsigned)hv_below(&R, 40);
  if (!NC) nrm = 0;
  uint64_t rmhash = 0; unsigned removed = 0, removed_hot = 0;
  hv_desc("snapshot %c:%s variant %u testenv %u config %s, %lu files, %u candidates\n", s0->kind, s0->name, variant, testenv, cs.s, nfiles, NC);
  if (directed[0]) {
    char p[8192]; snprintf(p, sizeof p, "%s/%s", root, directed); struct stat st;
    if (lstat(p, &st) == 0) { rm_rf(p); removed++; removed_hot++; rmhash = hv_hash_str(directed, 1); hv_desc("  removed (enumerated) %s\n", directed); hv_stat("removals.enumerated_first_cpu_entries", 1); }
    else hv_stat("removals.enumerated_entry_absent", 1);
  }
  for (unsigned k = 0; k < nrm; k++) {
    unsigned pick = 0; int want_hot = mode == 1 ? 2 : hv_chance(&R, 2, 3) ? 1 : 0;
    for (int tries = 0; tries < 200; tries++) { pick = (unsigned)hv_below(&R, NC); if (C[pick].hot >= want_hot) break; }
    char p[8192]; snprintf(p, sizeof p, "%s/%s", root, C[pick].rel);
    struct stat st; if (lstat(p, &st) != 0) continue;   /* already gone with a removed ancestor */
    rm_rf(p); removed++; if (C[pick].hot) removed_hot++;
    rmhash = hv_hash_str(C[pick].rel, rmhash + 1);
    if (removed <= 45) hv_desc("  removed %c %s\n", C[pick].type, C[pick].rel);
  }
  hv_stat("removals", removed); hv_stat("removals.hot_paths", removed_hot);
  if (removed) hv_stat("cases_with_removals", 1);

  /* 1. load: clean failure, or a well-formed topology */
  hwloc_topology_t t = load_with(&s, variant, testenv, &c, "first");
  struct hv_str a; hv_str_init(&a);
  if (!t) { hv_stat(removed ? "loads_failed_cleanly.after_removal" : "loads_failed_cleanly.intact", 1); if (!removed && round % 3 == 0) hv_stat("intact_default_loads_failed", 1); }
  else { if (wf_check(t, "loaded.") == 0) wf_builtin(t, "loaded"); canon_dump(t, CANON_ALL & ~(unsigned)CANON_USERDATA, &a); }
  /* 2. determinism */
  if (!hv_viol_count()) {
    hwloc_topology_t t2 = load_with(&s, variant, testenv, &c, "second");
    if (!t != !t2) hv_viol("determinism.outcome", "two loads of the same tree and configuration: one %s, the other %s", t ? "succeeded" : "failed", t2 ? "succeeded" : "failed");
    else if (t2) { struct hv_str b; hv_str_init(&b); canon_dump(t2, CANON_ALL & ~(unsigned)CANON_USERDATA, &b); const char *d = canon_diff(&a, &b); if (d) hv_viol("determinism.differs", "two loads of the same tree and configuration differ: %s", d); hv_str_free(&b); hv_stat("determinism.compared", 1); }
    if (t2) hwloc_topology_destroy(t2);
  }
  /* 3. INCLUDE_DISALLOWED vs default view */
  if (t && !hv_viol_count()) {
    struct tg_config c2 = c; c2.flags ^= HWLOC_TOPOLOGY_FLAG_INCLUDE_DISALLOWED;
    hwloc_topology_t o = load_with(&s, variant, testenv, &c2, "other_view");
    if (o) {
      hwloc_topology_t D = (c.flags & HWLOC_TOPOLOGY_FLAG_INCLUDE_DISALLOWED) ? t : o, N = D == t ? o : t;
      hv_ctxkey("views:%s", s0->name);
      if (D == o && wf_check(o, "with_disallowed.") == 0) wf_builtin(o, "with_disallowed");
      hwloc_bitmap_t x = hwloc_bitmap_alloc(), y = hwloc_bitmap_alloc(); char xs[256], ys[256];
      os_indexes(N, HWLOC_OBJ_PU, x); os_indexes(D, HWLOC_OBJ_PU, y);
      if (!hwloc_bitmap_isincluded(x, y)) { hwloc_bitmap_list_snprintf(xs, sizeof xs, x); hwloc_bitmap_list_snprintf(ys, sizeof ys, y); hv_viol("views.pu_missing", "the default load has PUs {%s}, the INCLUDE_DISALLOWED load only {%s}", xs, ys); }
      os_indexes(N, HWLOC_OBJ_NUMANODE, x); os_indexes(D, HWLOC_OBJ_NUMANODE, y);
      if (!hwloc_bitmap_isincluded(x, y)) { hwloc_bitmap_list_snprintf(xs, sizeof xs, x); hwloc_bitmap_list_snprintf(ys, sizeof ys, y); hv_viol("views.numa_missing", "the default load has NUMA nodes {%s}, the INCLUDE_DISALLOWED load only {%s}", xs, ys); }
      if (!hwloc_bitmap_isequal(hwloc_topology_get_allowed_cpuset(D), hwloc_topology_get_topology_cpuset(N))) { hwloc_bitmap_list_snprintf(xs, sizeof xs, hwloc_topology_get_allowed_cpuset(D)); hwloc_bitmap_list_snprintf(ys, sizeof ys, hwloc_topology_get_topology_cpuset(N)); hv_viol("views.allowed_cpuset", "allowed cpuset of the INCLUDE_DISALLOWED load {%s} != root cpuset of the default load {%s}", xs, ys); }
      if (!hwloc_bitmap_isequal(hwloc_topology_get_allowed_nodeset(D), hwloc_topology_get_topology_nodeset(N))) { hwloc_bitmap_list_snprintf(xs, sizeof xs, hwloc_topology_get_allowed_nodeset(D)); hwloc_bitmap_list_snprintf(ys, sizeof ys, hwloc_topology_get_topology_nodeset(N)); hv_viol("views.allowed_nodeset", "allowed nodeset of the INCLUDE_DISALLOWED load {%s} != root nodeset of the default load {%s}", xs, ys); }
      if (!hwloc_bitmap_isequal(hwloc_topology_get_topology_cpuset(D), hwloc_topology_get_topology_cpuset(N))) hv_stat("views.with_disallowed_resources", 1);
      hwloc_bitmap_free(x); hwloc_bitmap_free(y);
      hv_stat("views.compared", 1);
      hwloc_topology_destroy(o);
    } else hv_stat("views.other_load_failed", 1);
  }
  /* 4. XML round trip */
  if (t && !hv_viol_count()) {
    hv_ctxkey("xml_export:%s", s0->name);
    char *buf = NULL; int len = 0;
    if (hwloc_topology_export_xmlbuffer(t, &buf, &len, 0) != 0) hv_viol("roundtrip.export_failed", "XML export of the loaded snapshot failed");
    else {
      hwloc_topology_t t2; hwloc_topology_init(&t2); hwloc_topology_set_all_types_filter(t2, HWLOC_TYPE_FILTER_KEEP_ALL); hwloc_topology_set_flags(t2, hwloc_topology_get_flags(t));
      hv_ctxkey("xml_import:%s", s0->name);
      char *exact = hv_exact_dup(buf, (size_t)len);
      if (hwloc_topology_set_xmlbuffer(t2, exact, len) != 0 || hwloc_topology_load(t2) != 0) { hv_viol("roundtrip.import_failed", "own XML export of the loaded snapshot is rejected"); hwloc_topology_destroy(t2); }
      else {
        if (wf_check(t2, "reloaded.") == 0) wf_builtin(t2, "reloaded");
        struct hv_str x, y; hv_str_init(&x); hv_str_init(&y); canon_dump(t, canon_what(t), &x); canon_dump(t2, canon_what(t), &y);
        const char *df = canon_diff(&x, &y);
        if (df) { const char *what = strstr(df, "distances") ? "distances" : strstr(df, "memattr") || strstr(df, "target ") || strstr(df, "from ") ? "memattrs" : strstr(df, "cpukind") ? "cpukinds" : strstr(df, "info ") ? "infos" : "tree";
          if (!strcmp(what, "tree")) { struct hv_str x2, y2; hv_str_init(&x2); hv_str_init(&y2); canon_dump(t, canon_what(t) | CANON_NO_MEM_CCS, &x2); canon_dump(t2, canon_what(t) | CANON_NO_MEM_CCS, &y2); if (!canon_diff(&x2, &y2)) what = "memory_child_complete_cpuset"; hv_str_free(&x2); hv_str_free(&y2); }
          char key[64]; snprintf(key, sizeof key, "roundtrip.differs.%s", what); hv_viol(key, "topology reloaded from its own XML export differs: %s", df); }
        hv_str_free(&x); hv_str_free(&y); hv_stat("roundtrip.compared", 1);
        hwloc_topology_destroy(t2);
      }
      free(exact); hwloc_free_xmlbuffer(t, buf);
    }
  }
  /* did the removal matter? compare with the intact snapshot */
  if (removed && !hv_viol_count()) {
    hwloc_topology_t ti = load_with(s0, variant, testenv, &c, "intact");
    int changed = !ti != !t;
    if (ti && t) { struct hv_str b; hv_str_init(&b); canon_dump(ti, CANON_ALL & ~(unsigned)CANON_USERDATA, &b); changed = canon_diff(&a, &b) != NULL; hv_str_free(&b); }
    if (ti) hwloc_topology_destroy(ti);
    if (changed) { hv_stat("removals_that_changed_the_result", 1); hv_distinct(1, hv_hash_u64(rmhash, hv_hash_u64(tg_config_hash(&c), hv_hash_str(s0->name, variant)))); }
    else hv_distinct(2, hv_hash_u64(rmhash, hv_hash_str(s0->name, variant)));
  } else if (!removed && t) hv_distinct(3, hv_hash_u64(tg_config_hash(&c), hv_hash_str(s0->name, variant)));
  if (index < 8) hv_sample("%s", hv_desc_get());
  hv_str_free(&a); hv_str_free(&cs);
  hv_ctxkey("destroy");
  if (t) hwloc_topology_destroy(t);
  hv_ctxkey("cleanup");
  rm_rf(root); free_cands();
  hv_ctxkey("%s", "");
  hv_leak_check();
}
