/* C20: command-line tools compute what the library API defines. The tools (built from /repo/utils with the same sanitizers) are run as
 * real processes; expected values are computed with the library from the generated expression tree, never by parsing tool syntax. */
#define _GNU_SOURCE
#include "hv.h"
#include <limits.h>
#include "topo.h"
#include "hist.h"
#include <hwloc/diff.h>
#include <sys/wait.h>
#include <unistd.h>
#include <fcntl.h>
#include <signal.h>
#include <poll.h>
#include <ctype.h>
#include <sys/stat.h>
#include <sys/time.h>

const char *hv_property = "C20";
unsigned hv_batch = 4;
unsigned hv_cpu_limit_s = 240;
static struct hv_rng R;
static const char **corpus; static unsigned ncorpus;
static const char *tools_dir;

void hv_setup(void) { ncorpus = tl_corpus(&corpus); tools_dir = getenv("VERIF_TOOLS_DIR"); if (!tools_dir) hv_fail("VERIF_TOOLS_DIR not set"); }

/* ------------------------------------------------------------------ running a tool */
struct run { int exited, code, sig, timed_out, sanitizer; struct hv_str out, err; };
static void run_free(struct run *r) { hv_str_free(&r->out); hv_str_free(&r->err); }
static void run_tool(const char *tool, char *const args[], const char *stdin_data, struct run *r)
{
  memset(r, 0, sizeof *r); hv_str_init(&r->out); hv_str_init(&r->err);
  char path[4096]; snprintf(path, sizeof path, "%s/%s", tools_dir, tool);
  int po[2], pe[2], pi[2]; if (pipe(po) || pipe(pe) || pipe(pi)) hv_fail("pipe");
  fflush(NULL);
  pid_t p = fork();
  if (p == 0) {
    dup2(pi[0], 0); dup2(po[1], 1); dup2(pe[1], 2); close(pi[0]); close(pi[1]); close(po[0]); close(po[1]); close(pe[0]); close(pe[1]);
    setenv("ASAN_OPTIONS", "detect_leaks=0:exitcode=86:abort_on_error=0:allocator_may_return_null=1", 1);
    setenv("UBSAN_OPTIONS", "print_stacktrace=1:halt_on_error=1:exitcode=86", 1);
    unsetenv("HWLOC_HIDE_ERRORS"); setenv("HWLOC_XML_VERBOSE", "0", 1);
    struct itimerval off = { { 0, 0 }, { 0, 0 } }; setitimer(ITIMER_PROF, &off, NULL);
    alarm(60);
    static char *argv[2200]; int n = 0; argv[n++] = path; for (int i = 0; args[i] && n < 2190; i++) argv[n++] = args[i]; argv[n] = NULL;
    execv(path, argv); _exit(127);
  }
  close(pi[0]); close(po[1]); close(pe[1]);
  if (stdin_data) { if (write(pi[1], stdin_data, strlen(stdin_data)) < 0) {} }
  close(pi[1]);
  struct pollfd fds[2] = { { po[0], POLLIN, 0 }, { pe[0], POLLIN, 0 } }; int open_fds = 2;
  while (open_fds) { if (poll(fds, 2, 70000) <= 0) { r->timed_out = 1; kill(p, SIGKILL); break; }
    for (int i = 0; i < 2; i++) if (fds[i].fd >= 0 && (fds[i].revents & (POLLIN | POLLHUP | POLLERR))) { char buf[8192]; ssize_t n = read(fds[i].fd, buf, sizeof buf); if (n > 0) { struct hv_str *s = i ? &r->err : &r->out; if (s->len < (4u << 20)) hv_str_addn(s, buf, (size_t)n); } else { close(fds[i].fd); fds[i].fd = -1; open_fds--; } } }
  if (fds[0].fd >= 0) close(fds[0].fd); if (fds[1].fd >= 0) close(fds[1].fd);
  int st = 0; waitpid(p, &st, 0);
  if (WIFEXITED(st)) { r->exited = 1; r->code = WEXITSTATUS(st); } else if (WIFSIGNALED(st)) { r->sig = WTERMSIG(st); if (r->sig == SIGALRM || r->sig == SIGKILL) r->timed_out = 1; }
  r->sanitizer = (r->exited && r->code == 86) || strstr(r->err.s, "ERROR: AddressSanitizer") || strstr(r->err.s, "runtime error:");
  hv_stat("tool_runs", 1);
}
static void args_desc(const char *tool, char *const args[]) { hv_desc("  $ %s", tool); for (int i = 0; args[i]; i++) hv_desc(" '%s'", args[i]); hv_desc("\n"); }
/* a crash / sanitizer report / hang of a tool is a violation whatever the arguments */
static int tool_died(const char *tool, const struct run *r)
{
  char key[96];
  if (r->sanitizer) { const char *e = strstr(r->err.s, "ERROR: AddressSanitizer"); if (!e) e = strstr(r->err.s, "runtime error:"); snprintf(key, sizeof key, "%s.sanitizer_report", tool); hv_viol(key, "%s produced a sanitizer report: %.600s", tool, e ? e : r->err.s); return 1; }
  if (r->sig && !r->timed_out) { snprintf(key, sizeof key, "%s.signal", tool); hv_viol(key, "%s died from signal %d: %.300s", tool, r->sig, r->err.s); return 1; }
  if (r->timed_out) { snprintf(key, sizeof key, "%s.timeout", tool); hv_viol(key, "%s did not finish within 60 s", tool); return 1; }
  return 0;
}
static void chomp(struct hv_str *s) { while (s->len && (s->s[s->len - 1] == '\n' || s->s[s->len - 1] == ' ')) s->s[--s->len] = 0; }

/* ------------------------------------------------------------------ topology input shared by the tool and the evaluator */
static char input_arg[8192]; static hwloc_topology_t T;
static int load_input(uint64_t index, int want_xml)
{
  int stage; struct tg_config c; tg_config_default(&c);
  for (unsigned i = 0; i < sizeof c.filter / sizeof c.filter[0]; i++) c.filter[i] = HWLOC_TYPE_FILTER_KEEP_ALL;
  c.flags = HWLOC_TOPOLOGY_FLAG_IMPORT_SUPPORT;
  if ((want_xml || index % 3 == 1) && ncorpus) { snprintf(input_arg, sizeof input_arg, "%s", corpus[hv_below(&R, ncorpus)]); T = NULL; hwloc_topology_init(&T); hwloc_topology_set_all_types_filter(T, HWLOC_TYPE_FILTER_KEEP_ALL); hwloc_topology_set_flags(T, c.flags); if (hwloc_topology_set_xml(T, input_arg) != 0 || hwloc_topology_load(T) != 0) { hwloc_topology_destroy(T); T = NULL; } }
  else { struct tg_synth_opts o; tg_synth_opts_default(&o); o.max_pus = hv_chance(&R, 1, 3) ? 400 : 64; struct hv_str d; hv_str_init(&d); tg_synth_random(&R, &o, &d); snprintf(input_arg, sizeof input_arg, "%s", d.s); hv_str_free(&d);
    T = NULL; hwloc_topology_init(&T); hwloc_topology_set_all_types_filter(T, HWLOC_TYPE_FILTER_KEEP_ALL); hwloc_topology_set_flags(T, c.flags); if (hwloc_topology_set_synthetic(T, input_arg) != 0 || hwloc_topology_load(T) != 0) { hwloc_topology_destroy(T); T = NULL; } }
  (void)stage;
  hv_desc("input: %s\n", input_arg);
  return T != NULL;
}

/* ------------------------------------------------------------------ hwloc-calc expressions */
struct lvl { int depth; hwloc_obj_type_t type; char name[32]; };
static struct lvl L[32]; static unsigned NL;
static void collect_levels(void)
{
  NL = 0; int td = hwloc_topology_get_depth(T);
  for (int d = 0; d < td && NL < 32; d++) { hwloc_obj_type_t ty = hwloc_get_depth_type(T, d);
    if (ty == HWLOC_OBJ_GROUP) continue;                                   /* Groups need a depth attribute, several levels share the type */
    if (hwloc_get_type_depth(T, ty) != d) continue;                        /* the type must name exactly this level */
    { int cpuless = 0; for (hwloc_obj_t o = NULL; (o = hwloc_get_next_obj_by_depth(T, d, o)) != NULL; ) if (hwloc_bitmap_iszero(o->cpuset)) cpuless = 1; if (cpuless) continue; }   /* how CPU-less objects are counted in indexes is not documented */
    L[NL].depth = d; L[NL].type = ty; snprintf(L[NL].name, sizeof L[NL].name, "%s", hwloc_obj_type_string(ty)); if (hv_chance(&R, 1, 2)) for (char *p = L[NL].name; *p; p++) *p = (char)tolower((unsigned char)*p); NL++; }
}
/* index specification over n candidates: fills sel[] with candidate positions, text with the spec */
static unsigned index_spec(unsigned n, unsigned *sel, char *text, size_t tn)
{
  unsigned k = (unsigned)hv_below(&R, 8), ns = 0;
  if (n == 1 && k >= 1 && k <= 3) k = 0;
  switch (k) {
  case 0: { unsigned x = (unsigned)hv_below(&R, n); sel[ns++] = x; snprintf(text, tn, "%u", x); break; }
  case 1: { unsigned x = (unsigned)hv_below(&R, n), y = x + (unsigned)hv_below(&R, n - x); for (unsigned i = x; i <= y; i++) sel[ns++] = i; snprintf(text, tn, "%u-%u", x, y); break; }
  case 2: { unsigned x = (unsigned)hv_below(&R, n); for (unsigned i = x; i < n; i++) sel[ns++] = i; snprintf(text, tn, "%u-", x); break; }
  case 3: { unsigned x = (unsigned)hv_below(&R, n), c = 1 + (unsigned)hv_below(&R, n); for (unsigned i = 0; i < c; i++) sel[ns++] = (x + i) % n; snprintf(text, tn, "%u:%u", x, c); break; }
  case 4: case 5: for (unsigned i = 0; i < n; i++) sel[ns++] = i; snprintf(text, tn, "all"); break;
  case 6: for (unsigned i = 1; i < n; i += 2) sel[ns++] = i; snprintf(text, tn, "odd"); break;
  default: for (unsigned i = 0; i < n; i += 2) sel[ns++] = i; snprintf(text, tn, "even"); break;
  }
  return ns;
}
static unsigned cands(const struct lvl *l, hwloc_obj_t scope, hwloc_obj_t *out, unsigned max)
{
  unsigned n = 0;
  if (!scope) { unsigned tot = hwloc_get_nbobjs_by_depth(T, l->depth); for (unsigned i = 0; i < tot && n < max; i++) out[n++] = hwloc_get_obj_by_depth(T, l->depth, i); }
  else { hwloc_obj_t o = NULL; while ((o = hwloc_get_next_obj_inside_cpuset_by_depth(T, scope->cpuset, l->depth, o)) != NULL && n < max) out[n++] = o; }
  return n;
}
/* generates one chain term (type:idx[.type:idx...]) and ORs the designated cpusets into acc */
static int gen_chain(unsigned li, hwloc_obj_t scope, unsigned depth_left, struct hv_str *text, hwloc_bitmap_t acc, unsigned *nested)
{
  hwloc_obj_t c[512]; unsigned n = cands(&L[li], scope, c, 512);
  if (!n) return -1;
  unsigned sel[1024]; char spec[64]; unsigned ns = index_spec(n, sel, spec, sizeof spec);
  hv_str_add(text, "%s%s:%s", scope ? "." : "", L[li].name, spec);
  int deeper = depth_left && li + 1 < NL && hv_chance(&R, 1, 2);
  if (!deeper) { for (unsigned i = 0; i < ns; i++) hwloc_bitmap_or(acc, acc, c[sel[i]]->cpuset); return 0; }
  /* the sub-chain text is the same for every selected parent: generate it on the first one, replay the same relative choice on the others.
   * To keep the relative indexes valid everywhere, the next level is only entered when every selected parent has the same number of candidates. */
  unsigned nli = li + 1 + (unsigned)hv_below(&R, NL - li - 1);
  unsigned cnt0 = 0; hwloc_obj_t tmp[512];
  for (unsigned i = 0; i < ns; i++) { unsigned k = cands(&L[nli], c[sel[i]], tmp, 512); if (!i) cnt0 = k; else if (k != cnt0) cnt0 = 0; if (!cnt0) break; }
  if (!cnt0) { for (unsigned i = 0; i < ns; i++) hwloc_bitmap_or(acc, acc, c[sel[i]]->cpuset); return 0; }
  (*nested)++;
  unsigned sel2[1024]; char spec2[64]; unsigned ns2 = index_spec(cnt0, sel2, spec2, sizeof spec2);
  hv_str_add(text, ".%s:%s", L[nli].name, spec2);
  for (unsigned i = 0; i < ns; i++) { unsigned k = cands(&L[nli], c[sel[i]], tmp, 512); for (unsigned j = 0; j < ns2; j++) if (sel2[j] < k) hwloc_bitmap_or(acc, acc, tmp[sel2[j]]->cpuset); }
  return 0;
}

static void fmt_set(hwloc_const_bitmap_t set, int fmt, char *buf, size_t n)
{
  if (fmt == 1) hwloc_bitmap_list_snprintf(buf, n, set); else if (fmt == 2) hwloc_bitmap_taskset_snprintf(buf, n, set); else hwloc_bitmap_snprintf(buf, n, set);
}

/* nodeset output (--no) on machines whose NUMA nodes hang below packages, optionally restricted so that some packages become CPU-less (they
 * keep their NUMA nodes). Locations: pack:i, numa:m, pack:i.numa:j, pack:i.core:c. "Indexes specified in chained tuples are relative to the
 * scope of the parent object" (hwloc(7)): the j-th NUMA node of a package is the j-th NUMA node, in logical order, that has this package
 * among its ancestors - also when the package has no CPU left. The expected nodeset is the union of the nodesets of the named objects. */
static void calc_nodeset_case(void)
{
  unsigned P = 2 + (unsigned)hv_below(&R, 5), A = 1 + (unsigned)hv_below(&R, 2), C = 1 + (unsigned)hv_below(&R, 3), U = 1 + (unsigned)hv_below(&R, 2);
  snprintf(input_arg, sizeof input_arg, "pack:%u [numa]%s core:%u pu:%u", P, A == 2 ? " [numa]" : "", C, U);
  T = NULL; hwloc_topology_init(&T); hwloc_topology_set_all_types_filter(T, HWLOC_TYPE_FILTER_KEEP_ALL);
  if (hwloc_topology_set_synthetic(T, input_arg) != 0 || hwloc_topology_load(T) != 0) { hwloc_topology_destroy(T); T = NULL; return; }
  char mask[200] = ""; int restricted = 0;
  if (hv_chance(&R, 2, 3)) { hwloc_bitmap_t keep = hwloc_bitmap_alloc(); unsigned kept = 0;
    for (unsigned i = 0; i < P; i++) if (hv_chance(&R, 1, 2)) { hwloc_bitmap_or(keep, keep, hwloc_get_obj_by_type(T, HWLOC_OBJ_PACKAGE, i)->cpuset); kept++; }
    if (kept && kept < P && hwloc_topology_restrict(T, keep, 0) == 0) { hwloc_bitmap_snprintf(mask, sizeof mask, keep); restricted = 1; }
    hwloc_bitmap_free(keep); }
  hv_desc("input: %s%s%s\n", input_arg, restricted ? " --restrict " : "", mask);
  unsigned np = (unsigned)hwloc_get_nbobjs_by_type(T, HWLOC_OBJ_PACKAGE), nn = (unsigned)hwloc_get_nbobjs_by_type(T, HWLOC_OBJ_NUMANODE);
  hwloc_bitmap_t want = hwloc_bitmap_alloc(); char terms[4][64]; unsigned nt = 1 + (unsigned)hv_below(&R, 3), made = 0, cpuless_parent = 0;
  for (unsigned k = 0; k < nt && np; k++) {
    unsigned kind = (unsigned)hv_below(&R, 4), pi = (unsigned)hv_below(&R, np); hwloc_obj_t pk = hwloc_get_obj_by_type(T, HWLOC_OBJ_PACKAGE, pi);
    if (kind == 0) { snprintf(terms[made], 64, "pack:%u", pi); hwloc_bitmap_or(want, want, pk->nodeset); made++; }
    else if (kind == 1 && nn) { unsigned m = (unsigned)hv_below(&R, nn); snprintf(terms[made], 64, "numa:%u", m); hwloc_bitmap_or(want, want, hwloc_get_obj_by_type(T, HWLOC_OBJ_NUMANODE, m)->nodeset); made++; }
    else if (kind == 2) { hwloc_obj_t below[8]; unsigned nb = 0; for (hwloc_obj_t n = NULL; (n = hwloc_get_next_obj_by_type(T, HWLOC_OBJ_NUMANODE, n)) != NULL && nb < 8; ) { for (hwloc_obj_t a = n->parent; a; a = a->parent) if (a == pk) { below[nb++] = n; break; } }
      if (!nb) continue; unsigned j = (unsigned)hv_below(&R, nb); snprintf(terms[made], 64, "pack:%u.numa:%u", pi, j); hwloc_bitmap_or(want, want, below[j]->nodeset); made++; if (hwloc_bitmap_iszero(pk->cpuset)) cpuless_parent = 1; }
    else { if (hwloc_bitmap_iszero(pk->cpuset)) continue; unsigned nc = (unsigned)hwloc_get_nbobjs_inside_cpuset_by_type(T, pk->cpuset, HWLOC_OBJ_CORE); if (!nc) continue; unsigned c = (unsigned)hv_below(&R, nc);
      snprintf(terms[made], 64, "pack:%u.core:%u", pi, c); hwloc_bitmap_or(want, want, hwloc_get_obj_inside_cpuset_by_type(T, pk->cpuset, HWLOC_OBJ_CORE, c)->nodeset); made++; }
  }
  if (made) {
    char *args[24]; int a = 0; args[a++] = "-i"; args[a++] = input_arg; if (restricted) { args[a++] = "--restrict"; args[a++] = mask; } args[a++] = "-q"; args[a++] = hv_chance(&R, 1, 2) ? "--no" : "--nodeset-output";
    for (unsigned k = 0; k < made; k++) args[a++] = terms[k]; args[a] = NULL;
    args_desc("hwloc-calc", args); hv_ctxkey("calc_nodeset");
    struct run r; run_tool("hwloc-calc", args, NULL, &r);
    if (!tool_died("hwloc-calc", &r)) {
      if (!r.exited || r.code) hv_viol("calc.nodeset.failed", "hwloc-calc exited with %d: %.300s", r.code, r.err.s);
      else { hwloc_bitmap_t got = hwloc_bitmap_alloc(); char line[512]; snprintf(line, sizeof line, "%.500s", r.out.s); char *nl = strchr(line, '\n'); if (nl) *nl = 0;
        if (hwloc_bitmap_sscanf(got, line) != 0) hv_viol("calc.nodeset.unparsable", "output \"%.100s\" is not a bitmap", line);
        else if (!hwloc_bitmap_isequal(got, want)) { char w[200]; hwloc_bitmap_snprintf(w, sizeof w, want); hv_viol(cpuless_parent ? "calc.nodeset.cpuless_parent" : "calc.nodeset", "nodeset output is %s, the named objects have nodeset %s", line, w); }
        hwloc_bitmap_free(got); hv_stat("calc.nodeset_commands", 1); if (cpuless_parent) hv_stat("calc.nodeset_commands_with_cpuless_parent", 1);
        hv_distinct(1, hv_hash_u64(P * 1000 + A * 100 + made * 10 + (unsigned)restricted, hv_hash_str(terms[0], 3))); }
    }
    run_free(&r);
  }
  hwloc_bitmap_free(want); hwloc_topology_destroy(T); T = NULL;
}

static void calc_case(uint64_t index)
{
  if ((index / 10) % 8 == 5) { calc_nodeset_case(); return; }
  if (!load_input(index, 0)) { hv_stat("input_rejected", 1); return; }
  collect_levels();
  if (NL < 2) { hwloc_topology_destroy(T); return; }
  hwloc_bitmap_t set = hwloc_bitmap_alloc(), term = hwloc_bitmap_alloc();
  char *terms[12]; unsigned nterms = 1 + (unsigned)hv_below(&R, 5), nested = 0; unsigned made = 0;
  for (unsigned k = 0; k < nterms; k++) {
    struct hv_str tx; hv_str_init(&tx); hwloc_bitmap_zero(term);
    char op = k == 0 ? (hv_chance(&R, 1, 6) ? "~x^"[hv_below(&R, 3)] : 0) : "\0\0~x^"[hv_below(&R, 5)];
    if (op) hv_str_add(&tx, "%c", op);
    unsigned kind = (unsigned)hv_below(&R, 10);
    unsigned npci = hwloc_get_nbobjs_by_depth(T, HWLOC_TYPE_DEPTH_PCI_DEVICE), nosd = hwloc_get_nbobjs_by_depth(T, HWLOC_TYPE_DEPTH_OS_DEVICE);
    if (kind == 9 && (npci || nosd)) {
      /* I/O locations (hwloc(7)): pci=<busid>, os=<name>, pci:<index>, os:<index>, pci[<vendor>:]:<index>. The set of an I/O object is the
       * cpuset of its first non-I/O ancestor */
      unsigned w = (unsigned)hv_below(&R, 5); hwloc_obj_t io = NULL;
      if ((w == 0 || w == 2 || w == 4) && !npci) w = 1; if ((w == 1 || w == 3) && !nosd) w = 0;
      if (w == 0) { io = hwloc_get_obj_by_depth(T, HWLOC_TYPE_DEPTH_PCI_DEVICE, (unsigned)hv_below(&R, npci));
        /* a bus id designates a device only if it is unique (one bundled file has two devices with the same bus id; the first one is found) */
        for (unsigned q = 0; q < npci; q++) { hwloc_obj_t o2 = hwloc_get_obj_by_depth(T, HWLOC_TYPE_DEPTH_PCI_DEVICE, q); if (o2 != io && o2->attr->pcidev.domain == io->attr->pcidev.domain && o2->attr->pcidev.bus == io->attr->pcidev.bus && o2->attr->pcidev.dev == io->attr->pcidev.dev && o2->attr->pcidev.func == io->attr->pcidev.func) { io = NULL; break; } }
        if (!io) { hv_stat("calc.io_location_ambiguous_busid_skipped", 1); hv_str_free(&tx); continue; }
        if (io->attr->pcidev.domain || hv_chance(&R, 1, 2)) hv_str_add(&tx, "pci=%04x:%02x:%02x.%01x", io->attr->pcidev.domain, io->attr->pcidev.bus, io->attr->pcidev.dev, io->attr->pcidev.func);
        else hv_str_add(&tx, "pci=%02x:%02x.%01x", io->attr->pcidev.bus, io->attr->pcidev.dev, io->attr->pcidev.func); }
      else if (w == 1) { io = hwloc_get_obj_by_depth(T, HWLOC_TYPE_DEPTH_OS_DEVICE, (unsigned)hv_below(&R, nosd));
        int unique = io->name && io->name[0] && !strpbrk(io->name, " :=,[]~^"); for (unsigned q = 0; unique && q < nosd; q++) { hwloc_obj_t o2 = hwloc_get_obj_by_depth(T, HWLOC_TYPE_DEPTH_OS_DEVICE, q); if (o2 != io && o2->name && !strcmp(o2->name, io->name)) unique = 0; }
        if (unique) hv_str_add(&tx, "os=%s", io->name); else { unsigned li = io->logical_index; hv_str_add(&tx, "os:%u", li); } }
      else if (w == 2) { unsigned li = (unsigned)hv_below(&R, npci); io = hwloc_get_obj_by_depth(T, HWLOC_TYPE_DEPTH_PCI_DEVICE, li); hv_str_add(&tx, "pci:%u", li); }
      else if (w == 3) { unsigned li = (unsigned)hv_below(&R, nosd); io = hwloc_get_obj_by_depth(T, HWLOC_TYPE_DEPTH_OS_DEVICE, li); hv_str_add(&tx, "os:%u", li); }
      else { hwloc_obj_t any = hwloc_get_obj_by_depth(T, HWLOC_TYPE_DEPTH_PCI_DEVICE, (unsigned)hv_below(&R, npci)); unsigned vend = any->attr->pcidev.vendor_id, cnt = 0, pick;
        for (unsigned q = 0; q < npci; q++) if (hwloc_get_obj_by_depth(T, HWLOC_TYPE_DEPTH_PCI_DEVICE, q)->attr->pcidev.vendor_id == vend) cnt++;
        pick = (unsigned)hv_below(&R, cnt); cnt = 0;
        for (unsigned q = 0; q < npci; q++) { hwloc_obj_t o2 = hwloc_get_obj_by_depth(T, HWLOC_TYPE_DEPTH_PCI_DEVICE, q); if (o2->attr->pcidev.vendor_id == vend && cnt++ == pick) io = o2; }
        hv_str_add(&tx, "pci[%04x:]:%u", vend, pick); }
      hwloc_obj_t anc = hwloc_get_non_io_ancestor_obj(T, io);
      if (!anc || !anc->cpuset) { hv_str_free(&tx); continue; }
      hwloc_bitmap_copy(term, anc->cpuset); hv_stat("calc.io_location_terms", 1);
    }
    else if (kind < 7) { if (gen_chain((unsigned)hv_below(&R, NL), NULL, 2, &tx, term, &nested) < 0) { hv_str_free(&tx); continue; } }
    else if (kind == 7) { hv_str_add(&tx, "%s", hv_chance(&R, 1, 2) ? "all" : "root"); hwloc_bitmap_copy(term, hwloc_topology_get_topology_cpuset(T)); }
    else { int id; hwloc_bitmap_foreach_begin(id, hwloc_topology_get_topology_cpuset(T)) if (hv_chance(&R, 1, 3)) hwloc_bitmap_set(term, (unsigned)id); hwloc_bitmap_foreach_end(); char b[16384]; hwloc_bitmap_snprintf(b, sizeof b, term); hv_str_add(&tx, "%s", b); }
    if (op == '~') hwloc_bitmap_andnot(set, set, term); else if (op == 'x') hwloc_bitmap_and(set, set, term); else if (op == '^') hwloc_bitmap_xor(set, set, term); else hwloc_bitmap_or(set, set, term);
    terms[made++] = tx.s;      /* ownership of the buffer moves to terms[] */
  }
  if (!made) { hwloc_bitmap_free(set); hwloc_bitmap_free(term); hwloc_topology_destroy(T); return; }
  /* output mode */
  unsigned mode = (unsigned)hv_below(&R, 8);
  char *args[64]; int a = 0; char tbuf[64], tbuf2[64];
  args[a++] = "-i"; args[a++] = input_arg; args[a++] = "-q";
  int fmt = 0; struct lvl *l1 = &L[hv_below(&R, NL)], *l2 = NULL;
  if (mode == 0 || mode == 4) { fmt = (int)hv_below(&R, 3); if (fmt) { args[a++] = hv_chance(&R, 1, 2) ? "--cof" : "--cpuset-output-format"; args[a++] = fmt == 1 ? "list" : "taskset"; } }
  if (mode == 1 || mode == 6) { args[a++] = hv_chance(&R, 1, 2) ? "-I" : "--intersect"; args[a++] = l1->name; if (mode == 6) args[a++] = "--po"; }
  if (mode == 2) { args[a++] = hv_chance(&R, 1, 2) ? "-N" : "--number-of"; args[a++] = l1->name; }
  if (mode == 3) args[a++] = "--largest";
  if (mode == 4) args[a++] = "--single";
  if (mode == 5) { unsigned i1 = (unsigned)hv_below(&R, NL - 1), i2 = i1 + 1 + (unsigned)hv_below(&R, NL - i1 - 1); l1 = &L[i1]; l2 = &L[i2];
    /* hierarchical indexes only exist for objects that have an ancestor at the first level (asymmetric machines may lack e.g. an L3 in one package) */
    int covered = 1; for (hwloc_obj_t o = NULL; (o = hwloc_get_next_obj_by_depth(T, l2->depth, o)) != NULL; ) { hwloc_obj_t an = hwloc_get_ancestor_obj_by_depth(T, l1->depth, o); if (!an || an->depth != l1->depth) covered = 0; }
    if (covered) { snprintf(tbuf, sizeof tbuf, "%s.%s", l1->name, l2->name); args[a++] = "-H"; args[a++] = tbuf; } else { mode = 7; hv_stat("calc.hierarchical_skipped_asymmetric", 1); } }
  for (unsigned k = 0; k < made; k++) args[a++] = terms[k];
  args[a] = NULL;
  args_desc("hwloc-calc", args);
  char ss[16384]; hwloc_bitmap_snprintf(ss, sizeof ss, set); hv_desc("  expected set %s\n", ss);
  hv_ctxkey("calc:mode%u", mode);
  struct run r; run_tool("hwloc-calc", args, NULL, &r); chomp(&r.out);
  static const char *const MN[] = { "set", "intersect", "number_of", "largest", "single", "hierarchical", "intersect_physical", "set" };
  char key[96];
  if (!tool_died("hwloc-calc", &r)) {
    if (!r.exited || r.code != 0) { snprintf(key, sizeof key, "calc.%s.failed", MN[mode]); hv_viol(key, "hwloc-calc exited with %d on a valid command line: %.300s", r.code, r.err.s); }
    else if (mode == 0 || mode == 7 || mode == 4) {
      hwloc_bitmap_t e = hwloc_bitmap_dup(set); if (mode == 4) hwloc_bitmap_singlify(e);
      char want[16384]; fmt_set(e, fmt, want, sizeof want);
      if (strcmp(want, r.out.s)) { snprintf(key, sizeof key, "calc.%s.%s", MN[mode], fmt == 1 ? "list" : fmt == 2 ? "taskset" : "hwloc"); hv_viol(key, "hwloc-calc printed \"%.300s\", the library gives \"%s\"", r.out.s, want); }
      hwloc_bitmap_free(e);
    } else if (mode == 1 || mode == 2 || mode == 6) {
      struct hv_str want; hv_str_init(&want); unsigned cnt = 0;
      for (hwloc_obj_t o = NULL; (o = hwloc_get_next_obj_by_depth(T, l1->depth, o)) != NULL; ) if (hwloc_bitmap_intersects(o->cpuset, set)) { if (mode == 6) hv_str_add(&want, "%s%d", cnt ? "," : "", (int)o->os_index); else hv_str_add(&want, "%s%u", cnt ? "," : "", o->logical_index); cnt++; }
      if (mode == 2) { char w[32]; snprintf(w, sizeof w, "%u", cnt); if (strcmp(w, r.out.s)) hv_viol("calc.number_of", "hwloc-calc -N %s printed \"%.100s\", %u objects of that level intersect the set", l1->name, r.out.s, cnt); }
      else if (strcmp(want.s, r.out.s)) { snprintf(key, sizeof key, "calc.%s", MN[mode]); hv_viol(key, "hwloc-calc -I %s printed \"%.300s\", the library gives \"%.300s\"", l1->name, r.out.s, want.s); }
      /* -N equals the number of objects -I lists */
      if (!hv_viol_count() && mode == 1) { char *a2[64]; int b = 0; for (int i = 0; i < a; i++) a2[b++] = (!strcmp(args[i], "-I") || !strcmp(args[i], "--intersect")) ? "-N" : args[i]; a2[b] = NULL; struct run r2; run_tool("hwloc-calc", a2, NULL, &r2); chomp(&r2.out);
        if (!tool_died("hwloc-calc", &r2)) { unsigned listed = 0; if (r.out.len) { listed = 1; for (char *p = r.out.s; *p; p++) if (*p == ',') listed++; } if (atoi(r2.out.s) != (int)listed) hv_viol("calc.number_vs_intersect", "-N %s printed %.40s, -I %s listed %u objects", l1->name, r2.out.s, l1->name, listed); hv_stat("calc.n_vs_i_compared", 1); } run_free(&r2); }
      hv_str_free(&want);
    } else if ((mode == 3 || mode == 5) && r.out.len) {
      /* feed the printed objects back */
      hwloc_bitmap_t e = hwloc_bitmap_dup(set);
      if (mode == 5) { hwloc_bitmap_zero(e); for (hwloc_obj_t o = NULL; (o = hwloc_get_next_obj_by_depth(T, l2->depth, o)) != NULL; ) if (hwloc_bitmap_intersects(o->cpuset, set)) hwloc_bitmap_or(e, e, o->cpuset); }
      char *copy = strdup(r.out.s); static char *a2[2100]; int b = 0; a2[b++] = "-i"; a2[b++] = input_arg; a2[b++] = "-q";
      for (char *tok = strtok(copy, " "); tok && b < 2090; tok = strtok(NULL, " ")) a2[b++] = tok;
      a2[b] = NULL;
      if (b < 2090) { struct run r2; run_tool("hwloc-calc", a2, NULL, &r2); chomp(&r2.out);
        char want[16384]; hwloc_bitmap_snprintf(want, sizeof want, e);
        if (!tool_died("hwloc-calc", &r2) && strcmp(want, r2.out.s)) { snprintf(key, sizeof key, "calc.%s.feedback", MN[mode]); hv_viol(key, "%s printed \"%.300s\"; feeding it back gives %.100s, expected %s", mode == 3 ? "--largest" : "-H", r.out.s, r2.out.s, want); }
        run_free(&r2); hv_stat(mode == 3 ? "calc.largest_fed_back" : "calc.hierarchical_fed_back", 1); }
      free(copy); hwloc_bitmap_free(e); (void)tbuf2;
    }
    hv_stat("calc.commands", 1);
    if (made >= 2 || nested) { hv_stat("calc.nontrivial", 1); hv_distinct(1, hv_hash_u64(mode * 64 + made * 8 + nested, tv_shape_hash(T))); }
  }
  run_free(&r);
  for (unsigned k = 0; k < made; k++) free(terms[k]);
  hwloc_bitmap_free(set); hwloc_bitmap_free(term); hwloc_topology_destroy(T);
}

/* ------------------------------------------------------------------ malformed command lines */
static void malformed_case(uint64_t index)
{
  if (!load_input(index, 0)) return;
  hwloc_topology_destroy(T);
  static const char *const bad_loc[] = { "foo:1", "core:", ":3", "core:1.", "core:x", "core:1-x", "pu:0:", "numa[hbm", "core:1..pu:0", "0xzz", "0x1,,,g", "pack:0.core", "~", "x", "^", "core:-1", "core:1-0x", "os=", "pci=zz:zz.z", "l9cache:0", "core:1:0x", "--", "-", "core::1", "pu:all.all" };
  static const char *const bad_opt[] = { "--no-such-option", "-Z", "--cof=bogus", "--largest=1", "---", "--single-" };
  unsigned tool = (unsigned)hv_below(&R, 4);
  char *args[40]; int a = 0; char longtok[5000];
  const char *tn = tool == 0 ? "hwloc-calc" : tool == 1 ? "hwloc-distrib" : tool == 2 ? "lstopo-no-graphics" : "hwloc-diff";
  int certainly_bad = 0;
  if (tool == 0) {
    args[a++] = "-i"; args[a++] = input_arg; args[a++] = "-q";
    unsigned k = (unsigned)hv_below(&R, 6);
    static const char *const bad_nested[] = { "machine:0.pu:foo", "machine:0.pu:1-x", "machine:0.pu:", "machine:0.pu:0.", "machine:all.pu:0x", "machine:0.nosuchtype:0", "machine:0.pu:0:" };
    static const char *const type_opt[] = { "-N", "-I", "-H", "--number-of", "--intersect", "--hierarchical" };
    if (k == 4) { args[a++] = (char *)bad_nested[hv_below(&R, sizeof bad_nested / sizeof *bad_nested)]; certainly_bad = 1; }     /* the garbage is in the sub-location of a valid location */
    else if (k == 5) { unsigned w = (unsigned)hv_below(&R, 6); args[a++] = (char *)type_opt[w]; args[a++] = (w == 2 || w == 5) && hv_chance(&R, 1, 2) ? "core.nosuchtype" : "nosuchtype"; args[a++] = "all"; certainly_bad = 1; }   /* an option naming a type that does not exist */
    else if (k == 0) { args[a++] = (char *)bad_loc[hv_below(&R, sizeof bad_loc / sizeof *bad_loc)]; certainly_bad = 1; }
    else if (k == 1) { args[a++] = (char *)bad_opt[hv_below(&R, sizeof bad_opt / sizeof *bad_opt)]; args[a++] = "pu:0"; certainly_bad = 1; }
    else if (k == 2) { memset(longtok, 'c', 4500); longtok[4500] = 0; memcpy(longtok, "core:", 5); args[a++] = longtok; certainly_bad = 1; }
    else if (hv_chance(&R, 1, 2)) { static char far[64]; snprintf(far, sizeof far, "%s:%u-", hv_chance(&R, 1, 2) ? "pu" : "core", 300 + (unsigned)hv_below(&R, 5000)); args[a++] = far; certainly_bad = 0; }   /* an index beyond the level: must terminate */
    else { args[a++] = "pu:0"; args[a++] = (char *)bad_loc[hv_below(&R, sizeof bad_loc / sizeof *bad_loc)]; certainly_bad = 1; }
  } else if (tool == 1) {
    args[a++] = "-i"; args[a++] = input_arg; unsigned k = (unsigned)hv_below(&R, 4);
    if (k == 0) { args[a++] = "abc"; certainly_bad = 1; } else if (k == 1) { args[a++] = "--from"; args[a++] = "nosuchtype"; args[a++] = "2"; certainly_bad = 1; } else if (k == 2) { args[a++] = "--no-such"; args[a++] = "2"; certainly_bad = 1; } else { args[a++] = "-3"; certainly_bad = 1; }
  } else if (tool == 2) {
    unsigned k = (unsigned)hv_below(&R, 4);
    if (k == 0) { args[a++] = "-i"; args[a++] = "pack:2 core:x"; args[a++] = "--of"; args[a++] = "console"; certainly_bad = 1; }
    else if (k == 1) { args[a++] = "-i"; args[a++] = input_arg; args[a++] = "--of"; args[a++] = "nosuchformat"; args[a++] = "-"; certainly_bad = 1; }
    else if (k == 2) { args[a++] = "-i"; args[a++] = input_arg; args[a++] = "--filter"; args[a++] = "nosuchtype:all"; args[a++] = "--of"; args[a++] = "console"; certainly_bad = 1; }
    else { args[a++] = "-i"; args[a++] = "/nonexistent/file.xml"; args[a++] = "--of"; args[a++] = "console"; certainly_bad = 1; }
  } else { args[a++] = "/nonexistent/a.xml"; args[a++] = "/nonexistent/b.xml"; certainly_bad = 1; }
  args[a] = NULL;
  args_desc(tn, args);
  hv_ctxkey("malformed:%s", tn);
  struct run r; run_tool(tn, args, "", &r);
  if (!tool_died(tn, &r) && certainly_bad && r.exited && r.code == 0) { char key[96]; snprintf(key, sizeof key, "malformed.%s.exit_zero", tn); hv_viol(key, "%s exited with status 0 on a malformed command line (last argument '%s'); stdout \"%.100s\" stderr \"%.200s\"", tn, args[a - 1], r.out.s, r.err.s); }
  hv_stat("malformed.commands", 1);
  run_free(&r);
}

/* ------------------------------------------------------------------ lstopo exports */
/* removes memory= / size= attributes (keeps indexes=) */
static void strip_attrs(const char *in, char *out)
{
  char *start = out;
  while (*in) {
    if (!strncmp(in, "memory=", 7) || !strncmp(in, "size=", 5) || !strncmp(in, "memorysidecachesize=", 20)) { while (*in && *in != ' ' && *in != ')') in++; if (*in == ' ') in++; continue; }
    *out++ = *in++;
  }
  *out = 0;
  char *p;
  while ((p = strstr(start, " )")) != NULL) memmove(p, p + 1, strlen(p + 1) + 1);     /* "(indexes=.. )" after a removed trailing attribute */
  while ((p = strstr(start, "()")) != NULL) memmove(p, p + 2, strlen(p + 2) + 1);     /* a removed single attribute */
}
static char tmpdir[3000];
static char *slurp(const char *path, size_t *len) { return tl_read_file(path, len); }
static void lstopo_case(uint64_t index)
{
  if (!load_input(index, 0)) return;
  char x1[3100], s1[3100]; snprintf(x1, sizeof x1, "%s/l.xml", tmpdir); snprintf(s1, sizeof s1, "%s/l.synth", tmpdir);
  int withio = hv_chance(&R, 1, 2);
  char *args[24]; int a = 0; args[a++] = "-i"; args[a++] = input_arg; if (withio) { args[a++] = "--filter"; args[a++] = "io:all"; } args[a++] = "--of"; args[a++] = "xml"; args[a++] = "-f"; args[a++] = x1; args[a] = NULL;
  args_desc("lstopo-no-graphics", args);
  hv_ctxkey("lstopo:xml");
  struct run r; run_tool("lstopo-no-graphics", args, NULL, &r);
  if (!tool_died("lstopo-no-graphics", &r)) {
    if (!r.exited || r.code) hv_viol("lstopo.xml_failed", "lstopo --of xml exited with %d: %.300s", r.code, r.err.s);
    else {
      /* the XML lstopo wrote is a fixpoint of the library: reload (keeping everything), re-export, compare bytes */
      hwloc_topology_t t2; hwloc_topology_init(&t2); hwloc_topology_set_all_types_filter(t2, HWLOC_TYPE_FILTER_KEEP_ALL); hwloc_topology_set_flags(t2, HWLOC_TOPOLOGY_FLAG_IMPORT_SUPPORT | HWLOC_TOPOLOGY_FLAG_INCLUDE_DISALLOWED);
      if (hwloc_topology_set_xml(t2, x1) != 0 || hwloc_topology_load(t2) != 0) { hv_viol("lstopo.xml_not_reloadable", "the XML written by lstopo cannot be loaded"); hwloc_topology_destroy(t2); }
      else {
        size_t l1 = 0; char *b1 = slurp(x1, &l1); char *b2 = NULL; int l2 = 0;
        if (b1 && strstr(b1, "<userdata")) hv_stat("lstopo.xml_with_userdata_not_byte_compared", 1);   /* lstopo carries the userdata of its input through its own callbacks */
        else if (hwloc_topology_export_xmlbuffer(t2, &b2, &l2, 0) == 0 && b1) {
          if ((size_t)l2 - 1 != l1 || memcmp(b1, b2, l1)) { size_t k = 0; while (k < l1 && k < (size_t)l2 && b1[k] == b2[k]) k++; size_t from = k > 80 ? k - 80 : 0; hv_viol("lstopo.xml_not_library_export", "lstopo's XML differs from the library export of the same topology at byte %zu: <%.160s> vs <%.160s>", k, b1 + from, b2 + from); }
          hwloc_free_xmlbuffer(t2, b2); hv_stat("lstopo.xml_compared", 1);
        }
        free(b1);
        /* equivalent to the input loaded with the configuration lstopo documents (everything kept, I/O important unless --filter io:all) */
        if (!hv_viol_count()) {
          hwloc_topology_t ti; hwloc_topology_init(&ti); hwloc_topology_set_all_types_filter(ti, HWLOC_TYPE_FILTER_KEEP_ALL); if (!withio) hwloc_topology_set_io_types_filter(ti, HWLOC_TYPE_FILTER_KEEP_IMPORTANT); hwloc_topology_set_flags(ti, HWLOC_TOPOLOGY_FLAG_IMPORT_SUPPORT);
          int ok = strchr(input_arg, '/') ? hwloc_topology_set_xml(ti, input_arg) == 0 : hwloc_topology_set_synthetic(ti, input_arg) == 0;
          if (ok && hwloc_topology_load(ti) == 0) { struct hv_str p, q; hv_str_init(&p); hv_str_init(&q); unsigned w = (CANON_ALL | CANON_DIST_SORTED) & ~(unsigned)(CANON_USERDATA | CANON_CONFIG | CANON_TOPOINFOS);
            canon_dump(ti, w, &p); canon_dump(t2, w, &q); const char *d = canon_diff(&p, &q); if (d) hv_viol("lstopo.xml_not_equivalent", "the topology reloaded from lstopo's XML differs from the input loaded by the library: %s", d); hv_str_free(&p); hv_str_free(&q); hv_stat("lstopo.equivalence_compared", 1); }
          hwloc_topology_destroy(ti);
        }
        /* synthetic output == library synthetic export of that same topology */
        if (!hv_viol_count()) {
          char *as[24]; int b = 0; as[b++] = "-i"; as[b++] = x1; as[b++] = "--filter"; as[b++] = "io:all"; as[b++] = "--of"; as[b++] = "synthetic"; as[b++] = "-f"; as[b++] = s1; as[b] = NULL;
          args_desc("lstopo-no-graphics", as); hv_ctxkey("lstopo:synthetic");
          struct run r2; run_tool("lstopo-no-graphics", as, NULL, &r2);
          char want[8192]; int wn = hwloc_topology_export_synthetic(t2, want, sizeof want, 0);
          if (!tool_died("lstopo-no-graphics", &r2)) {
            if (wn < 0) { if (r2.exited && r2.code == 0) hv_viol("lstopo.synthetic_unexpected_success", "lstopo exported a synthetic description the library refuses to export"); hv_stat("lstopo.synthetic_not_exportable", 1); }
            else if (!r2.exited || r2.code) hv_viol("lstopo.synthetic_failed", "lstopo --of synthetic exited with %d although the library exports \"%s\": %.200s", r2.code, want, r2.err.s);
            else { size_t sl = 0; char *sb = slurp(s1, &sl); if (sb) { while (sl && (sb[sl - 1] == '\n')) sb[--sl] = 0; if (strcmp(sb, want)) hv_viol("lstopo.synthetic_not_library_export", "lstopo printed \"%.300s\", the library exports \"%.300s\"", sb, want);
                /* and it reloads to a topology with the same synthetic export */
                else { hwloc_topology_t t3; hwloc_topology_init(&t3); hwloc_topology_set_all_types_filter(t3, HWLOC_TYPE_FILTER_KEEP_ALL); if (hwloc_topology_set_synthetic(t3, sb) == 0 && hwloc_topology_load(t3) == 0) { char again[8192]; if (hwloc_topology_export_synthetic(t3, again, sizeof again, 0) < 0 || strcmp(again, want)) { char s1x[8192], s2x[8192]; strip_attrs(want, s1x); strip_attrs(again, s2x); hv_viol(!strcmp(s1x, s2x) ? "lstopo.synthetic_not_fixpoint.zero_attribute_defaulted" : "lstopo.synthetic_not_fixpoint", "reloading \"%.200s\" exports \"%.200s\"", sb, again); } } else hv_stat("lstopo.synthetic_reload_rejected", 1); hwloc_topology_destroy(t3); }
                free(sb); hv_stat("lstopo.synthetic_compared", 1); } }
          }
          run_free(&r2);
        }
        hv_distinct(2, hv_hash_u64((uint64_t)withio, tv_shape_hash(t2)));
        hwloc_topology_destroy(t2);
      }
    }
  }
  run_free(&r); unlink(x1); unlink(s1);
  hwloc_topology_destroy(T);
}

/* ------------------------------------------------------------------ hwloc-diff + hwloc-patch */
static void diffpatch_case(uint64_t index)
{
  if (!load_input(index, 1)) return;
  char pa[3100], pb[3100], pd[3100], po[3100]; snprintf(pa, sizeof pa, "%s/A.xml", tmpdir); snprintf(pb, sizeof pb, "%s/B.xml", tmpdir); snprintf(pd, sizeof pd, "%s/D.xml", tmpdir); snprintf(po, sizeof po, "%s/O.xml", tmpdir);
  /* hwloc-diff loads with INCLUDE_DISALLOWED: build A the same way */
  hwloc_topology_destroy(T); hwloc_topology_init(&T); hwloc_topology_set_all_types_filter(T, HWLOC_TYPE_FILTER_KEEP_ALL); hwloc_topology_set_flags(T, HWLOC_TOPOLOGY_FLAG_IMPORT_SUPPORT | HWLOC_TOPOLOGY_FLAG_INCLUDE_DISALLOWED);
  if (hwloc_topology_set_xml(T, input_arg) != 0 || hwloc_topology_load(T) != 0) { hwloc_topology_destroy(T); return; }
  hwloc_topology_t B = NULL; if (hwloc_topology_dup(&B, T) != 0) { hwloc_topology_destroy(T); return; }
  unsigned edits = 0;
  { struct tv_view vw; tv_view_build(B, &vw, 0); unsigned ne = 1 + (unsigned)hv_below(&R, 4);
    for (unsigned k = 0; k < ne * 6 && edits < ne; k++) { hwloc_obj_t o = vw.v[hv_below(&R, vw.n)].o; unsigned kind = (unsigned)hv_below(&R, 3);
      if (kind == 0 && o->name) { char nn[40]; snprintf(nn, sizeof nn, "renamed%u", (unsigned)hv_below(&R, 1000)); if (strcmp(nn, o->name)) { free(o->name); o->name = strdup(nn); edits++; } }
      else if (kind == 1 && o->infos.count) { unsigned i = (unsigned)hv_below(&R, o->infos.count); int amb = 0; for (unsigned j = 0; j < o->infos.count; j++) if (j != i && !strcmp(o->infos.array[j].name, o->infos.array[i].name)) amb = 1; if (amb) continue; char nv[40]; snprintf(nv, sizeof nv, "val%u", (unsigned)hv_below(&R, 1000)); if (strcmp(nv, o->infos.array[i].value)) { free(o->infos.array[i].value); o->infos.array[i].value = strdup(nv); edits++; } }
      else if (kind == 2 && o->type == HWLOC_OBJ_NUMANODE) { uint64_t old = o->attr->numanode.local_memory, nv = old + 4096 * (1 + hv_below(&R, 100)); o->attr->numanode.local_memory = nv; for (hwloc_obj_t p = o; p; p = p->parent) p->total_memory += nv - old; edits++; } }
    tv_view_free(&vw); }
  if (hwloc_topology_export_xml(T, pa, 0) != 0 || hwloc_topology_export_xml(B, pb, 0) != 0) hv_fail("cannot write %s", pa);
  char *ad[8] = { pa, pb, pd, NULL }; args_desc("hwloc-diff", ad); hv_ctxkey("diff");
  struct run r; run_tool("hwloc-diff", ad, NULL, &r);
  if (!tool_died("hwloc-diff", &r)) {
    if (!r.exited || r.code) hv_viol("diff.failed", "hwloc-diff exited with %d for %u representable edits: %.300s", r.code, edits, r.err.s);
    else { char *ap[8] = { pa, pd, po, NULL }; args_desc("hwloc-patch", ap); hv_ctxkey("patch"); struct run r2; run_tool("hwloc-patch", ap, NULL, &r2);
      if (!tool_died("hwloc-patch", &r2)) { if (!r2.exited || r2.code) hv_viol("patch.failed", "hwloc-patch exited with %d: %.300s", r2.code, r2.err.s);
        else { size_t l1, l2; char *b1 = slurp(pb, &l1), *b2 = slurp(po, &l2); if (!b1 || !b2 || l1 != l2 || memcmp(b1, b2, l1)) { size_t k = 0; while (b1 && b2 && k < l1 && k < l2 && b1[k] == b2[k]) k++; size_t from = k > 80 ? k - 80 : 0; hv_viol("patch.result_differs", "hwloc-diff A B + hwloc-patch A does not reproduce B (%u edits): first difference at byte %zu <%.160s> vs <%.160s>", edits, k, b1 ? b1 + from : "", b2 ? b2 + from : ""); } free(b1); free(b2); hv_stat("diffpatch.compared", 1); hv_distinct(3, hv_hash_u64(edits, tv_shape_hash(T))); } }
      run_free(&r2); }
  }
  run_free(&r); unlink(pa); unlink(pb); unlink(pd); unlink(po);
  hwloc_topology_destroy(B); hwloc_topology_destroy(T);
}

/* ------------------------------------------------------------------ hwloc-distrib */
static void distrib_case(uint64_t index)
{
  if (!load_input(index, 0)) return;
  unsigned npu = (unsigned)hwloc_get_nbobjs_by_type(T, HWLOC_OBJ_PU); unsigned n = 1 + (unsigned)hv_below(&R, npu * 2 > 40 ? 40 : npu * 2);
  int single = hv_chance(&R, 1, 3), fmt = (int)hv_below(&R, 3);
  char nb[16]; snprintf(nb, sizeof nb, "%u", n);
  char *args[16]; int a = 0; args[a++] = "-i"; args[a++] = input_arg; if (single) args[a++] = "--single"; if (fmt) { args[a++] = "--cof"; args[a++] = fmt == 1 ? "list" : "taskset"; } args[a++] = nb; args[a] = NULL;
  args_desc("hwloc-distrib", args); hv_ctxkey("distrib");
  struct run r; run_tool("hwloc-distrib", args, NULL, &r);
  if (!tool_died("hwloc-distrib", &r)) {
    if (!r.exited || r.code) hv_viol("distrib.failed", "hwloc-distrib %u exited with %d: %.300s", n, r.code, r.err.s);
    else { hwloc_bitmap_t un = hwloc_bitmap_alloc(), s = hwloc_bitmap_alloc(); unsigned lines = 0; int disjoint = 1; hwloc_const_bitmap_t root = hwloc_topology_get_topology_cpuset(T);
      char *copy = strdup(r.out.s);
      for (char *ln = strtok(copy, "\n"); ln; ln = strtok(NULL, "\n")) { int prc = fmt == 1 ? hwloc_bitmap_list_sscanf(s, ln) : fmt == 2 ? hwloc_bitmap_taskset_sscanf(s, ln) : hwloc_bitmap_sscanf(s, ln);
        if (prc != 0) { hv_viol("distrib.unparsable", "line %u \"%.100s\" is not a bitmap in the requested format", lines, ln); break; }
        lines++;
        if (hwloc_bitmap_iszero(s)) hv_viol("distrib.empty_set", "set %u of %u is empty", lines, n);
        else if (!hwloc_bitmap_isincluded(s, root)) hv_viol("distrib.outside_root", "set %u \"%.100s\" is not inside the topology cpuset", lines, ln);
        if (single && hwloc_bitmap_weight(s) != 1) hv_viol("distrib.single", "--single printed a set with %d bits", hwloc_bitmap_weight(s));
        if (hwloc_bitmap_intersects(un, s)) disjoint = 0;
        hwloc_bitmap_or(un, un, s); }
      free(copy);
      if (!hv_viol_count()) { if (lines != n) hv_viol("distrib.count", "hwloc-distrib %u printed %u sets", n, lines);
        else if (!single && !hwloc_bitmap_isequal(un, root)) { char a1[300], a2[300]; hwloc_bitmap_list_snprintf(a1, sizeof a1, un); hwloc_bitmap_list_snprintf(a2, sizeof a2, root); hv_viol("distrib.union", "the %u sets cover {%s}, the topology is {%s}", n, a1, a2); }
        else if (n <= npu && !disjoint) hv_viol("distrib.disjoint", "n=%u <= %u PUs but the sets overlap", n, npu); }
      hwloc_bitmap_free(un); hwloc_bitmap_free(s); hv_stat("distrib.commands", 1); hv_distinct(4, hv_hash_u64(n * 8 + (unsigned)single * 4 + (unsigned)fmt, tv_shape_hash(T))); }
  }
  run_free(&r); hwloc_topology_destroy(T);
}

/* hwloc-distrib with --restrict / --from / --to / --at / --reverse: the expected output is computed on the library side by applying the
 * options in the documented order (restrict the topology first, then look the types up in what is left, then hwloc_distrib()) */
static void distrib_opts_case(uint64_t index)
{
  if (!load_input(index, 0)) return;
  /* hwloc-distrib loads its input with the default type filters (instruction caches, I/O and Misc are not kept): the structure the
   * distribution follows is the one of a topology loaded the same way */
  { hwloc_topology_destroy(T); T = NULL; hwloc_topology_init(&T);
    int rc = input_arg[0] == '/' ? hwloc_topology_set_xml(T, input_arg) : hwloc_topology_set_synthetic(T, input_arg);
    if (rc != 0 || hwloc_topology_load(T) != 0) { hwloc_topology_destroy(T); T = NULL; return; } }
  hwloc_topology_t T2 = NULL; if (hwloc_topology_dup(&T2, T) != 0) { hwloc_topology_destroy(T); return; }
  char rs[400] = ""; int restricted = 0;
  if (hv_chance(&R, 2, 3)) {
    /* keep the PUs below one or two objects of a random normal level, or a random half of the PUs */
    hwloc_bitmap_t keep = hwloc_bitmap_alloc(); int depth = hwloc_topology_get_depth(T);
    if (hv_chance(&R, 2, 3)) { int d = 1 + (int)hv_below(&R, (uint64_t)(depth > 1 ? depth - 1 : 1)); unsigned nb = hwloc_get_nbobjs_by_depth(T, d); for (unsigned q = 0; q < 1 + hv_below(&R, 2); q++) hwloc_bitmap_or(keep, keep, hwloc_get_obj_by_depth(T, d, (unsigned)hv_below(&R, nb))->cpuset); }
    else { int id; hwloc_bitmap_foreach_begin(id, hwloc_topology_get_topology_cpuset(T)) if (hv_chance(&R, 1, 2)) hwloc_bitmap_set(keep, (unsigned)id); hwloc_bitmap_foreach_end(); }
    if (!hwloc_bitmap_iszero(keep) && hwloc_bitmap_intersects(keep, hwloc_topology_get_allowed_cpuset(T)) && hwloc_topology_restrict(T2, keep, 0) == 0) { hwloc_bitmap_snprintf(rs, sizeof rs, keep); restricted = 1; }
    hwloc_bitmap_free(keep);
  }
  /* types are looked up in the restricted topology; only types with a single level there are named */
  int depth2 = hwloc_topology_get_depth(T2); int from_d = 0, to_d = INT_MAX; const char *from_n = NULL, *to_n = NULL; int at = 0;
  unsigned mode = (unsigned)hv_below(&R, 5);   /* 0 none, 1 from, 2 to, 3 from+to, 4 at */
  int cand[64], nc = 0;
  for (int d = 1; d < depth2 && nc < 64; d++) { hwloc_obj_type_t ty = hwloc_get_depth_type(T2, d); if (ty != HWLOC_OBJ_GROUP && hwloc_get_type_depth(T2, ty) == d) cand[nc++] = d; }
  if (!nc) mode = 0;
  if (mode == 1 || mode == 3) { from_d = cand[hv_below(&R, (uint64_t)nc)]; from_n = hwloc_obj_type_string(hwloc_get_depth_type(T2, from_d)); }
  if (mode == 2 || mode == 3) { to_d = cand[hv_below(&R, (uint64_t)nc)]; if (mode == 3 && to_d < from_d) { int x = to_d; to_d = from_d; from_d = x; from_n = hwloc_obj_type_string(hwloc_get_depth_type(T2, from_d)); } to_n = hwloc_obj_type_string(hwloc_get_depth_type(T2, to_d)); }
  if (mode == 4) { at = 1; from_d = to_d = cand[hv_below(&R, (uint64_t)nc)]; from_n = hwloc_obj_type_string(hwloc_get_depth_type(T2, from_d)); }
  int reverse = hv_chance(&R, 1, 4), single = hv_chance(&R, 1, 4);
  unsigned npu = (unsigned)hwloc_get_nbobjs_by_type(T2, HWLOC_OBJ_PU); unsigned n = 1 + (unsigned)hv_below(&R, npu * 2 > 32 ? 32 : npu * 2);
  char nb[16]; snprintf(nb, sizeof nb, "%u", n);
  char *args[24]; int a = 0; args[a++] = "-i"; args[a++] = input_arg;
  /* option order on the command line is free: the restriction is written before or after the type options */
  int restrict_first = hv_chance(&R, 1, 2);
  if (restricted && restrict_first) { args[a++] = "--restrict"; args[a++] = rs; }
  if (at) { args[a++] = "--at"; args[a++] = (char *)from_n; } else { if (from_n) { args[a++] = "--from"; args[a++] = (char *)from_n; } if (to_n) { args[a++] = "--to"; args[a++] = (char *)to_n; } }
  if (restricted && !restrict_first) { args[a++] = "--restrict"; args[a++] = rs; }
  if (reverse) args[a++] = "--reverse"; if (single) args[a++] = "--single";
  args[a++] = nb; args[a] = NULL;
  args_desc("hwloc-distrib", args); hv_ctxkey("distrib_opts");
  /* library-side evaluation */
  unsigned nroots = hwloc_get_nbobjs_by_depth(T2, from_d); hwloc_obj_t *roots = calloc(nroots ? nroots : 1, sizeof *roots); for (unsigned i = 0; i < nroots; i++) roots[i] = hwloc_get_obj_by_depth(T2, from_d, i);
  hwloc_bitmap_t *want = calloc(n, sizeof *want);
  int drc = hwloc_distrib(T2, roots, nroots, want, n, to_d, reverse ? HWLOC_DISTRIB_FLAG_REVERSE : 0);
  struct run r; run_tool("hwloc-distrib", args, NULL, &r);
  if (!tool_died("hwloc-distrib", &r) && drc == 0) {
    if (!r.exited || r.code) hv_viol("distrib_opts.failed", "hwloc-distrib exited with %d: %.300s", r.code, r.err.s);
    else { hwloc_bitmap_t s = hwloc_bitmap_alloc(); unsigned lines = 0; char *copy = strdup(r.out.s);
      for (char *ln = strtok(copy, "\n"); ln && !hv_viol_count(); ln = strtok(NULL, "\n")) {
        if (hwloc_bitmap_sscanf(s, ln) != 0) { hv_viol("distrib_opts.unparsable", "line %u \"%.100s\" is not a bitmap", lines, ln); break; }
        if (lines < n) { hwloc_bitmap_t w = hwloc_bitmap_dup(want[lines]);
          if (single) { if (reverse) { int last = hwloc_bitmap_last(w); hwloc_bitmap_only(w, (unsigned)last); } else hwloc_bitmap_singlify(w); }
          if (!hwloc_bitmap_isequal(s, w)) { char a1[300], a2[300]; hwloc_bitmap_list_snprintf(a1, sizeof a1, s); hwloc_bitmap_list_snprintf(a2, sizeof a2, w);
            hv_viol(restricted && (from_n || to_n) ? "distrib_opts.set.restrict_and_type" : restricted ? "distrib_opts.set.restrict" : "distrib_opts.set", "set %u is {%s}; restricting first, then looking the types up and calling hwloc_distrib() gives {%s}", lines, a1, a2); }
          hwloc_bitmap_free(w); }
        lines++; }
      free(copy);
      if (!hv_viol_count() && lines != n) hv_viol("distrib_opts.count", "hwloc-distrib %u printed %u sets", n, lines);
      hwloc_bitmap_free(s); hv_stat("distrib_opts.commands", 1); if (restricted && (from_n || to_n)) hv_stat("distrib_opts.restrict_with_type_options", 1);
      hv_distinct(4, hv_hash_u64(n * 64 + mode * 8 + (unsigned)restricted * 4 + (unsigned)reverse * 2 + (unsigned)single, tv_shape_hash(T2))); }
  }
  for (unsigned i = 0; i < n; i++) if (want[i]) hwloc_bitmap_free(want[i]);
  free(want); free(roots);
  run_free(&r); hwloc_topology_destroy(T2); hwloc_topology_destroy(T);
}

void hv_case(uint64_t index)
{
  hv_rng_seed(&R, HV.seed, "c20", index);
  snprintf(tmpdir, sizeof tmpdir, "%s/c20-%d", HV.outdir ? HV.outdir : ".", (int)getpid()); mkdir(tmpdir, 0755);
  unsigned k = (unsigned)(index % 10);
  if (k < 5) calc_case(index); else if (k == 5) malformed_case(index); else if (k == 6 || k == 7) lstopo_case(index); else if (k == 8) diffpatch_case(index); else if ((index / 10) % 2) distrib_opts_case(index); else distrib_case(index);
  if (index < 10) hv_sample("%s", hv_desc_get());
  rmdir(tmpdir);
  hv_ctxkey("%s", "");
  hv_leak_check();
}
