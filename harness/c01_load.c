/* C01: every successfully loaded topology is well formed.
 * Sources: generated synthetic, corpus XML (file and buffer), bundled Linux / x86 snapshots, live machine;
 * each with a configuration (type filters + flags). Oracles: WF (independent) + built-in checker. */
#include "hv.h"
#include "topo.h"
#include "snap.h"

const char *hv_property = "C01";
unsigned hv_batch = 8;
unsigned hv_cpu_limit_s = 120;

static struct hv_rng R;
static struct snap *snaps; static unsigned nsnaps;
static const char **corpus; static unsigned ncorpus;

void hv_setup(void)
{
  nsnaps = snap_list(&snaps);
  ncorpus = tl_corpus(&corpus);
  if (!ncorpus) hv_fail("no XML corpus found");
}

static void illegal_config_probe(void)
{
  hwloc_topology_t t;
  hwloc_topology_init(&t);
  unsigned long bad[] = { HWLOC_TOPOLOGY_FLAG_RESTRICT_TO_CPUBINDING, HWLOC_TOPOLOGY_FLAG_RESTRICT_TO_MEMBINDING, 1UL << 10, 1UL << 31, ~0UL,
                          HWLOC_TOPOLOGY_FLAG_RESTRICT_TO_MEMBINDING | HWLOC_TOPOLOGY_FLAG_INCLUDE_DISALLOWED };
  unsigned long f = bad[hv_below(&R, sizeof bad / sizeof *bad)];
  errno = 0;
  if (hwloc_topology_set_flags(t, f) != -1 || errno != EINVAL) hv_viol("config.illegal_flags_accepted", "set_flags(%#lx) did not fail with EINVAL (errno %d)", f, errno);
  if (hwloc_topology_get_flags(t) != 0) hv_viol("config.illegal_flags_stored", "flags changed by a rejected set_flags(%#lx)", f);
  static const struct { hwloc_obj_type_t ty; enum hwloc_type_filter_e f; } bf[] = {
    { HWLOC_OBJ_PU, HWLOC_TYPE_FILTER_KEEP_NONE }, { HWLOC_OBJ_NUMANODE, HWLOC_TYPE_FILTER_KEEP_STRUCTURE }, { HWLOC_OBJ_MACHINE, HWLOC_TYPE_FILTER_KEEP_NONE },
    { HWLOC_OBJ_GROUP, HWLOC_TYPE_FILTER_KEEP_ALL }, { HWLOC_OBJ_GROUP, HWLOC_TYPE_FILTER_KEEP_IMPORTANT }, { HWLOC_OBJ_MISC, HWLOC_TYPE_FILTER_KEEP_STRUCTURE }, { HWLOC_OBJ_PCI_DEVICE, HWLOC_TYPE_FILTER_KEEP_STRUCTURE },
    { HWLOC_OBJ_OS_DEVICE, HWLOC_TYPE_FILTER_KEEP_STRUCTURE }, { (hwloc_obj_type_t)HWLOC_OBJ_TYPE_MAX, HWLOC_TYPE_FILTER_KEEP_ALL } };
  unsigned k = (unsigned)hv_below(&R, sizeof bf / sizeof *bf);
  enum hwloc_type_filter_e before = 0, after = 0;
  if ((unsigned)bf[k].ty < HWLOC_OBJ_TYPE_MAX) hwloc_topology_get_type_filter(t, bf[k].ty, &before);
  errno = 0;
  if (hwloc_topology_set_type_filter(t, bf[k].ty, bf[k].f) != -1 || errno != EINVAL) hv_viol("config.illegal_filter_accepted", "set_type_filter(%d,%d) did not fail with EINVAL", (int)bf[k].ty, (int)bf[k].f);
  if ((unsigned)bf[k].ty < HWLOC_OBJ_TYPE_MAX) { hwloc_topology_get_type_filter(t, bf[k].ty, &after); if (after != before) hv_viol("config.illegal_filter_stored", "filter changed by a rejected call"); }
  hwloc_topology_destroy(t);
  hv_stat("illegal_config_probes", 1);
}

static void examine(hwloc_topology_t t, const char *srcclass, uint64_t srchash, const struct tg_config *c)
{
  char key[64];
  snprintf(key, sizeof key, "%s.", srcclass);
  int fails = wf_check(t, key);
  if (!fails) wf_builtin(t, srcclass);
  int depth = hwloc_topology_get_depth(t);
  unsigned special = hwloc_get_nbobjs_by_depth(t, HWLOC_TYPE_DEPTH_BRIDGE) + hwloc_get_nbobjs_by_depth(t, HWLOC_TYPE_DEPTH_PCI_DEVICE) +
                     hwloc_get_nbobjs_by_depth(t, HWLOC_TYPE_DEPTH_OS_DEVICE) + hwloc_get_nbobjs_by_depth(t, HWLOC_TYPE_DEPTH_MISC) +
                     hwloc_get_nbobjs_by_depth(t, HWLOC_TYPE_DEPTH_MEMCACHE);
  snprintf(key, sizeof key, "loads_ok.%s", srcclass);
  hv_stat(key, 1);
  if (depth >= 3 || special) {
    hv_distinct(1, hv_hash_u64(tv_shape_hash(t), hv_hash_u64(srchash, tg_config_hash(c))));
    hv_distinct(2, tv_shape_hash(t));
    hv_distinct(3, tg_config_hash(c));
  }
  hv_max("max_depth", (uint64_t)depth);
  hv_max("max_pus", hwloc_get_nbobjs_by_type(t, HWLOC_OBJ_PU) > 0 ? (uint64_t)hwloc_get_nbobjs_by_type(t, HWLOC_OBJ_PU) : 0);
  if (hwloc_topology_get_flags(t) & HWLOC_TOPOLOGY_FLAG_INCLUDE_DISALLOWED) hv_stat("loads_with_include_disallowed", 1);
}

/* ------------------------------------------------------------------ directed cases
 * (a) regression witnesses of repaired defects (the configuration that first exposed each of them, see known_findings.json),
 * (b) a deterministic sweep: every single (type, filter) and - all of them in the thorough tier, a seeded sample in the quick tier -
 *     every pair ((type1, filter1), (type2, filter2)) over descriptions that contain every normal and memory object type.
 * The random configurations of the other cases rarely draw "exactly two non-default filters"; level merging bugs typically need that. */
static const struct { const char *src, *filters; } WITNESS[] = {
  { "[NUMANode] Package:1 Group:5 [NUMA] Group:2 [numa] L2Cache:2 core:6 Pu:1", "Group=none Package=structure" },                 /* 462d79d */
  { "die:4 [numa(memorysidecachesize=80373kB)] L3:2 L2:2 Core:4 Pu:1", "" },                                             /* 6f959d2 */
  { "die:4 [numa(memorysidecachesize=80373kB)] L3:2 L2:2 Core:4 Pu:1", "MemCache=none Die=structure" },
  { "xml:tests/hwloc/linux/40intel64-2g2n4c+pcilocality.xml", "*=none" },                                                    /* 3bd36aa */
  { "xml:tests/hwloc/linux/40intel64-2g2n4c+pcilocality.xml", "*=structure" },
  { "Tile:2 Module:2 pu:2", "" },                                                                                         /* affde5f */
  { "Tile:2 Module:2 pu:2", "Group=structure" },
  { "pack:2 [numa] group:1 [numa] die:1 [numa] l3:3 l2:1 [numa] core:2 pu:1", "*=structure" },                                    /* memory children at several merged depths */
};
#define NWITNESS ((unsigned)(sizeof WITNESS / sizeof *WITNESS))
static const char *RICH[] = {
  "[numa] pack:2 [numa] die:2 group:2 [numa(memorysidecachesize=1MB)] l3:2 l2:1 l1d:1 l1i:1 core:2 pu:2",
  "[NUMANode] Package:1 Group:5 [NUMA] Group:2 [numa] L2Cache:2 core:6 Pu:1",
  "group:2 numa:2 pack:1 die:2 l3:1 l2:2 core:1 pu:2",
};
#define NRICH 3u
static const int SWEEP_F[] = { HWLOC_TYPE_FILTER_KEEP_NONE, HWLOC_TYPE_FILTER_KEEP_STRUCTURE, HWLOC_TYPE_FILTER_KEEP_ALL, HWLOC_TYPE_FILTER_KEEP_IMPORTANT };
static uint64_t n_pairs_all(void) { return (uint64_t)NRICH * TG_NTYPES * TG_NTYPES * 9; }
static uint64_t n_directed(void) { return NWITNESS + (uint64_t)NRICH * TG_NTYPES * 4 + (HV.thorough ? n_pairs_all() : 600); }

static void parse_filters(const char *spec, struct tg_config *c)
{
  tg_config_default(c);
  char buf[200]; snprintf(buf, sizeof buf, "%s", spec);
  for (char *tok = strtok(buf, " "); tok; tok = strtok(NULL, " ")) {
    char *eq = strchr(tok, '='); if (!eq) continue; *eq = 0; int f = !strcmp(eq + 1, "none") ? HWLOC_TYPE_FILTER_KEEP_NONE : !strcmp(eq + 1, "structure") ? HWLOC_TYPE_FILTER_KEEP_STRUCTURE : !strcmp(eq + 1, "important") ? HWLOC_TYPE_FILTER_KEEP_IMPORTANT : HWLOC_TYPE_FILTER_KEEP_ALL;
    if (!strcmp(tok, "*")) { for (int ty = 0; ty < TG_NTYPES; ty++) if (ty != HWLOC_OBJ_PU && ty != HWLOC_OBJ_NUMANODE && ty != HWLOC_OBJ_MACHINE && !(ty == HWLOC_OBJ_GROUP && f == HWLOC_TYPE_FILTER_KEEP_ALL) && !(ty >= HWLOC_OBJ_BRIDGE && f == HWLOC_TYPE_FILTER_KEEP_STRUCTURE)) c->filter[ty] = f; continue; }
    hwloc_obj_type_t ty; if (hwloc_type_sscanf(tok, &ty, NULL, 0) == 0 && (int)ty < TG_NTYPES) c->filter[ty] = f;
  }
}

static int directed_case(uint64_t index)
{
  if (index >= n_directed()) return 0;
  struct tg_config c; const char *src; const char *what;
  if (index < NWITNESS) { src = WITNESS[index].src; parse_filters(WITNESS[index].filters, &c); what = "witness"; hv_stat("directed.witness", 1); }
  else {
    uint64_t k = index - NWITNESS; tg_config_default(&c);
    if (k < (uint64_t)NRICH * TG_NTYPES * 4) { src = RICH[k % NRICH]; k /= NRICH; c.filter[k % TG_NTYPES] = SWEEP_F[(k / TG_NTYPES) % 4]; what = "single-filter sweep"; hv_stat("directed.single", 1); }
    else {
      k -= (uint64_t)NRICH * TG_NTYPES * 4;
      if (!HV.thorough) { struct hv_rng pr; hv_rng_seed(&pr, HV.seed, "c01pairs", k); k = hv_below(&pr, n_pairs_all()); }
      src = RICH[k % NRICH]; k /= NRICH; int t1 = (int)(k % TG_NTYPES); k /= TG_NTYPES; int t2 = (int)(k % TG_NTYPES); k /= TG_NTYPES;
      c.filter[t1] = SWEEP_F[k % 3]; c.filter[t2] = SWEEP_F[(k / 3) % 3]; what = "filter-pair sweep"; hv_stat("directed.pair", 1);
    }
  }
  struct hv_str cs; hv_str_init(&cs); tg_config_str(&c, &cs);
  hv_desc("directed (%s): %s config %s\n", what, src, cs.s);
  hv_ctxkey("load:directed");
  int stage = 0; hwloc_topology_t t;
  if (!strncmp(src, "xml:", 4)) { char path[4200]; snprintf(path, sizeof path, "%s/%s", HV.repo, src + 4); t = tl_load_xmlfile(path, &c, &stage); }
  else t = tl_load_synthetic(src, &c, &stage);
  if (!t) { hv_stat(stage == 2 ? "directed.config_rejected" : "directed.load_failed", 1);
    if (stage != 2) hv_viol("directed.load_failed", "%s could not be loaded (stage %d) with config %s", src, stage, cs.s); }
  else { examine(t, strncmp(src, "xml:", 4) ? "synthetic" : "xml", hv_hash_str(src, 5), &c); hv_ctxkey("destroy"); hwloc_topology_destroy(t); }
  hv_ctxkey("%s", ""); hv_str_free(&cs);
  hv_leak_check();
  return 1;
}

void hv_case(uint64_t index)
{
  hv_rng_seed(&R, HV.seed, "c01", index);
  snap_clearenv();
  if (directed_case(index)) return;
  struct tg_config c;
  struct hv_str cs; hv_str_init(&cs);
  unsigned cls = (unsigned)(index % 8);
  uint64_t k = index / 8;
  int stage = 0;
  hwloc_topology_t t = NULL;
  snap_clearenv();
  if (index % 16 == 3) illegal_config_probe();

  if (cls == 5 || cls == 6) {                    /* snapshots */
    uint64_t kk = k * 2 + (cls - 5);
    struct snap *s = &snaps[kk % nsnaps];
    uint64_t round = kk / nsnaps;
    if (round == 0) tg_config_default(&c); else tg_config_random(&R, &c, 0);
    c.flags &= ~(unsigned long)(HWLOC_TOPOLOGY_FLAG_RESTRICT_TO_CPUBINDING | HWLOC_TOPOLOGY_FLAG_RESTRICT_TO_MEMBINDING);
    if (round && hv_chance(&R, 1, 2)) c.flags &= ~(unsigned long)(HWLOC_TOPOLOGY_FLAG_IS_THISSYSTEM | HWLOC_TOPOLOGY_FLAG_THISSYSTEM_ALLOWED_RESOURCES);
    unsigned variant = round < 6 ? (unsigned)round : (unsigned)hv_below(&R, 8);
    unsigned testenv = round == 0 ? 1 : (unsigned)hv_below(&R, 32);
    const char *d = snap_setenv(s, variant, testenv);
    tg_config_str(&c, &cs);
    hv_desc("snapshot %s config %s\n", d, cs.s);
    hv_ctxkey("load:snapshot:%s", s->name);
    hwloc_topology_init(&t);
    if (tg_config_apply(t, &c)) { hv_stat("config_rejected", 1); hwloc_topology_destroy(t); t = NULL; }
    else if (hwloc_topology_load(t) < 0) { hv_stat(s->kind == 'l' ? "loads_failed.linux" : s->kind == 'x' ? "loads_failed.x86" : "loads_failed.x86+linux", 1); hwloc_topology_destroy(t); t = NULL; }
    if (t) { examine(t, s->kind == 'l' ? "linux" : s->kind == 'x' ? "x86" : "x86+linux", hv_hash_str(s->name, variant), &c);
      if (index < 64) hv_sample("snapshot %s config %s -> depth %d, %d PUs", d, cs.s, hwloc_topology_get_depth(t), hwloc_get_nbobjs_by_type(t, HWLOC_OBJ_PU)); }
    snap_clearenv();
  } else if (cls == 4) {                         /* corpus XML */
    const char *path = corpus[k % ncorpus];
    uint64_t round = k / ncorpus;
    if (round == 0) tg_config_default(&c); else tg_config_random(&R, &c, 0);
    tg_config_str(&c, &cs);
    int frombuf = (int)(round % 2);
    hv_desc("xml %s (%s) config %s\n", path, frombuf ? "buffer" : "file", cs.s);
    hv_ctxkey("load:xml:%s", strrchr(path, '/') + 1);
    if (frombuf) {
      size_t len; char *buf = tl_read_file(path, &len);
      if (!buf) hv_fail("cannot read %s", path);
      char *exact = hv_exact_dup(buf, len + 1);
      t = tl_load_xmlbuffer(exact, len + 1, &c, &stage);
      free(exact); free(buf);
    } else t = tl_load_xmlfile(path, &c, &stage);
    if (!t) { hv_stat(stage == 2 ? "config_rejected" : "loads_failed.xml", 1); if (round == 0 && stage != 2) hv_viol("xml.corpus_load_failed", "default-config load of %s failed at stage %d", path, stage); }
    else examine(t, "xml", hv_hash_str(path, 3), &c);
  } else if (cls == 7 && k % 3 == 0) {           /* this machine */
    if (k < 3) tg_config_default(&c); else tg_config_random(&R, &c, 1);
    tg_config_str(&c, &cs);
    hv_desc("live machine config %s\n", cs.s);
    hv_ctxkey("load:live");
    hwloc_topology_init(&t);
    if (tg_config_apply(t, &c)) { hv_stat("config_rejected", 1); hwloc_topology_destroy(t); t = NULL; }
    else if (hwloc_topology_load(t) < 0) { hv_stat("loads_failed.live", 1); hwloc_topology_destroy(t); t = NULL; }
    if (t) examine(t, "live", 42, &c);
  } else if (cls == 2 && k % 2 == 0) {           /* XML of a generated machine with CPU-less NUMA nodes below memory Groups */
    /* what the Linux back end builds for CXL/HBM/PMEM nodes without CPUs, which synthetic descriptions cannot express: the v3 export of a
     * generated description gets 1-2 <Group kind=memory (cpuset 0x0)> <NUMANode (cpuset 0x0)> children appended to the Machine, whose
     * three nodesets gain the new bits; the result is a valid document and is loaded under a random configuration */
    struct tg_synth_opts o; tg_synth_opts_default(&o); o.max_pus = 48; if (hv_chance(&R, 1, 2)) o.max_levels = 3;
    struct hv_str d; hv_str_init(&d); tg_synth_random(&R, &o, &d);
    struct tg_config c0; tg_config_default(&c0); int st0; hwloc_topology_t t0 = tl_load_synthetic(d.s, &c0, &st0);
    tg_config_random(&R, &c, 0); tg_config_str(&c, &cs);
    hv_desc("xml export of synthetic \"%s\" with CPU-less NUMA nodes injected, config %s\n", d.s, cs.s);
    hv_str_free(&d);
    char *xb = NULL; int xl = 0;
    if (t0 && hwloc_topology_export_xmlbuffer(t0, &xb, &xl, 0) == 0) {
      int lastnode = hwloc_bitmap_last(hwloc_topology_get_complete_nodeset(t0)); unsigned nadd = 1 + (unsigned)hv_below(&R, 2);
      struct hv_str x; hv_str_init(&x);
      /* rewrite the three nodeset attributes of the first <object (the Machine) */
      const char *p = xb, *mach = strstr(xb, "<object "), *mend = mach ? strchr(mach, '>') : NULL;
      if (mach && mend) {
        hv_str_addn(&x, p, (size_t)(mach - p));
        const char *q = mach;
        while (q < mend) {
          const char *ns = NULL; static const char *const names[] = { " nodeset=\"", " complete_nodeset=\"", " allowed_nodeset=\"" };
          size_t nl = 0; for (unsigned w = 0; w < 3; w++) if (!strncmp(q, names[w], strlen(names[w]))) { ns = q; nl = strlen(names[w]); }
          if (!ns) { hv_str_addn(&x, q, 1); q++; continue; }
          const char *ve = strchr(q + nl, '"'); char val[600]; size_t vl = (size_t)(ve - (q + nl)); if (vl >= sizeof val) vl = sizeof val - 1; memcpy(val, q + nl, vl); val[vl] = 0;
          hwloc_bitmap_t b = hwloc_bitmap_alloc(); hwloc_bitmap_sscanf(b, val); for (unsigned a2 = 0; a2 < nadd; a2++) hwloc_bitmap_set(b, (unsigned)(lastnode + 1 + (int)a2));
          char nv[600]; hwloc_bitmap_snprintf(nv, sizeof nv, b); hwloc_bitmap_free(b);
          hv_str_addn(&x, q, nl); hv_str_add(&x, "%s", nv); q = ve;
        }
        /* append the memory Groups right before the Machine's closing tag = the last </object> of the document */
        const char *last = NULL; for (const char *z = mend; (z = strstr(z, "</object>")) != NULL; z++) last = z;
        if (last) {
          hv_str_addn(&x, mend, (size_t)(last - mend));
          for (unsigned a2 = 0; a2 < nadd; a2++) { char nsv[600]; hwloc_bitmap_t b = hwloc_bitmap_alloc(); hwloc_bitmap_set(b, (unsigned)(lastnode + 1 + (int)a2)); hwloc_bitmap_snprintf(nsv, sizeof nsv, b); hwloc_bitmap_free(b);
            int grouped = !(a2 == 1 && hv_chance(&R, 1, 2));      /* the second node is sometimes attached to the Machine directly */
            if (grouped) hv_str_add(&x, "<object type=\"Group\" cpuset=\"0x0\" complete_cpuset=\"0x0\" nodeset=\"%s\" complete_nodeset=\"%s\" gp_index=\"%u\" id=\"obj%u\" kind=\"1001\" subkind=\"0\">", nsv, nsv, 900000 + a2 * 2, 900000 + a2 * 2);
            hv_str_add(&x, "<object type=\"NUMANode\" os_index=\"%d\" cpuset=\"0x0\" complete_cpuset=\"0x0\" nodeset=\"%s\" complete_nodeset=\"%s\" gp_index=\"%u\" id=\"obj%u\" local_memory=\"8589934592\"/>", lastnode + 1 + (int)a2, nsv, nsv, 900001 + a2 * 2, 900001 + a2 * 2);
            if (grouped) hv_str_add(&x, "</object>"); }
          hv_str_add(&x, "%s", last);
          hv_ctxkey("load:xml:cpuless_injected");
          char *exact = hv_exact_dup(x.s, x.len + 1);
          t = tl_load_xmlbuffer(exact, x.len + 1, &c, &stage);
          free(exact);
          if (!t) { hv_stat(stage == 2 ? "config_rejected" : "loads_failed.xml_cpuless_injected", 1); if (stage != 2 && HV.verbose) printf("%s\n", x.s); }
          else { hv_stat("loads_ok.xml_cpuless_injected", 1); examine(t, "xml", hv_hash_u64(nadd, 77), &c); }
        }
      }
      hv_str_free(&x);
      hwloc_free_xmlbuffer(t0, xb);
    }
    if (t0) hwloc_topology_destroy(t0);
  } else {                                       /* synthetic */
    struct tg_synth_opts o; tg_synth_opts_default(&o);
    if (cls == 7) { o.max_levels = 12; o.max_pus = 1024; }
    if (cls == 0) { o.max_pus = 64; }
    struct hv_str d; hv_str_init(&d);
    uint64_t sh = tg_synth_random(&R, &o, &d);
    if (k < 2 && cls == 1) tg_config_default(&c); else tg_config_random(&R, &c, 0);
    tg_config_str(&c, &cs);
    hv_desc("synthetic \"%s\" config %s\n", d.s, cs.s);
    hv_ctxkey("load:synthetic");
    t = tl_load_synthetic(d.s, &c, &stage);
    if (!t) {
      hv_stat(stage == 1 ? "synthetic_rejected" : stage == 2 ? "config_rejected" : "loads_failed.synthetic", 1);
      if (stage == 1) { hv_stat("generator_invalid_synthetic", 1); if (HV.verbose) printf("rejected: %s\n", d.s); }
    } else {
      examine(t, "synthetic", sh, &c);
      if (index < 40) hv_sample("synthetic \"%s\" config %s -> depth %d, %d PUs, %d NUMA", d.s, cs.s, hwloc_topology_get_depth(t), hwloc_get_nbobjs_by_type(t, HWLOC_OBJ_PU), hwloc_get_nbobjs_by_type(t, HWLOC_OBJ_NUMANODE));
    }
    hv_str_free(&d);
  }
  if (t) { hv_ctxkey("destroy"); hwloc_topology_destroy(t); }
  hv_ctxkey("%s", "");
  hv_str_free(&cs);
  hv_leak_check();
}
