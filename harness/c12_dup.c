/* C12: hwloc_topology_dup yields an equivalent, fully independent topology. */
#include "hv.h"
#include "topo.h"
#include "hist.h"

const char *hv_property = "C12";
unsigned hv_batch = 6;
unsigned hv_cpu_limit_s = 120;
static struct hv_rng R;
static const char **corpus; static unsigned ncorpus;

void hv_setup(void) { ncorpus = tl_corpus(&corpus); }

static void battery(hwloc_topology_t t, const char *who)
{
  hv_ctxkey("battery:%s", who);
  struct hv_str s; hv_str_init(&s); canon_dump(t, CANON_ALL, &s); hv_str_free(&s);
  char *buf = NULL; int len = 0;
  if (hwloc_topology_export_xmlbuffer(t, &buf, &len, 0) == 0) hwloc_free_xmlbuffer(t, buf);
  char syn[2048]; hwloc_topology_export_synthetic(t, syn, sizeof syn, 0);
  struct tv_view vw; tv_view_build(t, &vw, 1); tv_view_free(&vw);
  hwloc_topology_refresh(t);
}

void hv_case(uint64_t index)
{
  hv_rng_seed(&R, HV.seed, "c12", index);
  struct tg_config c; tg_config_random(&R, &c, 0);
  c.flags &= (HWLOC_TOPOLOGY_FLAG_INCLUDE_DISALLOWED | HWLOC_TOPOLOGY_FLAG_NO_DISTANCES | HWLOC_TOPOLOGY_FLAG_NO_MEMATTRS | HWLOC_TOPOLOGY_FLAG_NO_CPUKINDS | HWLOC_TOPOLOGY_FLAG_IMPORT_SUPPORT);
  if (hv_chance(&R, 2, 3)) c.flags &= ~(unsigned long)(HWLOC_TOPOLOGY_FLAG_NO_DISTANCES | HWLOC_TOPOLOGY_FLAG_NO_MEMATTRS | HWLOC_TOPOLOGY_FLAG_NO_CPUKINDS);
  if (hv_chance(&R, 1, 2)) { c.filter[HWLOC_OBJ_MISC] = HWLOC_TYPE_FILTER_KEEP_ALL; c.filter[HWLOC_OBJ_BRIDGE] = c.filter[HWLOC_OBJ_PCI_DEVICE] = c.filter[HWLOC_OBJ_OS_DEVICE] = HWLOC_TYPE_FILTER_KEEP_ALL; c.filter[HWLOC_OBJ_MEMCACHE] = HWLOC_TYPE_FILTER_KEEP_ALL; }
  struct hv_str cs; hv_str_init(&cs); tg_config_str(&c, &cs);
  hwloc_topology_t t; int stage;
  hv_ctxkey("source_load");
  if (index % 3 == 1 && ncorpus) {
    const char *path = corpus[(index / 3) % ncorpus];
    hv_desc("source: xml %s config %s\n", path, cs.s);
    t = tl_load_xmlfile(path, &c, &stage);
  } else {
    struct tg_synth_opts o; tg_synth_opts_default(&o); o.max_pus = 64;
    struct hv_str d; hv_str_init(&d); tg_synth_random(&R, &o, &d);
    hv_desc("source: synthetic \"%s\" config %s\n", d.s, cs.s);
    t = tl_load_synthetic(d.s, &c, &stage);
    hv_str_free(&d);
  }
  hv_str_free(&cs);
  if (!t) { hv_stat("source_load_failed", 1); return; }
  if (hwloc_bitmap_last(hwloc_topology_get_complete_cpuset(t)) >= 1700 || hwloc_bitmap_last(hwloc_topology_get_complete_nodeset(t)) >= 1700) { hv_stat("skipped_beyond_window", 1); hwloc_topology_destroy(t); return; }
  struct hx h; hx_init(&h, t, &R); h.allow_bad_args = 0; h.allow_grouping = 0;
  /* a modification history before the dup: restricts invalidate the distances object cache, memattr caches ... */
  unsigned pre = (unsigned)hv_below(&R, 10);
  for (unsigned k = 0; k < pre; k++) { struct hx_result res; hx_random_op(&h, HX_ANNOTATE | (1u << HX_RESTRICT), &res); hv_desc("  pre: %s -> %d\n", res.desc, res.rc); }
  if (hv_chance(&R, 1, 3)) {
    /* arrays that were filled and emptied again before the dup (count 0, storage still allocated): infos of a few objects and of the topology */
    struct tv_view vw; tv_view_build(t, &vw, 0); unsigned n = 1 + (unsigned)hv_below(&R, 5);
    for (unsigned q = 0; q < n; q++) { hwloc_obj_t o = vw.v[hv_below(&R, vw.n)].o; unsigned k = 1 + (unsigned)hv_below(&R, 9); for (unsigned j = 0; j < k; j++) { char nm[16]; snprintf(nm, sizeof nm, "tmp%u", j); hwloc_obj_add_info(o, nm, "x"); }
      hwloc_modify_infos(&o->infos, HWLOC_MODIFY_INFOS_OP_REMOVE, NULL, NULL); }
    if (hv_chance(&R, 1, 2)) { struct hwloc_infos_s *ti = hwloc_topology_get_infos(t); hwloc_modify_infos(ti, HWLOC_MODIFY_INFOS_OP_ADD, "tmp", "x"); if (hv_chance(&R, 1, 2)) hwloc_modify_infos(ti, HWLOC_MODIFY_INFOS_OP_REMOVE, NULL, NULL); }
    tv_view_free(&vw); hv_desc("  pre: infos of %u objects filled and emptied again\n", n); hv_stat("pre.emptied_info_arrays", 1);
  }
  { struct tv_view vw; tv_view_build(t, &vw, 0); for (unsigned i = 0; i < vw.n; i++) if (hv_chance(&R, 1, 2)) vw.v[i].o->userdata = (void *)(uintptr_t)(0xBEEF0000u + i * 8); tv_view_free(&vw); }
  hwloc_topology_set_userdata(t, (void *)0x1234);
  if (hv_chance(&R, 1, 3)) hwloc_topology_refresh(t);
  if (wf_check(t, "source.") != 0) { hwloc_topology_destroy(t); return; }
  unsigned feat = hx_features(t);
  uint64_t shp = tv_shape_hash(t);

  hv_ctxkey("dup");
  hwloc_topology_t d = NULL;
  if (hwloc_topology_dup(&d, t) != 0 || !d) { hv_viol("dup.failed", "hwloc_topology_dup failed, errno %d", errno); hwloc_topology_destroy(t); return; }
  hv_stat("dups", 1);
  if (wf_check(d, "copy.") == 0) wf_builtin(d, "copy");
  /* 1. observably identical, userdata pointers copied verbatim, same XML */
  struct hv_str a, b; hv_str_init(&a); hv_str_init(&b);
  canon_dump(t, CANON_ALL, &a); canon_dump(d, CANON_ALL, &b);
  const char *df = canon_diff(&a, &b);
  if (df) hv_viol("dup.differs", "the copy differs from the original: %s", df);
  if (hwloc_topology_get_userdata(d) != hwloc_topology_get_userdata(t)) hv_stat("info.topology_userdata_not_copied", 1);
  {
    char *b1 = NULL, *b2 = NULL; int l1 = 0, l2 = 0;
    hv_ctxkey("export_both");
    if (hwloc_topology_export_xmlbuffer(t, &b1, &l1, 0) == 0 && hwloc_topology_export_xmlbuffer(d, &b2, &l2, 0) == 0) {
      if (l1 != l2 || memcmp(b1, b2, (size_t)l1)) { size_t k = 0; while ((int)k < l1 && (int)k < l2 && b1[k] == b2[k]) k++; size_t from = k > 100 ? k - 100 : 0; hv_viol("dup.xml_differs", "XML exports differ at byte %zu: <%.200s> vs <%.200s>", k, b1 + from, b2 + from); }
      hv_stat("xml_compared", 1);
    }
    if (b1) hwloc_free_xmlbuffer(t, b1); if (b2) hwloc_free_xmlbuffer(d, b2);
  }
  /* 1b. equivalent means: the same calls have the same effect on both. Every object (and the topology) of both copies gets the same info
   * additions / replacements; the two must still be observably identical afterwards */
  if (!hv_viol_count() && hv_chance(&R, 1, 2)) {
    hv_ctxkey("same_edit_on_both");
    struct tv_view v1, v2; tv_view_build(t, &v1, 0); tv_view_build(d, &v2, 0);
    if (v1.n == v2.n) {
      for (unsigned i = 0; i < v1.n; i++) { char val[24]; snprintf(val, sizeof val, "v%u", i % 7);
        for (int w = 0; w < 2; w++) { hwloc_obj_t o = (w ? v2 : v1).v[i].o; if (i % 3 == 0) hwloc_obj_add_info(o, "DupProbe", val); else if (i % 3 == 1) hwloc_modify_infos(&o->infos, HWLOC_MODIFY_INFOS_OP_REPLACE, "DupProbe", val); else { hwloc_obj_add_info(o, "DupProbe", val); hwloc_obj_add_info(o, "DupProbe2", val); } } }
      hwloc_modify_infos(hwloc_topology_get_infos(t), HWLOC_MODIFY_INFOS_OP_ADD, "DupProbeT", "1"); hwloc_modify_infos(hwloc_topology_get_infos(d), HWLOC_MODIFY_INFOS_OP_ADD, "DupProbeT", "1");
      struct hv_str a2, b2; hv_str_init(&a2); hv_str_init(&b2); canon_dump(t, CANON_ALL, &a2); canon_dump(d, CANON_ALL, &b2);
      const char *d3 = canon_diff(&a2, &b2); if (d3) hv_viol("dup.diverges_under_same_edit", "after the same info additions on both, the copy differs from the original: %s", d3);
      hv_str_free(&a2); hv_str_free(&b2); hv_stat("same_edit_on_both", 1);
    }
    tv_view_free(&v1); tv_view_free(&v2);
  }
  /* 2. cross-mutation: a history on one copy never changes what the other reports */
  if (!hv_viol_count()) {
    int mutate_copy = hv_chance(&R, 1, 2);
    hwloc_topology_t m = mutate_copy ? d : t, o = mutate_copy ? t : d;
    struct hv_str ob; hv_str_init(&ob); canon_dump(o, CANON_ALL, &ob);
    struct hx hm; hx_init(&hm, m, &R); hm.allow_bad_args = 1; hm.no_fragile_groups = 1;
    unsigned nops = 2 + (unsigned)hv_below(&R, 8), changed = 0;
    for (unsigned k = 0; k < nops && !hv_viol_count(); k++) {
      struct hx_result res; hx_random_op(&hm, HX_ALL, &res);
      hv_desc("  mutate %s: %s -> %d\n", mutate_copy ? "copy" : "original", res.desc, res.rc);
      if (res.rc == 0) changed++;
      struct hv_str oa; hv_str_init(&oa); canon_dump(o, CANON_ALL, &oa);
      const char *d2 = canon_diff(&ob, &oa);
      if (d2) { char key[96]; char op[40]; snprintf(op, sizeof op, "%s", res.cls); char *dot = strpbrk(op, ".:"); if (dot) *dot = 0; snprintf(key, sizeof key, "independence.changed_by_%s", op); hv_viol(key, "%s on the %s changed what the %s reports: %s", res.desc, mutate_copy ? "copy" : "original", mutate_copy ? "original" : "copy", d2); }
      hv_str_free(&oa);
      if (res.fragile && res.rc == 0) break;
    }
    hv_str_free(&ob);
    hv_stat("cross_mutation_histories", 1);
    /* 3. independence by destruction: destroy one, use and modify the other, destroy it */
    if (!hv_viol_count()) {
      int destroy_original_first = hv_chance(&R, 1, 2);
      hwloc_topology_t first = destroy_original_first ? t : d, second = destroy_original_first ? d : t;
      hv_ctxkey("destroy_first:%s", destroy_original_first ? "original" : "copy");
      hwloc_topology_destroy(first);
      if (destroy_original_first) t = NULL; else d = NULL;
      battery(second, destroy_original_first ? "copy_after_original_destroyed" : "original_after_copy_destroyed");
      struct hx h2; hx_init(&h2, second, &R); h2.no_fragile_groups = 1;
      for (unsigned k = 0; k < 4; k++) { struct hx_result res; hx_random_op(&h2, HX_ALL, &res); hv_desc("  after destroy: %s -> %d\n", res.desc, res.rc); if (res.fragile && res.rc == 0) break; }
      if (wf_check(second, "survivor.") == 0) battery(second, "survivor_after_history");
      hv_ctxkey("destroy_second");
      hwloc_topology_destroy(second);
      t = d = NULL;
      hv_stat("destroy_order_tests", 1);
      if (hx_popcount(feat & (HXF_DISTANCES | HXF_MEMATTR_VALUES | HXF_CPUKINDS | HXF_INFOS | HXF_SPECIAL_OBJS | HXF_USERDATA)) >= 2 && changed) { hv_stat("nontrivial_dups", 1); hv_distinct(1, hv_hash_u64(feat, hv_hash_u64((uint64_t)mutate_copy * 2 + (uint64_t)destroy_original_first, 77) ^ shp)); (void)second; }
    }
  }
  hv_str_free(&a); hv_str_free(&b);
  if (index < 6) hv_sample("%s", hv_desc_get());
  hv_ctxkey("destroy");
  if (t) hwloc_topology_destroy(t);
  if (d) hwloc_topology_destroy(d);
  hv_ctxkey("%s", "");
  hv_leak_check();
}
