/* C03: hwloc_bitmap_* vs. the SET model. Random API programs over 8 slots, each slot being a
 * (hwloc bitmap, model) pair plus an equal-by-construction twin built through another route. */
#include "hv.h"
#include "vset.h"
#include <hwloc.h>
#include <hwloc/bitmap.h>

/* private but exported (include/private/misc.h) */
extern int hwloc_bitmap_compare_inclusion(hwloc_const_bitmap_t bitmap1, hwloc_const_bitmap_t bitmap2);

const char *hv_property = "C03";
unsigned hv_batch = 25;
unsigned hv_cpu_limit_s = 60;

#define NSLOT 8
#define MAXIDX (VS_W - 64)
#define OPS_PER_CASE 200

/* evidence-only mirror of the private struct layout (never an oracle input) */
struct bm_mirror { unsigned ulongs_count, ulongs_allocated; unsigned long *ulongs; int infinite; };
static unsigned enc_count(hwloc_const_bitmap_t b) { return ((const struct bm_mirror *)b)->ulongs_count; }
static int enc_inf(hwloc_const_bitmap_t b) { return ((const struct bm_mirror *)b)->infinite; }

static hwloc_bitmap_t B[NSLOT], T[NSLOT];
static vset M[NSLOT];
static struct hv_rng R;

void hv_setup(void) {}

static unsigned pick_idx(void)
{
  static const unsigned edge[] = { 0, 1, 31, 32, 33, 63, 64, 65, 127, 128, 129, 191, 192, 255, 256, 511, 512, 513,
                                   575, 576, 1023, 1024, 1025, 1535, 1536, MAXIDX - 1 };
  if (hv_chance(&R, 1, 2)) return edge[hv_below(&R, sizeof edge / sizeof *edge)];
  if (hv_chance(&R, 1, 2)) return (unsigned)hv_below(&R, 130);
  return (unsigned)hv_below(&R, MAXIDX);
}
static unsigned long pick_mask(void)
{
  switch (hv_below(&R, 6)) {
  case 0: return 0;
  case 1: return ~0UL;
  case 2: return 1UL << hv_below(&R, 64);
  case 3: return ~0UL << hv_below(&R, 64);
  case 4: return ~0UL >> hv_below(&R, 64);
  default: return hv_rand(&R);
  }
}

/* Observe a hwloc bitmap into a vset through isset + tail probes only. */
static void observe(hwloc_const_bitmap_t b, vset *o)
{
  vs_zero(o); for (unsigned i = 0; i < VS_W; i++) if (hwloc_bitmap_isset(b, i)) vs_set(o, i);
  o->tail = hwloc_bitmap_isset(b, VS_W + 997) != 0;
}

static char sbuf1[8192], sbuf2[8192];
static void check_slot(const char *op, int s)
{
  vset o;
  observe(B[s], &o);
  /* tail probes must agree with each other */
  int t2 = hwloc_bitmap_isset(B[s], VS_W + 64 * 40 + 3) != 0;
  if (t2 != o.tail) hv_viol("tail_probe", "after %s: isset beyond the window disagrees (%d vs %d)", op, o.tail, t2);
  if (!vs_isequal(&o, &M[s]))
    hv_viol(op, "after %s on slot %d: observed {%s} expected {%s}", op, s, vs_str(&o, sbuf1, sizeof sbuf1), vs_str(&M[s], sbuf2, sizeof sbuf2));
}

static void build_twin(int s)
{
  hwloc_bitmap_t t = NULL;
  const vset *m = &M[s];
  int route = (int)hv_below(&R, 8);
  char *str = NULL;
  switch (route) {
  case 0: t = hwloc_bitmap_dup(B[s]); break;
  case 1: { /* words of the window, then the tail */
    t = hwloc_bitmap_alloc();
    unsigned long w[VS_W / 64];
    hwloc_bitmap_to_ulongs(B[s], VS_W / 64, w);
    hwloc_bitmap_from_ulongs(t, VS_W / 64, w);
    if (m->tail) hwloc_bitmap_set_range(t, VS_W, -1);
    break; }
  case 2: t = hwloc_bitmap_alloc(); hwloc_bitmap_asprintf(&str, B[s]); if (hwloc_bitmap_sscanf(t, str)) hv_viol("twin.sscanf", "sscanf rejected own output '%s'", str); break;
  case 3: t = hwloc_bitmap_alloc(); hwloc_bitmap_list_asprintf(&str, B[s]); if (hwloc_bitmap_list_sscanf(t, str)) hv_viol("twin.list_sscanf", "list_sscanf rejected own output '%s'", str); break;
  case 4: t = hwloc_bitmap_alloc(); hwloc_bitmap_taskset_asprintf(&str, B[s]); if (hwloc_bitmap_taskset_sscanf(t, str)) hv_viol("twin.taskset_sscanf", "taskset_sscanf rejected own output '%s'", str); break;
  case 5: /* from the model: set every member */
    t = hwloc_bitmap_alloc();
    for (unsigned i = 0; i < VS_W; i++) if (VS_BIT(m, i)) hwloc_bitmap_set(t, i);
    if (m->tail) hwloc_bitmap_set_range(t, VS_W, -1);
    break;
  case 6: /* from the model: fill then clear every non-member */
    t = hwloc_bitmap_alloc_full();
    for (unsigned i = 0; i < VS_W; i++) if (!VS_BIT(m, i)) hwloc_bitmap_clr(t, i);
    if (!m->tail) hwloc_bitmap_clr_range(t, VS_W, -1);
    break;
  default: { /* enlarge the encoding with a far bit, then remove it again */
    t = hwloc_bitmap_dup(B[s]);
    unsigned far = VS_W + 64 * (unsigned)hv_below(&R, 12) + 5;
    hwloc_bitmap_t f = hwloc_bitmap_alloc();
    hwloc_bitmap_set(f, far);
    if (m->tail) { hwloc_bitmap_andnot(t, t, f); hwloc_bitmap_or(t, t, f); }
    else { hwloc_bitmap_or(t, t, f); hwloc_bitmap_andnot(t, t, f); }
    hwloc_bitmap_free(f);
    break; }
  }
  free(str);
  if (!t) hv_fail("twin allocation failed");
  hwloc_bitmap_free(T[s]);
  T[s] = t;
  char name[32]; snprintf(name, sizeof name, "twin.route%d", route);
  vset o; observe(t, &o);
  if (!vs_isequal(&o, m))
    hv_viol(name, "twin of slot %d via route %d: observed {%s} expected {%s}", s, route, vs_str(&o, sbuf1, sizeof sbuf1), vs_str(m, sbuf2, sizeof sbuf2));
  hv_stat(name, 1);
}

#define QCHK(name, got, want, s) do { long g_ = (long)(got), w_ = (long)(want); hv_stat("q." name, 1); \
  if (g_ != w_) hv_viol("query." name, "%s on slot %d%s {%s} = %ld, model says %ld (count=%u inf=%d)", name, s, tw ? " (twin)" : "", \
                        vs_str(&M[s], sbuf1, sizeof sbuf1), g_, w_, enc_count(b), enc_inf(b)); } while (0)

static void unary_queries(int s, int tw)
{
  hwloc_const_bitmap_t b = tw ? T[s] : B[s];
  const vset *m = &M[s];
  QCHK("iszero", hwloc_bitmap_iszero(b), vs_iszero(m), s);
  QCHK("isfull", hwloc_bitmap_isfull(b), vs_isfull(m), s);
  QCHK("first", hwloc_bitmap_first(b), vs_first(m), s);
  QCHK("last", hwloc_bitmap_last(b), vs_last(m), s);
  QCHK("weight", hwloc_bitmap_weight(b), vs_weight(m), s);
  QCHK("first_unset", hwloc_bitmap_first_unset(b), vs_first_unset(m), s);
  QCHK("last_unset", hwloc_bitmap_last_unset(b), vs_last_unset(m), s);
  QCHK("nr_ulongs", hwloc_bitmap_nr_ulongs(b), vs_nr_ulongs(m), s);
  QCHK("to_ulong", hwloc_bitmap_to_ulong(b), vs_ith_ulong(m, 0), s);
  unsigned i = (unsigned)hv_below(&R, VS_W / 64 + 6);
  QCHK("to_ith_ulong", hwloc_bitmap_to_ith_ulong(b, i), vs_ith_ulong(m, i), s);
  long prev = hv_chance(&R, 1, 5) ? -1 : (long)hv_below(&R, VS_W + 200);
  QCHK("next", hwloc_bitmap_next(b, (int)prev), vs_next(m, prev), s);
  prev = hv_chance(&R, 1, 5) ? -1 : (long)hv_below(&R, VS_W + 200);
  QCHK("next_unset", hwloc_bitmap_next_unset(b, (int)prev), vs_next_unset(m, prev), s);
  unsigned id = hv_chance(&R, 1, 4) ? VS_W + (unsigned)hv_below(&R, 100000) : pick_idx();
  QCHK("isset", hwloc_bitmap_isset(b, id), vs_isset(m, id), s);
  /* to_ulongs with a small / exact / large count */
  unsigned nr = 1 + (unsigned)hv_below(&R, VS_W / 64 + 4);
  unsigned long *w = malloc(nr * sizeof *w);
  int rc = hwloc_bitmap_to_ulongs(b, nr, w);
  QCHK("to_ulongs.rc", rc, 0, s);
  for (unsigned k = 0; k < nr; k++) if (w[k] != vs_ith_ulong(m, k)) { QCHK("to_ulongs", w[k], vs_ith_ulong(m, k), s); break; }
  free(w);
  /* iteration through first/next enumerates exactly the members of finite sets */
  if (!m->tail) {
    long n = 0, id2 = hwloc_bitmap_first(b), bad = 0;
    while (id2 != -1 && n <= VS_W) { if (!vs_isset(m, (unsigned)id2)) bad = 1; n++; id2 = hwloc_bitmap_next(b, (int)id2); }
    QCHK("iterate", bad ? -1 : n, vs_weight(m), s);
  }
}

#define PCHK(name, got, want) do { long g_ = (long)(got), w_ = (long)(want); hv_stat("q." name, 1); \
  if (g_ != w_) hv_viol("query." name, "%s(%s%d {%s}, %s%d {%s}) = %ld, model says %ld (count=%u/%u inf=%d/%d)", name, \
      ta ? "twin" : "slot", a, vs_str(&M[a], sbuf1, sizeof sbuf1), tb ? "twin" : "slot", c, vs_str(&M[c], sbuf2, sizeof sbuf2), g_, w_, \
      enc_count(x), enc_count(y), enc_inf(x), enc_inf(y)); } while (0)

static void pair_queries(int a, int c)
{
  int ta = hv_chance(&R, 1, 2), tb = hv_chance(&R, 1, 2);
  hwloc_const_bitmap_t x = ta ? T[a] : B[a], y = tb ? T[c] : B[c];
  const vset *ma = &M[a], *mb = &M[c];
  PCHK("isequal", hwloc_bitmap_isequal(x, y), vs_isequal(ma, mb));
  PCHK("isincluded", hwloc_bitmap_isincluded(x, y), vs_isincluded(ma, mb));
  PCHK("intersects", hwloc_bitmap_intersects(x, y), vs_intersects(ma, mb));
  PCHK("compare", vs_sgn(hwloc_bitmap_compare(x, y)), vs_compare(ma, mb));
  PCHK("compare_first", vs_sgn(hwloc_bitmap_compare_first(x, y)), vs_compare_first(ma, mb));
  PCHK("compare_inclusion", hwloc_bitmap_compare_inclusion(x, y), vs_compare_inclusion(ma, mb));
  /* evidence: which encodings were compared */
  unsigned c1 = enc_count(x), c2 = enc_count(y);
  int i1 = enc_inf(x), i2 = enc_inf(y);
  hv_stat("pairs", 1);
  if (i1 != i2) hv_stat("pairs.finite_x_infinite", 1);
  if (c1 != c2) hv_stat("pairs.unequal_word_count", 1);
  if (c1 != c2 || i1 != i2)
    hv_distinct(1, hv_hash_u64(((uint64_t)c1 << 40) | ((uint64_t)c2 << 16) | (uint64_t)(i1 * 2 + i2) << 8 | (uint64_t)vs_compare_inclusion(ma, mb), 7));
}

static void query_round(void)
{
  for (int s = 0; s < NSLOT; s++) build_twin(s);
  for (int s = 0; s < NSLOT; s++) { unary_queries(s, 0); unary_queries(s, 1); }
  for (int a = 0; a < NSLOT; a++) for (int c = 0; c < NSLOT; c++) pair_queries(a, c);
}

enum { O_ZERO, O_FILL, O_ONLY, O_ALLBUT, O_FROM_ULONG, O_FROM_ITH, O_FROM_ULONGS, O_SET, O_SET_RANGE, O_SET_ITH, O_CLR,
       O_CLR_RANGE, O_SINGLIFY, O_COPY, O_DUP, O_OR, O_AND, O_ANDNOT, O_XOR, O_NOT, O_ALLOC, O_ALLOC_FULL, O_NOPS };
static const char *opname[] = { "zero", "fill", "only", "allbut", "from_ulong", "from_ith_ulong", "from_ulongs", "set", "set_range",
  "set_ith_ulong", "clr", "clr_range", "singlify", "copy", "dup", "or", "and", "andnot", "xor", "not", "alloc", "alloc_full" };

static void one_op(void)
{
  int op = (int)hv_below(&R, O_NOPS);
  int r = (int)hv_below(&R, NSLOT), a = (int)hv_below(&R, NSLOT), b = (int)hv_below(&R, NSLOT);
  int rc = 0;
  char tag[64];
  const char *alias = "";
  hv_stat(opname[op], 1);
  switch (op) {
  case O_ZERO: hwloc_bitmap_zero(B[r]); vs_zero(&M[r]); hv_desc("zero(%d);", r); break;
  case O_FILL: hwloc_bitmap_fill(B[r]); vs_fill(&M[r]); hv_desc("fill(%d);", r); break;
  case O_ONLY: { unsigned i = pick_idx(); rc = hwloc_bitmap_only(B[r], i); vs_zero(&M[r]); vs_set(&M[r], i); hv_desc("only(%d,%u);", r, i); break; }
  case O_ALLBUT: { unsigned i = pick_idx(); rc = hwloc_bitmap_allbut(B[r], i); vs_fill(&M[r]); vs_clr(&M[r], i); hv_desc("allbut(%d,%u);", r, i); break; }
  case O_FROM_ULONG: { unsigned long m = pick_mask(); rc = hwloc_bitmap_from_ulong(B[r], m); vs_zero(&M[r]);
    for (unsigned k = 0; k < 64; k++) if (m >> k & 1) vs_set(&M[r], k); hv_desc("from_ulong(%d,%#lx);", r, m); break; }
  case O_FROM_ITH: { unsigned long m = pick_mask(); unsigned i = (unsigned)hv_below(&R, MAXIDX / 64); rc = hwloc_bitmap_from_ith_ulong(B[r], i, m); vs_zero(&M[r]);
    for (unsigned k = 0; k < 64; k++) if (m >> k & 1) vs_set(&M[r], i * 64 + k); hv_desc("from_ith_ulong(%d,%u,%#lx);", r, i, m); break; }
  case O_FROM_ULONGS: { unsigned nr = 1 + (unsigned)hv_below(&R, MAXIDX / 64 - 1); unsigned long *w = malloc(nr * sizeof *w);
    vs_zero(&M[r]);
    for (unsigned j = 0; j < nr; j++) { w[j] = pick_mask(); for (unsigned k = 0; k < 64; k++) if (w[j] >> k & 1) vs_set(&M[r], j * 64 + k); }
    rc = hwloc_bitmap_from_ulongs(B[r], nr, w); free(w); hv_desc("from_ulongs(%d,nr=%u);", r, nr); break; }
  case O_SET: { unsigned i = pick_idx(); rc = hwloc_bitmap_set(B[r], i); vs_set(&M[r], i); hv_desc("set(%d,%u);", r, i); break; }
  case O_CLR: { unsigned i = pick_idx(); rc = hwloc_bitmap_clr(B[r], i); vs_clr(&M[r], i); hv_desc("clr(%d,%u);", r, i); break; }
  case O_SET_RANGE: case O_CLR_RANGE: {
    unsigned bg = pick_idx(); long e;
    switch (hv_below(&R, 5)) { case 0: e = -1; break; case 1: e = (long)bg; break; case 2: e = (long)bg - 1 - (long)hv_below(&R, 3); if (e < 0) e = 0; break;
      default: e = (long)pick_idx(); }
    if (op == O_SET_RANGE) { rc = hwloc_bitmap_set_range(B[r], bg, (int)e); vs_set_range(&M[r], bg, e); }
    else { rc = hwloc_bitmap_clr_range(B[r], bg, (int)e); vs_clr_range(&M[r], bg, e); }
    hv_desc("%s(%d,%u,%ld);", opname[op], r, bg, e); break; }
  case O_SET_ITH: { unsigned long m = pick_mask(); unsigned i = (unsigned)hv_below(&R, MAXIDX / 64); rc = hwloc_bitmap_set_ith_ulong(B[r], i, m);
    for (unsigned k = 0; k < 64; k++) { if (m >> k & 1) vs_set(&M[r], i * 64 + k); else vs_clr(&M[r], i * 64 + k); } hv_desc("set_ith_ulong(%d,%u,%#lx);", r, i, m); break; }
  case O_SINGLIFY: { rc = hwloc_bitmap_singlify(B[r]); long f = vs_first(&M[r]); vs_zero(&M[r]); if (f >= 0) vs_set(&M[r], (unsigned)f);
    /* singlify of a set whose first member is beyond the window cannot happen: generators keep a member below MAXIDX or tail-only sets start at <= MAXIDX */
    hv_desc("singlify(%d);", r); break; }
  case O_COPY: rc = hwloc_bitmap_copy(B[r], B[a]); M[r] = M[a]; hv_desc("copy(%d,%d);", r, a); alias = r == a ? ".self" : ""; break;
  case O_DUP: { hwloc_bitmap_t n = hwloc_bitmap_dup(B[a]); if (!n) hv_fail("dup failed"); vset t = M[a]; hwloc_bitmap_free(B[r]); B[r] = n; M[r] = t; hv_desc("dup(%d<-%d);", r, a); break; }
  case O_ALLOC: hwloc_bitmap_free(B[r]); B[r] = hwloc_bitmap_alloc(); vs_zero(&M[r]); hv_desc("alloc(%d);", r); break;
  case O_ALLOC_FULL: hwloc_bitmap_free(B[r]); B[r] = hwloc_bitmap_alloc_full(); vs_fill(&M[r]); hv_desc("alloc_full(%d);", r); break;
  case O_NOT: rc = hwloc_bitmap_not(B[r], B[a]); vs_not(&M[r], &M[a]); alias = r == a ? ".alias" : ""; hv_desc("not(%d,%d);", r, a); break;
  case O_OR: case O_AND: case O_ANDNOT: case O_XOR: {
    /* force the aliasing patterns often */
    switch (hv_below(&R, 6)) { case 0: r = a; break; case 1: r = b; break; case 2: r = a = b; break; case 3: a = b; break; default: break; }
    alias = (r == a && r == b) ? ".r=a=b" : r == a ? ".r=a" : r == b ? ".r=b" : a == b ? ".a=b" : "";
    unsigned c1 = enc_count(B[a]), c2 = enc_count(B[b]);
    int i1 = enc_inf(B[a]), i2 = enc_inf(B[b]);
    vset t;
    if (op == O_OR) { rc = hwloc_bitmap_or(B[r], B[a], B[b]); vs_or(&t, &M[a], &M[b]); }
    else if (op == O_AND) { rc = hwloc_bitmap_and(B[r], B[a], B[b]); vs_and(&t, &M[a], &M[b]); }
    else if (op == O_ANDNOT) { rc = hwloc_bitmap_andnot(B[r], B[a], B[b]); vs_andnot(&t, &M[a], &M[b]); }
    else { rc = hwloc_bitmap_xor(B[r], B[a], B[b]); vs_xor(&t, &M[a], &M[b]); }
    M[r] = t;
    hv_desc("%s(%d,%d,%d);", opname[op], r, a, b);
    if (c1 != c2 || i1 != i2)
      hv_distinct(2, hv_hash_u64(((uint64_t)op << 56) | ((uint64_t)c1 << 40) | ((uint64_t)c2 << 16) | (uint64_t)(i1 * 2 + i2) << 8 | (uint64_t)(alias[0] ? alias[3] + alias[1] : 0), 3));
    break; }
  }
  if (rc != 0) hv_viol("rc", "%s returned %d", opname[op], rc);
  snprintf(tag, sizeof tag, "op.%s%s", opname[op], alias);
  if (alias[0]) hv_stat(tag, 1);
  check_slot(tag, r);
  hv_max("max_word_count", enc_count(B[r]));
}

void hv_case(uint64_t index)
{
  hv_rng_seed(&R, HV.seed, "c03", index);
  for (int s = 0; s < NSLOT; s++) { B[s] = hv_chance(&R, 1, 4) ? hwloc_bitmap_alloc_full() : hwloc_bitmap_alloc(); if (hwloc_bitmap_isfull(B[s])) vs_fill(&M[s]); else vs_zero(&M[s]); T[s] = NULL; }
  for (int n = 0; n < OPS_PER_CASE && hv_viol_count() == 0; n++) {
    one_op();
    hv_stat("ops", 1);
    if (n % 20 == 19) query_round();
  }
  if (index < 2) hv_sample("case %llu program prefix: %.600s", (unsigned long long)index, hv_desc_get());
  for (int s = 0; s < NSLOT; s++) { hwloc_bitmap_free(B[s]); hwloc_bitmap_free(T[s]); }
  hv_leak_check();
}
