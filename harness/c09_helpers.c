/* C09: traversal and locality helpers vs. brute-force definitions over the flat view + SET model. */
#include "hv.h"
#include <ctype.h>
#include <strings.h>
#include "topo.h"
#include <limits.h>

const char *hv_property = "C09";
unsigned hv_batch = 4;
unsigned hv_cpu_limit_s = 120;
static struct hv_rng R;
static const char **corpus; static unsigned ncorpus;
static hwloc_topology_t T;
static struct tv_view V;
static unsigned NPU;
static char s1[512], s2[512];

void hv_setup(void) { ncorpus = tl_corpus(&corpus); }

#define OBJN(o, b) (snprintf(b, sizeof b, "%s L#%u(d%d)", (o) ? hwloc_obj_type_string((o)->type) : "NULL", (o) ? (o)->logical_index : 0, (o) ? (o)->depth : 0), b)
#define CHECK(cond, key, ...) do { hv_stat("q." key, 1); if (!(cond)) hv_viol(key, __VA_ARGS__); } while (0)

static struct tv_obj *E(hwloc_obj_t o) { int i = tv_view_find(&V, o); return i < 0 ? NULL : &V.v[i]; }

/* a query cpuset: bitmap + model */
static hwloc_bitmap_t gen_set(vset *m)
{
  vs_zero(m);
  unsigned cls = (unsigned)hv_below(&R, 14);
  struct tv_obj *root = &V.v[0];
  switch (cls) {
  case 0: break;                                                      /* empty */
  case 1: *m = root->cs; break;                                       /* whole topology */
  case 2: *m = root->cs; vs_set(m, 1900 + (unsigned)hv_below(&R, 50)); break;   /* not included in the root */
  case 3: vs_fill(m); break;                                          /* infinite */
  case 12: case 13: { /* bits that only exist in the complete cpuset (offline / disallowed PUs): inside complete_cpuset, not inside cpuset */
    struct tv_obj *e = &V.v[hv_below(&R, V.n)]; if (cls == 12 && e->has_sets) *m = e->cs; else if (cls == 13) *m = root->cs;
    int added = 0; for (unsigned i = 0; i < VS_W && added < 3; i++) if (VS_BIT(&root->ccs, i) && !VS_BIT(&root->cs, i) && hv_chance(&R, 1, 2)) { vs_set(m, i); added++; }
    break; }
  case 4: case 5: { /* one object's cpuset */
    struct tv_obj *e = &V.v[hv_below(&R, V.n)]; if (e->has_sets) *m = e->cs; break; }
  case 6: case 7: { /* union of 2-4 objects (straddling siblings) */
    unsigned k = 2 + (unsigned)hv_below(&R, 3);
    for (unsigned i = 0; i < k; i++) { struct tv_obj *e = &V.v[hv_below(&R, V.n)]; if (e->has_sets) vs_or(m, m, &e->cs); }
    break; }
  case 8: { /* an object minus one of its PUs */
    struct tv_obj *e = &V.v[hv_below(&R, V.n)]; if (e->has_sets) { *m = e->cs; long f = vs_first(m); if (f >= 0) vs_clr(m, (unsigned)f); } break; }
  default: /* random subset of the PUs */
    for (unsigned i = 0; i < VS_W; i++) if (VS_BIT(&root->cs, i) && hv_chance(&R, 1, cls == 9 ? 2 : 6)) vs_set(m, i);
    break;
  }
  return tv_to_bitmap(m);
}

static int is_normal_obj(const struct tv_obj *e) { return e->kind == TK_NORMAL; }

/* ---------------------------------------------------------------- covering / inside */
static void q_covering(void)
{
  vset m; hwloc_bitmap_t set = gen_set(&m);
  hwloc_obj_t got = hwloc_get_obj_covering_cpuset(T, set), want = NULL;
  if (!vs_iszero(&m) && vs_isincluded(&m, &V.v[0].cs))
    for (unsigned i = 0; i < V.n; i++) if (is_normal_obj(&V.v[i]) && vs_isincluded(&m, &V.v[i].cs) && (!want || V.v[i].o->depth > want->depth)) want = V.v[i].o;
  CHECK(got == want, "covering_cpuset", "get_obj_covering_cpuset({%s}) = %s, brute force says %s", vs_str(&m, s1, sizeof s1), OBJN(got, s2), want ? hwloc_obj_type_string(want->type) : "NULL");
  if (want && want != V.v[0].o) hv_distinct(1, hv_hash_u64(1, (uint64_t)want->depth));
  /* child covering */
  struct tv_obj *pe = &V.v[hv_below(&R, V.n)];
  if (pe->has_sets) {
    hwloc_obj_t gc = hwloc_get_child_covering_cpuset(T, set, pe->o), wc = NULL;
    if (!vs_iszero(&m)) for (hwloc_obj_t c = pe->o->first_child; c; c = c->next_sibling) { struct tv_obj *ce = E(c); if (ce && vs_isincluded(&m, &ce->cs)) { wc = c; break; } }
    CHECK(gc == wc, "child_covering_cpuset", "get_child_covering_cpuset({%s}, %s) = %s, brute force differs", vs_str(&m, s1, sizeof s1), hwloc_obj_type_string(pe->o->type), OBJN(gc, s2));
  }
  hwloc_bitmap_free(set);
}

static void q_largest(void)
{
  vset m; hwloc_bitmap_t set = gen_set(&m);
  int maxn = hv_chance(&R, 1, 4) ? (int)hv_below(&R, 4) : (int)NPU + 8;
  hwloc_obj_t *objs = calloc((size_t)maxn + 1, sizeof *objs);
  int n = hwloc_get_largest_objs_inside_cpuset(T, set, objs, maxn);
  int included = vs_isincluded(&m, &V.v[0].cs);
  if (!included) CHECK(n == -1, "largest.not_included", "set {%s} is not included in the root cpuset but largest_objs returned %d", vs_str(&m, s1, sizeof s1), n);
  else {
    CHECK(n >= 0 && n <= (maxn > 0 ? maxn : 0), "largest.count", "largest_objs({%s}, max=%d) returned %d", vs_str(&m, s1, sizeof s1), maxn, n);
    vset u; vs_zero(&u);
    for (int i = 0; i < n && i < maxn; i++) {
      struct tv_obj *e = E(objs[i]);
      if (!e || !e->has_sets) { hv_viol("largest.object", "largest_objs returned an unknown object"); break; }
      CHECK(vs_isincluded(&e->cs, &m), "largest.inside", "object %s is not inside the set {%s}", OBJN(objs[i], s2), vs_str(&m, s1, sizeof s1));
      CHECK(!vs_intersects(&u, &e->cs), "largest.disjoint", "objects returned for {%s} overlap", vs_str(&m, s1, sizeof s1));
      /* maximal: no ancestor is also inside the set */
      int maximal = 1; for (int p = e->parent; p >= 0; p = V.v[p].parent) if (V.v[p].has_sets && vs_isincluded(&V.v[p].cs, &m) && !vs_isequal(&V.v[p].cs, &e->cs)) maximal = 0;
      CHECK(maximal, "largest.maximal", "object %s returned for {%s} has an ancestor that is also inside the set", OBJN(objs[i], s2), vs_str(&m, s1, sizeof s1));
      vs_or(&u, &u, &e->cs);
    }
    if (n < maxn || maxn > (int)NPU) CHECK(vs_isequal(&u, &m), "largest.union", "objects returned for {%s} cover {%s}", vs_str(&m, s1, sizeof s1), vs_str(&u, s2, sizeof s2));
    if (n > 1) hv_distinct(1, hv_hash_u64(2, (uint64_t)n));
  }
  free(objs); hwloc_bitmap_free(set);
}

static int level_depths(int *out)
{
  int n = 0, depth = hwloc_topology_get_depth(T);
  for (int d = 0; d < depth; d++) out[n++] = d;
  out[n++] = HWLOC_TYPE_DEPTH_NUMANODE; out[n++] = HWLOC_TYPE_DEPTH_MEMCACHE;
  return n;
}

static void q_iterators(void)
{
  vset m; hwloc_bitmap_t set = gen_set(&m);
  int ds[160]; int nd = level_depths(ds);
  int d = ds[hv_below(&R, (uint64_t)nd)];
  unsigned n = hwloc_get_nbobjs_by_depth(T, d);
  hwloc_obj_t *inside = calloc(n + 1, sizeof *inside), *cover = calloc(n + 1, sizeof *cover);
  unsigned ni = 0, nc = 0;
  for (unsigned i = 0; i < n; i++) {
    hwloc_obj_t o = hwloc_get_obj_by_depth(T, d, i); struct tv_obj *e = E(o);
    if (!e) continue;
    if (!vs_iszero(&e->cs) && vs_isincluded(&e->cs, &m)) inside[ni++] = o;
    if (vs_intersects(&e->cs, &m)) cover[nc++] = o;
  }
  /* inside iterator */
  hwloc_obj_t p = NULL; unsigned k = 0; int ok = 1;
  while ((p = hwloc_get_next_obj_inside_cpuset_by_depth(T, set, d, p)) != NULL && k <= n) { if (k >= ni || inside[k] != p) ok = 0; k++; }
  CHECK(ok && k == ni, "inside_iterator", "next_obj_inside_cpuset_by_depth(depth %d, {%s}) enumerated %u objects, brute force %u (or another order)", d, vs_str(&m, s1, sizeof s1), k, ni);
  CHECK(hwloc_get_nbobjs_inside_cpuset_by_depth(T, set, d) == ni, "inside_count", "nbobjs_inside_cpuset_by_depth(depth %d) = %u, brute force %u", d, hwloc_get_nbobjs_inside_cpuset_by_depth(T, set, d), ni);
  unsigned idx = (unsigned)hv_below(&R, ni + 2);
  CHECK(hwloc_get_obj_inside_cpuset_by_depth(T, set, d, idx) == (idx < ni ? inside[idx] : NULL), "inside_index", "obj_inside_cpuset_by_depth(depth %d, idx %u) differs from brute force (%u inside)", d, idx, ni);
  if (n) {
    hwloc_obj_t o = hwloc_get_obj_by_depth(T, d, (unsigned)hv_below(&R, n)); struct tv_obj *e = E(o);
    if (e) {
      int want = -1;
      if (vs_isincluded(&e->cs, &m)) { want = 0; for (unsigned i = 0; i < ni && inside[i] != o; i++) want++; if (vs_iszero(&e->cs)) { want = 0; for (unsigned i = 0; i < ni; i++) if (inside[i]->logical_index < o->logical_index) want++; else break; if (want != (int)ni) {} } }
      if (!vs_iszero(&e->cs))
        CHECK(hwloc_get_obj_index_inside_cpuset(T, set, o) == want, "index_inside", "obj_index_inside_cpuset(%s) = %d, brute force %d", OBJN(o, s2), hwloc_get_obj_index_inside_cpuset(T, set, o), want);
    }
  }
  /* covering iterator */
  p = NULL; k = 0; ok = 1;
  while ((p = hwloc_get_next_obj_covering_cpuset_by_depth(T, set, d, p)) != NULL && k <= n) { if (k >= nc || cover[k] != p) ok = 0; k++; }
  CHECK(ok && k == nc, "covering_iterator", "next_obj_covering_cpuset_by_depth(depth %d, {%s}) enumerated %u objects, brute force %u", d, vs_str(&m, s1, sizeof s1), k, nc);
  /* by-type variants */
  hwloc_obj_type_t ty = hwloc_get_depth_type(T, d);
  int td = hwloc_get_type_depth(T, ty);
  if (td == d) {
    CHECK(hwloc_get_nbobjs_inside_cpuset_by_type(T, set, ty) == (int)ni, "inside_count_by_type", "nbobjs_inside_cpuset_by_type(%s) = %d, brute force %u", hwloc_obj_type_string(ty), hwloc_get_nbobjs_inside_cpuset_by_type(T, set, ty), ni);
    CHECK(hwloc_get_next_obj_inside_cpuset_by_type(T, set, ty, NULL) == (ni ? inside[0] : NULL), "inside_iterator_by_type", "first object of type %s inside differs", hwloc_obj_type_string(ty));
    CHECK(hwloc_get_obj_inside_cpuset_by_type(T, set, ty, idx) == (idx < ni ? inside[idx] : NULL), "inside_index_by_type", "obj_inside_cpuset_by_type(%s, %u) differs", hwloc_obj_type_string(ty), idx);
    CHECK(hwloc_get_next_obj_covering_cpuset_by_type(T, set, ty, NULL) == (nc ? cover[0] : NULL), "covering_iterator_by_type", "first object of type %s covering differs", hwloc_obj_type_string(ty));
  } else if (td == HWLOC_TYPE_DEPTH_MULTIPLE) {
    CHECK(hwloc_get_nbobjs_inside_cpuset_by_type(T, set, ty) == -1 && hwloc_get_next_obj_inside_cpuset_by_type(T, set, ty, NULL) == NULL, "by_type_multiple", "by-type iterators on a type with several levels must return -1 / NULL");
  }
  if (ni && ni < n) hv_distinct(1, hv_hash_u64(3, ((uint64_t)(d + 10) << 16) | ni));
  free(inside); free(cover); hwloc_bitmap_free(set);
}

/* ---------------------------------------------------------------- ancestors */
static hwloc_obj_t pick_normal(void) { for (int tries = 0; tries < 50; tries++) { struct tv_obj *e = &V.v[hv_below(&R, V.n)]; if (e->kind == TK_NORMAL) return e->o; } return V.v[0].o; }

static void q_ancestors(void)
{
  hwloc_obj_t a = pick_normal(), b = pick_normal();
  if (hv_chance(&R, 1, 6)) b = a;
  if (hv_chance(&R, 1, 6) && a->parent) b = a->parent;
  hwloc_obj_t got = hwloc_get_common_ancestor_obj(T, a, b), want = NULL;
  for (hwloc_obj_t x = a; x && !want; x = x->parent) for (hwloc_obj_t y = b; y; y = y->parent) if (x == y) { want = x; break; }
  CHECK(got == want, "common_ancestor", "common_ancestor(%s, %s) = %s", OBJN(a, s1), hwloc_obj_type_string(b->type), OBJN(got, s2));
  if (want && want != V.v[0].o && want != a && want != b) hv_distinct(1, hv_hash_u64(4, (uint64_t)want->depth << 16 | (uint64_t)a->depth << 8 | (uint64_t)b->depth));
  /* ancestor by depth / type */
  int d = (int)hv_below(&R, (uint64_t)hwloc_topology_get_depth(T));
  hwloc_obj_t ga = hwloc_get_ancestor_obj_by_depth(T, d, a), wa = NULL;
  for (hwloc_obj_t x = a; x; x = x->parent) if (x->depth == d) wa = x;
  /* documented: NULL when no ancestor at that depth (asymmetric trees skip levels) */
  if (wa || a->depth < d) CHECK(ga == wa, "ancestor_by_depth", "ancestor_by_depth(%d, %s) differs from the parent chain", d, OBJN(a, s1));
  else hv_stat("info.ancestor_by_depth_skipped_level", 1);
  hwloc_obj_type_t ty = hwloc_get_depth_type(T, d);
  hwloc_obj_t gt = hwloc_get_ancestor_obj_by_type(T, ty, a), wt = NULL;
  for (hwloc_obj_t x = a->parent; x; x = x->parent) if (x->type == ty) { wt = x; break; }
  CHECK(gt == wt, "ancestor_by_type", "ancestor_by_type(%s, %s) differs from the parent chain", hwloc_obj_type_string(ty), OBJN(a, s1));
  /* is_in_subtree is cpuset inclusion */
  struct tv_obj *ea = E(a), *eb = E(b);
  CHECK(!!hwloc_obj_is_in_subtree(T, a, b) == !!vs_isincluded(&ea->cs, &eb->cs), "is_in_subtree", "obj_is_in_subtree(%s, %s) disagrees with cpuset inclusion", OBJN(a, s1), hwloc_obj_type_string(b->type));
  /* next_child enumerates the four lists in order */
  hwloc_obj_t c = NULL; unsigned cnt = 0; int ok = 1;
  hwloc_obj_t expect[4] = { a->first_child, a->memory_first_child, a->io_first_child, a->misc_first_child }; int li = 0; hwloc_obj_t cur = NULL;
  while ((c = hwloc_get_next_child(T, a, c)) != NULL && cnt < 100000) {
    while (!cur && li < 4) cur = expect[li++];
    if (cur != c) { ok = 0; break; }
    cur = cur->next_sibling; cnt++;
  }
  while (!cur && li < 4) cur = expect[li++];
  CHECK(ok && !cur && cnt == a->arity + a->memory_arity + a->io_arity + a->misc_arity, "next_child", "get_next_child(%s) enumerated %u children", OBJN(a, s1), cnt);
}

static unsigned long anc_weight(const struct tv_obj *src, const struct tv_obj *o)
{
  /* weight of the cpuset of the smallest ancestor-or-self of src that includes o */
  for (int p = (int)(src - V.v); p >= 0; p = V.v[p].parent) if (V.v[p].has_sets && vs_isincluded(&o->cs, &V.v[p].cs)) return (unsigned long)vs_weight(&V.v[p].cs);
  return ~0UL;
}

static void q_closest(void)
{
  struct tv_obj *se = &V.v[hv_below(&R, V.n)];
  if (!se->has_sets) { /* I/O or Misc source: documented to return 0 */
    hwloc_obj_t tmp[4]; CHECK(hwloc_get_closest_objs(T, se->o, tmp, 4) == 0, "closest.io_source", "closest_objs on an I/O or Misc object did not return 0"); return; }
  hwloc_obj_t src = se->o;
  unsigned n = hwloc_get_nbobjs_by_depth(T, src->depth);
  unsigned maxn = hv_chance(&R, 1, 3) ? 1 + (unsigned)hv_below(&R, 4) : n + 4;
  hwloc_obj_t *objs = calloc(maxn + 1, sizeof *objs);
  hv_ctxkey("closest_objs:%s", hwloc_obj_type_string(src->type));
  unsigned got = hwloc_get_closest_objs(T, src, objs, maxn);
  hv_ctxkey("%s", "");
  /* candidates: same-depth objects whose cpuset is not included in the source's (see DESIGN 4.0) */
  unsigned cand = 0; unsigned long *dist = calloc(n + 1, sizeof *dist);
  for (unsigned i = 0; i < n; i++) { struct tv_obj *e = E(hwloc_get_obj_by_depth(T, src->depth, i)); if (e && e->o != src && !vs_isincluded(&e->cs, &se->cs)) dist[cand++] = anc_weight(se, e); }
  CHECK(got <= maxn, "closest.bound", "closest_objs returned %u > max %u", got, maxn);
  CHECK(got == (cand < maxn ? cand : maxn), "closest.count", "closest_objs(%s, max %u) returned %u, %u same-depth objects are outside the source", OBJN(src, s1), maxn, got, cand);
  unsigned long prev = 0;
  for (unsigned i = 0; i < got && i < maxn; i++) {
    struct tv_obj *e = E(objs[i]);
    if (!e) { hv_viol("closest.object", "closest_objs returned an unknown object"); break; }
    CHECK(objs[i] != src && objs[i]->depth == src->depth, "closest.same_depth", "closest_objs(%s) returned %s", OBJN(src, s1), OBJN(objs[i], s2));
    for (unsigned j = 0; j < i; j++) if (objs[j] == objs[i]) { hv_viol("closest.duplicate", "closest_objs(%s) returned %s twice", OBJN(src, s1), OBJN(objs[i], s2)); break; }
    unsigned long dw = anc_weight(se, e);
    CHECK(dw >= prev, "closest.order", "closest_objs(%s): result %u is closer (common ancestor of %lu PUs) than result %u (%lu PUs)", OBJN(src, s1), i, dw, i ? i - 1 : 0, prev);
    prev = dw;
  }
  /* nothing strictly closer than the last returned object is missing */
  if (got == maxn && got) { unsigned closer = 0; for (unsigned i = 0; i < cand; i++) if (dist[i] < prev) closer++; CHECK(closer <= got, "closest.complete", "closest_objs(%s, max %u) stops at distance %lu but %u objects are closer", OBJN(src, s1), maxn, prev, closer); }
  if (got > 1) hv_distinct(1, hv_hash_u64(5, (uint64_t)(src->depth + 10) << 16 | got));
  free(objs); free(dist);
}

/* ---------------------------------------------------------------- cpuset <-> nodeset, locality */
static void q_convert(void)
{
  vset m, want, got; hwloc_bitmap_t set = gen_set(&m);
  hwloc_bitmap_t ns = hwloc_bitmap_alloc();
  CHECK(hwloc_cpuset_to_nodeset(T, set, ns) == 0, "to_nodeset.rc", "cpuset_to_nodeset failed");
  vs_zero(&want);
  for (unsigned i = 0; i < V.n; i++) if (V.v[i].o->type == HWLOC_OBJ_NUMANODE && vs_intersects(&V.v[i].cs, &m)) vs_set(&want, V.v[i].o->os_index);
  tv_observe(ns, &got);
  CHECK(vs_isequal(&got, &want), "to_nodeset", "cpuset_to_nodeset({%s}) = {%s}", vs_str(&m, s1, sizeof s1), vs_str(&got, s2, sizeof s2));
  /* nodeset -> cpuset */
  vset nm; vs_zero(&nm);
  unsigned cls = (unsigned)hv_below(&R, 4);
  if (cls == 0) vs_fill(&nm); else if (cls == 1) nm = V.v[0].ns; else for (unsigned i = 0; i < V.n; i++) if (V.v[i].o->type == HWLOC_OBJ_NUMANODE && hv_chance(&R, 1, 2)) vs_set(&nm, V.v[i].o->os_index);
  if (cls == 3) vs_set(&nm, 1950);
  hwloc_bitmap_t nsb = tv_to_bitmap(&nm), cs = hwloc_bitmap_alloc();
  CHECK(hwloc_cpuset_from_nodeset(T, cs, nsb) == 0, "from_nodeset.rc", "cpuset_from_nodeset failed");
  vs_zero(&want);
  for (unsigned i = 0; i < V.n; i++) if (V.v[i].o->type == HWLOC_OBJ_NUMANODE && vs_isset(&nm, V.v[i].o->os_index)) vs_or(&want, &want, &V.v[i].cs);
  tv_observe(cs, &got);
  CHECK(vs_isequal(&got, &want), "from_nodeset", "cpuset_from_nodeset({%s}) = {%s}", vs_str(&nm, s1, sizeof s1), vs_str(&got, s2, sizeof s2));
  if (!vs_iszero(&want) && !vs_isequal(&want, &V.v[0].cs)) hv_distinct(1, hv_hash_u64(6, vs_hash(&want) & 0xff));
  hwloc_bitmap_free(set); hwloc_bitmap_free(ns); hwloc_bitmap_free(nsb); hwloc_bitmap_free(cs);
}

static void q_same_locality(void)
{
  struct tv_obj *se = &V.v[hv_below(&R, V.n)];
  hwloc_obj_type_t ty = (hwloc_obj_type_t)hv_below(&R, HWLOC_OBJ_TYPE_MAX);
  errno = 0;
  hwloc_obj_t got = hwloc_get_obj_with_same_locality(T, se->o, ty, NULL, NULL, 0);
  if (se->has_sets && (tk_kind(ty) == TK_NORMAL || tk_kind(ty) == TK_MEMORY)) {
    if (got) {
      struct tv_obj *ge = E(got);
      CHECK(ge && got->type == ty && vs_isequal(&ge->cs, &se->cs) && vs_isequal(&ge->ns, &se->ns), "same_locality.equal_sets", "same_locality(%s, %s) returned %s with other sets or type", OBJN(se->o, s1), hwloc_obj_type_string(ty), OBJN(got, s2));
    }
    int td = hwloc_get_type_depth(T, ty);
    if (td != HWLOC_TYPE_DEPTH_MULTIPLE && td != HWLOC_TYPE_DEPTH_UNKNOWN) {
      hwloc_obj_t want = NULL;
      for (unsigned i = 0, n = hwloc_get_nbobjs_by_depth(T, td); i < n && !want; i++) { struct tv_obj *e = E(hwloc_get_obj_by_depth(T, td, i)); if (e && vs_isequal(&e->cs, &se->cs) && vs_isequal(&e->ns, &se->ns)) want = e->o; }
      CHECK(got == want, "same_locality.found", "same_locality(%s, %s) = %s, brute force %s", OBJN(se->o, s1), hwloc_obj_type_string(ty), got ? "an object" : "NULL", want ? "finds one" : "finds none");
      if (want && want != se->o) hv_distinct(1, hv_hash_u64(7, (uint64_t)ty << 8 | (uint64_t)se->o->type));
    }
  } else if (se->has_sets || tk_kind(se->o->type) == TK_MISC) {
    CHECK(got == NULL, "same_locality.incompatible", "same_locality(%s -> %s) must be NULL", hwloc_obj_type_string(se->o->type), hwloc_obj_type_string(ty));
  } else if (got) { /* I/O source: PCI/OS device of the same PCI device */
    CHECK(got->type == ty && (ty == HWLOC_OBJ_PCI_DEVICE || ty == HWLOC_OBJ_OS_DEVICE), "same_locality.io_type", "same_locality on I/O returned a %s for %s", hwloc_obj_type_string(got->type), hwloc_obj_type_string(ty));
  }
  CHECK(hwloc_get_obj_with_same_locality(T, se->o, ty, NULL, NULL, 1UL << hv_below(&R, 8)) == NULL, "same_locality.flags", "non-zero flags accepted");
  /* subtype / name-prefix filters (case-insensitive; "the first one is returned"), on normal and memory objects */
  if (se->has_sets && (tk_kind(ty) == TK_NORMAL || tk_kind(ty) == TK_MEMORY)) {
    int td = hwloc_get_type_depth(T, ty);
    if (td != HWLOC_TYPE_DEPTH_MULTIPLE && td != HWLOC_TYPE_DEPTH_UNKNOWN) {
      static const char *const SUBS[] = { "HBM", "hbm", "DRAM", "Nope" }, *const PFX[] = { "dev", "DEV1", "Dev12", "x", "" };
      const char *sub = hv_chance(&R, 1, 2) ? SUBS[hv_below(&R, 4)] : NULL, *pfx = hv_chance(&R, 1, 2) ? PFX[hv_below(&R, 5)] : NULL;
      hwloc_obj_t want = NULL;
      for (unsigned i = 0, n = hwloc_get_nbobjs_by_depth(T, td); i < n && !want; i++) { hwloc_obj_t o = hwloc_get_obj_by_depth(T, td, i); struct tv_obj *e = E(o);
        if (!e || !vs_isequal(&e->cs, &se->cs) || !vs_isequal(&e->ns, &se->ns)) continue;
        if (sub && (!o->subtype || strcasecmp(sub, o->subtype))) continue;
        if (pfx && (!o->name || strncasecmp(pfx, o->name, strlen(pfx)))) continue;
        want = o; }
      hwloc_obj_t g2 = hwloc_get_obj_with_same_locality(T, se->o, ty, sub, pfx, 0);
      CHECK(g2 == want, "same_locality.filtered", "same_locality(%s, %s, subtype %s, nameprefix %s) = %s, brute force %s", OBJN(se->o, s1), hwloc_obj_type_string(ty), sub ? sub : "NULL", pfx ? pfx : "NULL", g2 ? OBJN(g2, s2) : "NULL", want ? "finds another or one" : "finds none");
      if (want && (sub || pfx)) hv_stat("same_locality.filtered_matches", 1);
    }
  }
  /* I/O sources: an OS device or PCI device converts to the PCI device holding it, or to the first matching OS device directly below that PCI device */
  if (!se->has_sets && (se->o->type == HWLOC_OBJ_OS_DEVICE || se->o->type == HWLOC_OBJ_PCI_DEVICE) && (ty == HWLOC_OBJ_OS_DEVICE || ty == HWLOC_OBJ_PCI_DEVICE)) {
    hwloc_obj_t pci = se->o; while (pci && pci->type == HWLOC_OBJ_OS_DEVICE) pci = pci->parent;
    const char *pfx = NULL; hwloc_obj_t want = NULL;
    if (pci && pci->type == HWLOC_OBJ_PCI_DEVICE) {
      hwloc_obj_t first_os = NULL; for (hwloc_obj_t c = pci->io_first_child; c; c = c->next_sibling) if (c->type == HWLOC_OBJ_OS_DEVICE && c->name && c->name[0]) { if (!first_os || hv_chance(&R, 1, 3)) first_os = c; }
      static char pb[64]; if (first_os && hv_chance(&R, 1, 2)) { size_t l = strlen(first_os->name); if (l > 3) l = 3; snprintf(pb, sizeof pb, "%.*s", (int)l, first_os->name); for (char *q = pb; *q; q++) if (hv_chance(&R, 1, 2)) *q = (char)toupper((unsigned char)*q); pfx = pb; }
      if (ty == HWLOC_OBJ_PCI_DEVICE) { if (!pfx || (pci->name && !strncasecmp(pfx, pci->name, strlen(pfx)))) want = pci; }
      else for (hwloc_obj_t c = pci->io_first_child; c && !want; c = c->next_sibling) if (c->type == HWLOC_OBJ_OS_DEVICE && (!pfx || (c->name && !strncasecmp(pfx, c->name, strlen(pfx))))) want = c;
    }
    hwloc_obj_t g3 = hwloc_get_obj_with_same_locality(T, se->o, ty, NULL, pfx, 0);
    /* an OS device that is not held by a PCI device (attached to a normal object or a bridge): the documentation only speaks of devices
     * "within a given PCI device"; converting such a source to a PCI device must give NULL, converting it to an OS device is not judged */
    if (!(pci && pci->type == HWLOC_OBJ_PCI_DEVICE) && ty == HWLOC_OBJ_OS_DEVICE) { hv_stat("same_locality.io_not_in_pci_not_judged", 1); return; }
    CHECK(g3 == want, "same_locality.io", "same_locality(%s -> %s, nameprefix %s) = %s, the PCI device holding the source gives %s", OBJN(se->o, s1), hwloc_obj_type_string(ty), pfx ? pfx : "NULL", g3 ? OBJN(g3, s2) : "NULL", want ? "another or one object" : "none");
    hv_stat("same_locality.io_queries", 1);
  }
}

/* ---------------------------------------------------------------- type/depth lookups */
static void q_lookups(void)
{
  int depth = hwloc_topology_get_depth(T);
  for (int d = 0; d < depth; d++) {
    hwloc_obj_type_t ty = hwloc_get_depth_type(T, d);
    int td = hwloc_get_type_depth(T, ty);
    CHECK(td == d || td == HWLOC_TYPE_DEPTH_MULTIPLE, "type_depth_inverse", "get_type_depth(get_depth_type(%d)) = %d", d, td);
    unsigned n = hwloc_get_nbobjs_by_depth(T, d), k = 0; hwloc_obj_t p = NULL; int ok = 1;
    while ((p = hwloc_get_next_obj_by_depth(T, d, p)) != NULL && k <= n) { if (p != hwloc_get_obj_by_depth(T, d, k)) ok = 0; k++; }
    CHECK(ok && k == n, "next_obj_by_depth", "get_next_obj_by_depth(%d) enumerated %u of %u objects", d, k, n);
    if (td == d) {
      CHECK(hwloc_get_nbobjs_by_type(T, ty) == (int)n, "nbobjs_by_type", "get_nbobjs_by_type(%s) = %d, level has %u", hwloc_obj_type_string(ty), hwloc_get_nbobjs_by_type(T, ty), n);
      unsigned i = (unsigned)hv_below(&R, n + 1);
      CHECK(hwloc_get_obj_by_type(T, ty, i) == hwloc_get_obj_by_depth(T, d, i), "obj_by_type", "get_obj_by_type(%s,%u) != get_obj_by_depth(%d,%u)", hwloc_obj_type_string(ty), i, d, i);
      CHECK(hwloc_get_type_or_below_depth(T, ty) == d && hwloc_get_type_or_above_depth(T, ty) == d, "type_or_below_above", "get_type_or_below/above_depth(%s) != its depth %d", hwloc_obj_type_string(ty), d);
    } else CHECK(hwloc_get_nbobjs_by_type(T, ty) == -1, "nbobjs_by_type_multiple", "get_nbobjs_by_type(%s) with several levels must be -1", hwloc_obj_type_string(ty));
  }
  for (int ty = 0; ty < HWLOC_OBJ_TYPE_MAX; ty++) {
    int td = hwloc_get_type_depth(T, (hwloc_obj_type_t)ty);
    if (td == HWLOC_TYPE_DEPTH_UNKNOWN) {
      CHECK(hwloc_get_nbobjs_by_type(T, (hwloc_obj_type_t)ty) == 0 && hwloc_get_obj_by_type(T, (hwloc_obj_type_t)ty, 0) == NULL, "absent_type", "absent type %s has objects", hwloc_obj_type_string((hwloc_obj_type_t)ty));
      if (tk_kind((hwloc_obj_type_t)ty) == TK_NORMAL && ty != HWLOC_OBJ_GROUP) {
        /* documented: depth of the first present level typically found inside (below) / containing (above) the type */
        int below = hwloc_get_type_or_below_depth(T, (hwloc_obj_type_t)ty), above = hwloc_get_type_or_above_depth(T, (hwloc_obj_type_t)ty);
        int wb = -1, wa = -1;
        for (int d = 0; d < depth; d++) { int c = hwloc_compare_types(hwloc_get_depth_type(T, d), (hwloc_obj_type_t)ty); if (c != HWLOC_TYPE_UNORDERED && c > 0 && wb < 0) wb = d; if (c != HWLOC_TYPE_UNORDERED && c < 0) wa = d; }
        /* Groups are unordered with everything: only assert when the neighbouring levels are comparable */
        if (wb > 0 && wa == wb - 1) CHECK(below == wb && above == wa, "type_or_below_above_absent", "absent %s: or_below=%d or_above=%d, expected %d/%d", hwloc_obj_type_string((hwloc_obj_type_t)ty), below, above, wb, wa);
      }
    }
  }
  /* os_index lookups */
  unsigned os = hv_chance(&R, 1, 4) ? 1990 : (unsigned)hv_below(&R, NPU + 4);
  hwloc_obj_t want = NULL; for (unsigned i = 0; i < V.n; i++) if (V.v[i].o->type == HWLOC_OBJ_PU && V.v[i].o->os_index == os) want = V.v[i].o;
  CHECK(hwloc_get_pu_obj_by_os_index(T, os) == want, "pu_by_os_index", "get_pu_obj_by_os_index(%u) differs from a scan", os);
  want = NULL; for (unsigned i = 0; i < V.n; i++) if (V.v[i].o->type == HWLOC_OBJ_NUMANODE && V.v[i].o->os_index == os) want = V.v[i].o;
  CHECK(hwloc_get_numanode_obj_by_os_index(T, os) == want, "numanode_by_os_index", "get_numanode_obj_by_os_index(%u) differs from a scan", os);
}

/* ---------------------------------------------------------------- distrib, singlify_per_core */
static void q_distrib(void)
{
  hwloc_obj_t roots[16]; unsigned nr = 0;
  int depth = hwloc_topology_get_depth(T);
  unsigned mode = (unsigned)hv_below(&R, 5);
  int disjoint_roots = 1;
  if (mode <= 1) roots[nr++] = V.v[0].o;
  else if (mode == 2) { /* consecutive objects of one level */
    int d = (int)hv_below(&R, (uint64_t)depth); unsigned n = hwloc_get_nbobjs_by_depth(T, d), first = (unsigned)hv_below(&R, n), cnt = 1 + (unsigned)hv_below(&R, 6);
    for (unsigned i = first; i < n && nr < cnt && nr < 16; i++) roots[nr++] = hwloc_get_obj_by_depth(T, d, i);
  } else if (mode == 3) { /* NUMA nodes as roots (memory objects walk up to their normal parent) */
    unsigned n = hwloc_get_nbobjs_by_depth(T, HWLOC_TYPE_DEPTH_NUMANODE);
    for (unsigned i = 0; i < n && nr < 4; i++) if (hv_chance(&R, 1, 2)) roots[nr++] = hwloc_get_obj_by_depth(T, HWLOC_TYPE_DEPTH_NUMANODE, i);
    if (!nr) roots[nr++] = hwloc_get_obj_by_depth(T, HWLOC_TYPE_DEPTH_NUMANODE, 0);
    disjoint_roots = 0;
  } else { /* arbitrary objects with cpusets, possibly overlapping */
    unsigned cnt = 1 + (unsigned)hv_below(&R, 4);
    for (unsigned tries = 0; tries < 40 && nr < cnt; tries++) { struct tv_obj *e = &V.v[hv_below(&R, V.n)]; if (e->has_sets) roots[nr++] = e->o; }
    if (!nr) roots[nr++] = V.v[0].o;
    disjoint_roots = 0;
  }
  vset u; vs_zero(&u); unsigned long totw = 0;
  for (unsigned i = 0; i < nr; i++) { struct tv_obj *e = E(roots[i]); for (unsigned j = 0; j < i; j++) if (vs_intersects(&e->cs, &E(roots[j])->cs)) disjoint_roots = 0; vs_or(&u, &u, &e->cs); totw += (unsigned long)vs_weight(&e->cs); }
  if (!totw) { hv_stat("distrib.skipped_cpuless_roots", 1); return; }
  unsigned long upus = (unsigned long)vs_weight(&u);
  unsigned n = hv_chance(&R, 1, 3) ? 1 + (unsigned)hv_below(&R, upus) : 1 + (unsigned)hv_below(&R, 2 * upus + 2);
  int until = hv_chance(&R, 1, 2) ? INT_MAX : (int)hv_below(&R, (uint64_t)depth + 1);
  unsigned long flags = hv_chance(&R, 1, 3) ? HWLOC_DISTRIB_FLAG_REVERSE : 0;
  hwloc_bitmap_t *sets = calloc(n + 1, sizeof *sets);
  hv_ctxkey("distrib:n=%u until=%d flags=%lu roots=%u", n, until, flags, nr);
  int rc = hwloc_distrib(T, roots, nr, sets, n, until, flags);
  hv_ctxkey("%s", "");
  CHECK(rc == 0, "distrib.rc", "hwloc_distrib(n=%u, until=%d, flags=%lu, %u roots) returned %d", n, until, flags, nr, rc);
  if (rc == 0) {
    vset got; vs_zero(&got); int disj = 1, allset = 1;
    for (unsigned i = 0; i < n; i++) {
      if (!sets[i]) { allset = 0; continue; }
      vset m; tv_observe(sets[i], &m);
      CHECK(!vs_iszero(&m), "distrib.nonempty", "set %u of %u is empty (until=%d, %u roots)", i, n, until, nr);
      CHECK(vs_isincluded(&m, &u), "distrib.inside_roots", "set %u {%s} is not inside the roots {%s}", i, vs_str(&m, s1, sizeof s1), vs_str(&u, s2, sizeof s2));
      if (vs_intersects(&got, &m)) disj = 0;
      vs_or(&got, &got, &m);
    }
    CHECK(allset, "distrib.count", "fewer than n=%u sets were filled (until=%d, %u roots)", n, until, nr);
    CHECK(vs_isequal(&got, &u), "distrib.union", "union of the %u sets {%s} != roots {%s}", n, vs_str(&got, s1, sizeof s1), vs_str(&u, s2, sizeof s2));
    if (disjoint_roots && n <= upus && until >= depth - 1)
      CHECK(disj, "distrib.disjoint", "n=%u <= %lu PUs below disjoint roots, until=%d, but the sets overlap", n, upus, until);
    if (n > 1 && nr >= 1) hv_distinct(1, hv_hash_u64(8, (uint64_t)(n > 64 ? 64 : n) << 24 | (uint64_t)(until == INT_MAX ? 99 : until) << 16 | flags << 8 | nr));
  }
  for (unsigned i = 0; i < n; i++) hwloc_bitmap_free(sets[i]);
  /* argument validation */
  errno = 0;
  CHECK(hwloc_distrib(T, roots, nr, sets, 0, until, 0) == -1 && errno == EINVAL, "distrib.n0", "n=0 must fail with EINVAL");
  errno = 0;
  CHECK(hwloc_distrib(T, roots, nr, sets, 1, until, 2UL << hv_below(&R, 6)) == -1 && errno == EINVAL, "distrib.flags", "unknown flags must fail with EINVAL");
  free(sets);
}

static void q_singlify_per_core(void)
{
  vset m, want, got; hwloc_bitmap_t set = gen_set(&m);
  unsigned which = (unsigned)hv_below(&R, 4);
  want = m;
  for (unsigned i = 0; i < V.n; i++) {
    if (V.v[i].o->type != HWLOC_OBJ_CORE) continue;
    vset in; vs_and(&in, &V.v[i].cs, &m);
    if (vs_iszero(&in)) continue;
    vs_andnot(&want, &want, &V.v[i].cs);
    unsigned k = 0; for (unsigned b = 0; b < VS_W; b++) if (VS_BIT(&in, b)) { if (k == which) { vs_set(&want, b); break; } k++; }
  }
  CHECK(hwloc_bitmap_singlify_per_core(T, set, which) == 0, "singlify_per_core.rc", "returned non-zero");
  tv_observe(set, &got);
  CHECK(vs_isequal(&got, &want), "singlify_per_core", "singlify_per_core({%s}, %u) = {%s}", vs_str(&m, s1, sizeof s1), which, vs_str(&got, s2, sizeof s2));
  if (!vs_isequal(&want, &m)) hv_distinct(1, hv_hash_u64(9, (uint64_t)which << 8 | (uint64_t)(vs_weight(&m) & 0xff)));
  hwloc_bitmap_free(set);
}

void hv_case(uint64_t index)
{
  hv_rng_seed(&R, HV.seed, "c09", index);
  struct tg_config c; tg_config_random(&R, &c, 0);
  c.flags &= (HWLOC_TOPOLOGY_FLAG_INCLUDE_DISALLOWED | HWLOC_TOPOLOGY_FLAG_NO_DISTANCES | HWLOC_TOPOLOGY_FLAG_NO_MEMATTRS | HWLOC_TOPOLOGY_FLAG_NO_CPUKINDS);
  struct hv_str cs; hv_str_init(&cs); tg_config_str(&c, &cs);
  int stage;
  T = NULL;
  if (index % 4 == 3 && ncorpus) {
    const char *path = corpus[(index / 4) % ncorpus];
    hv_desc("xml %s config %s\n", path, cs.s);
    T = tl_load_xmlfile(path, &c, &stage);
  } else {
    struct tg_synth_opts o; tg_synth_opts_default(&o); o.max_pus = index % 4 == 0 ? 32 : 96;
    struct hv_str d; hv_str_init(&d); tg_synth_random(&R, &o, &d);
    hv_desc("synthetic \"%s\" config %s\n", d.s, cs.s);
    T = tl_load_synthetic(d.s, &c, &stage);
    hv_str_free(&d);
  }
  hv_str_free(&cs);
  if (!T) { hv_stat("load_failed", 1); return; }
  /* derive asymmetric / CPU-less shapes with restricts */
  unsigned nres = (unsigned)hv_below(&R, 3);
  for (unsigned k = 0; k < nres; k++) {
    hwloc_bitmap_t s = hwloc_bitmap_dup(hwloc_topology_get_topology_cpuset(T));
    int id; unsigned kept = 0;
    for (id = hwloc_bitmap_first(s); id >= 0; id = hwloc_bitmap_next(s, id)) if (hv_chance(&R, 1, 4)) hwloc_bitmap_clr(s, (unsigned)id); else kept++;
    unsigned long rf = hv_chance(&R, 1, 2) ? 0 : HWLOC_RESTRICT_FLAG_REMOVE_CPULESS;
    if (kept && hwloc_topology_restrict(T, s, rf) == 0) { hv_desc("restrict(flags %#lx) applied\n", rf); hv_stat("restricts_applied", 1); }
    hwloc_bitmap_free(s);
  }
  if (wf_check(T, "precondition.") != 0) { hv_stat("skipped_not_wellformed", 1); hwloc_topology_destroy(T); return; }   /* C01/C02 territory */
  if (hwloc_bitmap_last(hwloc_topology_get_complete_cpuset(T)) >= VS_W - 64 || hwloc_bitmap_last(hwloc_topology_get_complete_nodeset(T)) >= VS_W - 64) { hv_stat("skipped_beyond_window", 1); hwloc_topology_destroy(T); return; }
  tv_view_build(T, &V, 1);
  /* subtypes and names for the filtered same-locality queries (they do not take part in any other query) */
  for (unsigned i = 0; i < V.n; i++) if (V.v[i].has_sets && hv_chance(&R, 1, 3)) { hwloc_obj_t o = V.v[i].o;
    static const char *const ST[] = { "HBM", "hBm", "DRAM", "DRAM2" }, *const NM[] = { "dev1", "Dev12-a", "DEV", "xdev", "other" };
    if (!o->subtype && hv_chance(&R, 2, 3)) hwloc_obj_set_subtype(T, o, ST[hv_below(&R, 4)]);
    if (!o->name && hv_chance(&R, 2, 3)) o->name = strdup(NM[hv_below(&R, 5)]); }
  NPU = (unsigned)hwloc_get_nbobjs_by_type(T, HWLOC_OBJ_PU);
  hv_stat("topologies", 1);
  hv_distinct(2, tv_shape_hash(T));
  unsigned rounds = HV.thorough ? 60 : 40;
  q_lookups();
  for (unsigned r = 0; r < rounds && hv_viol_count() == 0; r++) {
    q_covering(); q_largest(); q_iterators(); q_ancestors(); q_closest(); q_convert(); q_same_locality(); q_distrib(); q_singlify_per_core();
  }
  if (index < 12) hv_sample("%s -> %u objects, %u PUs, %d levels", hv_desc_get(), V.n, NPU, hwloc_topology_get_depth(T));
  tv_view_free(&V);
  hwloc_topology_destroy(T);
  hv_leak_check();
}
