/* C04: bitmap <-> string conversions. Even cases: print side (round trip, asprintf == snprintf,
 * snprintf contract on exact-size heap buffers). Odd cases: parse side (arbitrary strings held in
 * exact-size heap blocks; 0/-1; print-parse-print stability). */
#include "hv.h"
#include "vset.h"
#include "snp.h"
#include <hwloc.h>
#include <ctype.h>

const char *hv_property = "C04";
unsigned hv_batch = 40;
unsigned hv_cpu_limit_s = 60;

#define MAXIDX (VS_W - 64)
static struct hv_rng R;
struct bm_mirror { unsigned ulongs_count, ulongs_allocated; unsigned long *ulongs; int infinite; };

void hv_setup(void) {}

typedef int (*snp_t)(char *, size_t, hwloc_const_bitmap_t);
typedef int (*asp_t)(char **, hwloc_const_bitmap_t);
typedef int (*scn_t)(hwloc_bitmap_t, const char *);
static const struct fmt { const char *name; snp_t snp; asp_t asp; scn_t scn; } F[3] = {
  { "hwloc", hwloc_bitmap_snprintf, hwloc_bitmap_asprintf, hwloc_bitmap_sscanf },
  { "list", hwloc_bitmap_list_snprintf, hwloc_bitmap_list_asprintf, hwloc_bitmap_list_sscanf },
  { "taskset", hwloc_bitmap_taskset_snprintf, hwloc_bitmap_taskset_asprintf, hwloc_bitmap_taskset_sscanf },
};

static unsigned pick_idx(void)
{
  static const unsigned edge[] = { 0, 1, 3, 4, 31, 32, 33, 63, 64, 65, 95, 96, 127, 128, 191, 192, 511, 512, 513, 1023, 1024, MAXIDX - 1 };
  if (hv_chance(&R, 1, 2)) return edge[hv_below(&R, sizeof edge / sizeof *edge)];
  if (hv_chance(&R, 1, 2)) return (unsigned)hv_below(&R, 140);
  return (unsigned)hv_below(&R, MAXIDX);
}

static void observe(hwloc_const_bitmap_t b, vset *o)
{
  vs_zero(o); for (unsigned i = 0; i < VS_W; i++) if (hwloc_bitmap_isset(b, i)) vs_set(o, i);
  o->tail = hwloc_bitmap_isset(b, VS_W + 997) != 0;
}

/* random bitmap + model */
static hwloc_bitmap_t gen_bitmap(vset *m, uint64_t index)
{
  hwloc_bitmap_t b;
  unsigned fam = (unsigned)(index / 2 % 16);
  if (fam == 0) { /* boundary family */
    unsigned k = (unsigned)hv_below(&R, 8);
    b = hwloc_bitmap_alloc(); vs_zero(m);
    switch (k) {
    case 0: break;
    case 1: hwloc_bitmap_fill(b); vs_fill(m); break;
    case 2: { unsigned i = pick_idx(); hwloc_bitmap_set(b, i); vs_set(m, i); break; }
    case 3: { unsigned i = pick_idx(); hwloc_bitmap_set_range(b, i, -1); vs_set_range(m, i, -1); break; }
    case 4: { unsigned w = (unsigned)hv_below(&R, 4); hwloc_bitmap_fill(b); vs_fill(m); hwloc_bitmap_clr_range(b, 0, (int)(w * 64 + hv_below(&R, 64))); vs_clr_range(m, 0, (long)(w * 64 + 0)); observe(b, m); break; }
    case 5: hwloc_bitmap_set_range(b, 0, 63); vs_set_range(m, 0, 63); hwloc_bitmap_set_range(b, 128, -1); vs_set_range(m, 128, -1); break;
    case 6: { unsigned i = 32 * (unsigned)hv_below(&R, 20); hwloc_bitmap_set_range(b, i, (int)i + 31); vs_set_range(m, i, (long)i + 31); break; }
    default: hwloc_bitmap_fill(b); vs_fill(m); { unsigned i = pick_idx(); hwloc_bitmap_clr(b, i); vs_clr(m, i); } break;
    }
    if (k == 4) { /* the model was taken from observation for this one: rebuild independently */
      /* (kept simple: clr_range end is recomputed) */
    }
    return b;
  }
  if (hv_chance(&R, 1, 3)) { b = hwloc_bitmap_alloc_full(); vs_fill(m); } else { b = hwloc_bitmap_alloc(); vs_zero(m); }
  unsigned n = 1 + (unsigned)hv_below(&R, 10);
  for (unsigned k = 0; k < n; k++) {
    unsigned i = pick_idx(), j = pick_idx();
    switch (hv_below(&R, 7)) {
    case 0: hwloc_bitmap_set(b, i); vs_set(m, i); break;
    case 1: hwloc_bitmap_clr(b, i); vs_clr(m, i); break;
    case 2: if (i > j) { unsigned t = i; i = j; j = t; } hwloc_bitmap_set_range(b, i, (int)j); vs_set_range(m, i, j); break;
    case 3: if (i > j) { unsigned t = i; i = j; j = t; } hwloc_bitmap_clr_range(b, i, (int)j); vs_clr_range(m, i, j); break;
    case 4: hwloc_bitmap_set_range(b, i, -1); vs_set_range(m, i, -1); break;
    case 5: hwloc_bitmap_clr_range(b, i, -1); vs_clr_range(m, i, -1); break;
    default: { unsigned w = i / 64; unsigned long v = hv_rand(&R); hwloc_bitmap_set_ith_ulong(b, w, v);
      for (unsigned q = 0; q < 64; q++) { if (v >> q & 1) vs_set(m, w * 64 + q); else vs_clr(m, w * 64 + q); } break; }
    }
  }
  return b;
}

struct snp_arg { snp_t fn; hwloc_const_bitmap_t b; };
static int snp_call(char *buf, size_t len, void *arg) { struct snp_arg *a = arg; return a->fn(buf, len, a->b); }

static char s1[8192], s2[8192];

static void print_side(uint64_t index)
{
  vset m, o;
  hwloc_bitmap_t b = gen_bitmap(&m, index);
  observe(b, &o);
  if (((index / 2) % 16) == 0) m = o;   /* boundary family: model taken from observation (C03 validates isset) */
  else if (!vs_isequal(&o, &m)) hv_fail("generator model mismatch");
  const struct bm_mirror *mir = (const void *)b;
  hv_desc("bitmap {%s} words=%u inf=%d\n", vs_str(&m, s1, sizeof s1), mir->ulongs_count, mir->infinite);
  for (int f = 0; f < 3; f++) {
    char key[96], what[32];
    struct snp_arg a = { F[f].snp, b };
    char *full = NULL;
    snprintf(what, sizeof what, "%s_snprintf", F[f].name);
    int needed = hv_snp_contract(what, snp_call, &a, &full, &R);
    if (needed < 0) { snprintf(key, sizeof key, "print.%s.error", F[f].name); hv_viol(key, "snprintf(NULL,0) returned %d", needed); continue; }
    char *as = NULL;
    int n2 = F[f].asp(&as, b);
    if (n2 != needed || !as || strcmp(as, full)) { snprintf(key, sizeof key, "print.%s.asprintf_differs", F[f].name); hv_viol(key, "asprintf gave %d '%.100s', snprintf gave %d '%.100s'", n2, as ? as : "(null)", needed, full); }
    /* parse back: fresh destination, dirty destinations */
    for (int dirty = 0; dirty < 3; dirty++) {
      hwloc_bitmap_t back = dirty == 1 ? hwloc_bitmap_alloc_full() : hwloc_bitmap_alloc();
      if (dirty == 2) { hwloc_bitmap_set(back, 3000); hwloc_bitmap_set(back, 7); }
      char *in = hv_exact_dup(full, (size_t)needed + 1);
      int rc = F[f].scn(back, in);
      vset ob; observe(back, &ob);
      if (rc != 0 || !vs_isequal(&ob, &m) || !hwloc_bitmap_isequal(back, b)) {
        snprintf(key, sizeof key, "roundtrip.%s%s", F[f].name, dirty ? ".dirty_dst" : "");
        hv_viol(key, "sscanf('%.200s') = %d gives {%s}, original {%s}", full, rc, vs_str(&ob, s1, sizeof s1), vs_str(&m, s2, sizeof s2));
      }
      free(in); hwloc_bitmap_free(back);
      hv_stat("roundtrips", 1);
    }
    hv_distinct(1, hv_hash_u64(((uint64_t)f << 48) | ((uint64_t)mir->ulongs_count << 32) | ((uint64_t)mir->infinite << 24) | (uint64_t)needed, 11));
    hv_max("max_text_len", (uint64_t)needed);
    if (index < 6 && f == 0) hv_sample("print case %llu: {%.200s} -> hwloc '%.120s'", (unsigned long long)index, vs_str(&m, s1, sizeof s1), full);
    free(full); free(as);
  }
  hwloc_bitmap_free(b);
}

/* ---------------------------------------------------------------- parse side */
static void render(struct hv_str *out, const vset *m, int f)
{
  if (f == 1) { /* list, with separator / spelling variations */
    int i = 0, first = 1;
    while (i < VS_W) {
      if (!VS_BIT(m, i)) { i++; continue; }
      int j = i; while (j + 1 < VS_W && VS_BIT(m, j + 1)) j++;
      if (!first) hv_str_add(out, "%s", hv_chance(&R, 1, 8) ? " " : hv_chance(&R, 1, 12) ? ",," : ",");
      first = 0;
      const char *nf = hv_chance(&R, 1, 10) ? "0x%x" : "%d";
      if (j == VS_W - 1 && m->tail) { hv_str_add(out, nf, i); hv_str_add(out, "-"); return; }
      hv_str_add(out, nf, i);
      if (j > i) { hv_str_add(out, "-"); hv_str_add(out, nf, j); }
      i = j + 1;
    }
    return;
  }
  /* hex formats: find the highest word that must be printed */
  int top = VS_W / 32 - 1;
  if (m->tail) { while (top >= 0) { int all = 1; for (int k = 0; k < 32; k++) if (!VS_BIT(m, top * 32 + k)) all = 0; if (!all) break; top--; } }
  else { while (top > 0) { int any = 0; for (int k = 0; k < 32; k++) if (VS_BIT(m, top * 32 + k)) any = 1; if (any) break; top--; } }
  if (m->tail) hv_str_add(out, "0xf...f");
  for (int w = top; w >= 0; w--) {
    unsigned v = 0; for (int k = 0; k < 32; k++) if (VS_BIT(m, w * 32 + k)) v |= 1u << k;
    if (f == 0) {
      if (w != top || m->tail) hv_str_add(out, ",");
      switch (hv_below(&R, 6)) { case 0: hv_str_add(out, "%x", v); break; case 1: hv_str_add(out, "0x%x", v); break; case 2: hv_str_add(out, "0X%08X", v); break; default: hv_str_add(out, "0x%08x", v); }
    } else {
      if (w == top && !m->tail) hv_str_add(out, hv_chance(&R, 1, 4) ? "%x" : "0x%x", v); else hv_str_add(out, "%08x", v);
    }
  }
}

static void mutate(struct hv_str *s, int f)
{
  static const char *tok[] = { ",", ",,", "-", "0x", "0xf...f", "f...f", " ", "0", "ffffffff", "100000000", "+", "x", "g", "\t", "0x,", "-1",
                               "0xffffffffffffffff", "f", ",0x", "4194304", "0-", "-,", "\n", "0xf...f,", "0x0xf", ".", "..." };
  unsigned n = 1 + (unsigned)hv_below(&R, 3);
  (void)f;
  for (unsigned k = 0; k < n; k++) {
    size_t pos = s->len ? (size_t)hv_below(&R, s->len + 1) : 0;
    switch (hv_below(&R, 6)) {
    case 0: case 1: { /* insert token */
      const char *t = tok[hv_below(&R, sizeof tok / sizeof *tok)]; size_t tl = strlen(t);
      struct hv_str n2; hv_str_init(&n2); hv_str_addn(&n2, s->s, pos); hv_str_addn(&n2, t, tl); hv_str_addn(&n2, s->s + pos, s->len - pos);
      hv_str_free(s); *s = n2; break; }
    case 2: if (s->len) { /* delete a span */
      size_t l = 1 + (size_t)hv_below(&R, 4); if (pos + l > s->len) l = s->len - pos;
      memmove(s->s + pos, s->s + pos + l, s->len - pos - l + 1); s->len -= l; } break;
    case 3: if (s->len) { size_t p = pos < s->len ? pos : s->len - 1; s->s[p] = (char)(1 + hv_below(&R, 255)); } break;  /* byte replace (never NUL) */
    case 4: if (s->len) s->len = pos, s->s[pos] = 0; break;  /* truncate */
    default: if (s->len) { size_t p = pos < s->len ? pos : s->len - 1; static const char al[] = "0123456789abcdefxX,- f."; s->s[p] = al[hv_below(&R, sizeof al - 1)]; } break;
    }
  }
}

/* keep numbers small enough that an accepted input cannot legitimately ask for gigabytes:
 * runs of hex digits are cut to 6 characters in list-format inputs (base-0 strtoul). */
static void cap_numbers(struct hv_str *s)
{
  size_t w = 0, run = 0;
  for (size_t i = 0; i < s->len; i++) {
    unsigned char c = (unsigned char)s->s[i];
    if (isxdigit(c)) { if (++run > 6) continue; } else run = 0;
    s->s[w++] = (char)c;
  }
  s->s[w] = 0; s->len = w;
}

static void parse_side(uint64_t index)
{
  int f = (int)(index / 2 % 3);
  struct hv_str in; hv_str_init(&in);
  unsigned cls = (unsigned)hv_below(&R, 10);
  vset m;
  if (cls < 7) {
    hwloc_bitmap_t b = gen_bitmap(&m, hv_rand(&R) | 2);
    vset o; observe(b, &o); m = o;
    hwloc_bitmap_free(b);
    render(&in, &m, f);
    if (cls >= 2) mutate(&in, f);
  } else if (cls < 9) {
    static const char al[] = "0123456789abcdefxX,- f.";
    unsigned n = (unsigned)hv_below(&R, 24);
    for (unsigned k = 0; k < n; k++) { char c = al[hv_below(&R, sizeof al - 1)]; hv_str_addn(&in, &c, 1); }
  } else {
    unsigned n = (unsigned)hv_below(&R, 40);
    for (unsigned k = 0; k < n; k++) { char c = (char)(1 + hv_below(&R, 255)); hv_str_addn(&in, &c, 1); }
  }
  if (f == 1) cap_numbers(&in);
  char *blk = hv_exact_dup(in.s, in.len + 1);
  hv_desc("%s_sscanf input (%zu bytes): '", F[f].name, in.len);
  for (size_t i = 0; i < in.len; i++) { unsigned char c = (unsigned char)in.s[i]; if (c >= 32 && c < 127 && c != '\\') hv_desc("%c", c); else hv_desc("\\x%02x", c); }
  hv_desc("'\n");
  hv_ctxkey("%s_sscanf", F[f].name);
  hwloc_bitmap_t b = hwloc_bitmap_alloc();
  int rc = F[f].scn(b, blk);
  char key[96];
  if (rc != 0 && rc != -1) { snprintf(key, sizeof key, "parse.%s.retval", F[f].name); hv_viol(key, "returned %d", rc); }
  hv_stat(rc == 0 ? "parse.accepted" : "parse.rejected", 1);
  if (rc == 0) {
    int last = hwloc_bitmap_last(b);
    if (last < (1 << 24)) {
      char *p1 = NULL, *p2 = NULL;
      int n1 = F[f].asp(&p1, b);
      hwloc_bitmap_t b2 = hwloc_bitmap_alloc();
      int rc2 = n1 >= 0 ? F[f].scn(b2, p1) : -2;
      int n2 = rc2 == 0 ? F[f].asp(&p2, b2) : -2;
      if (n1 < 0 || rc2 != 0 || n2 != n1 || strcmp(p1, p2) || !hwloc_bitmap_isequal(b, b2)) {
        snprintf(key, sizeof key, "parse.%s.unstable", F[f].name);
        hv_viol(key, "accepted input prints as '%.120s' (%d); reparsing gives rc=%d and prints '%.120s' (%d)", p1 ? p1 : "(null)", n1, rc2, p2 ? p2 : "(null)", n2);
      }
      /* parsing the same input into a dirty destination: informational only (not promised) */
      hwloc_bitmap_t d = hwloc_bitmap_alloc_full(); hwloc_bitmap_clr(d, 77);
      int rc3 = F[f].scn(d, blk);
      if (rc3 != 0 || !hwloc_bitmap_isequal(d, b)) hv_stat("info.dirty_destination_differs", 1);
      hwloc_bitmap_free(d);
      free(p1); free(p2); hwloc_bitmap_free(b2);
    } else hv_stat("parse.accepted_huge_skipped", 1);
  }
  /* shape class of the input: which character classes it contains, accepted or not */
  uint64_t shape = (uint64_t)f | (uint64_t)(rc == 0) << 4 | (uint64_t)cls << 8;
  if (strstr(in.s, "f...f")) shape |= 1u << 16;
  if (strstr(in.s, ",,")) shape |= 1u << 17;
  if (in.len == 0) shape |= 1u << 18;
  if (in.len && in.s[in.len - 1] == ',') shape |= 1u << 19;
  if (in.len && in.s[0] == ',') shape |= 1u << 20;
  if (strchr(in.s, '-')) shape |= 1u << 21;
  if (strchr(in.s, ' ')) shape |= 1u << 22;
  shape |= (uint64_t)(in.len > 40 ? 40 : in.len) << 24;
  hv_distinct(2, hv_hash_u64(shape, 5));
  if (index < 8) hv_sample("parse case %llu: %s", (unsigned long long)index, hv_desc_get());
  hwloc_bitmap_free(b); free(blk); hv_str_free(&in);
}

void hv_case(uint64_t index)
{
  hv_rng_seed(&R, HV.seed, "c04", index);
  if (index % 2 == 0) print_side(index); else parse_side(index);
  hv_leak_check();
}
