/* C02: well-formedness is preserved by every history of modifying calls; documented no-op errors leave the topology
 * observably unchanged; gp_index/type/userdata of surviving objects persist. */
#include "hv.h"
#include "topo.h"
#include "hist.h"

const char *hv_property = "C02";
unsigned hv_batch = 6;
unsigned hv_cpu_limit_s = 120;
static struct hv_rng R;
static const char **corpus; static unsigned ncorpus;

void hv_setup(void) { ncorpus = tl_corpus(&corpus); }

struct track { uint64_t gp; hwloc_obj_type_t type; void *ud; };
static struct track *TR; static unsigned NTR, CAPTR;
static uintptr_t next_tag;

static int cmp_track(const void *a, const void *b) { uint64_t x = ((const struct track *)a)->gp, y = ((const struct track *)b)->gp; return x < y ? -1 : x > y; }
static struct track *find_track(uint64_t gp)
{
  unsigned lo = 0, hi = NTR;
  while (lo < hi) { unsigned mid = (lo + hi) / 2; if (TR[mid].gp < gp) lo = mid + 1; else hi = mid; }
  return lo < NTR && TR[lo].gp == gp ? &TR[lo] : NULL;
}

/* (re)build the tracking table from the current topology; tag untagged objects */
static void retag(hwloc_topology_t t, int reset)
{
  struct tv_view vw; tv_view_build(t, &vw, 0);
  if (vw.n > CAPTR) { CAPTR = vw.n * 2; TR = realloc(TR, CAPTR * sizeof *TR); }
  NTR = 0;
  for (unsigned i = 0; i < vw.n; i++) {
    hwloc_obj_t o = vw.v[i].o;
    if (reset || !o->userdata) o->userdata = (void *)(next_tag += 16);
    TR[NTR].gp = o->gp_index; TR[NTR].type = o->type; TR[NTR].ud = o->userdata; NTR++;
  }
  qsort(TR, NTR, sizeof *TR, cmp_track);
  tv_view_free(&vw);
}

/* after an operation: every surviving object keeps type and userdata; new objects come with a NULL userdata */
static void check_persistence(hwloc_topology_t t, const char *opcls)
{
  struct tv_view vw; tv_view_build(t, &vw, 0);
  char key[128]; char op[64]; snprintf(op, sizeof op, "%s", opcls); char *c = strchr(op, ':'); if (c) *c = 0; c = strchr(op, '.'); if (c) *c = 0;
  for (unsigned i = 0; i < vw.n && !hv_viol_count(); i++) {
    hwloc_obj_t o = vw.v[i].o;
    struct track *tr = find_track(o->gp_index);
    if (tr) {
      if (tr->type != o->type) { snprintf(key, sizeof key, "persist.type.after_%s", op); hv_viol(key, "object gp_index %llu changed type from %s to %s", (unsigned long long)o->gp_index, hwloc_obj_type_string(tr->type), hwloc_obj_type_string(o->type)); }
      else if (tr->ud != o->userdata) { snprintf(key, sizeof key, "persist.userdata.after_%s", op); hv_viol(key, "userdata of %s gp_index %llu changed from %p to %p", hwloc_obj_type_string(o->type), (unsigned long long)o->gp_index, tr->ud, o->userdata); }
    } else {
      hv_stat("persist.new_objects", 1);
      if (o->userdata) { snprintf(key, sizeof key, "persist.new_userdata.after_%s", op); hv_viol(key, "new %s gp_index %llu appeared with userdata %p", hwloc_obj_type_string(o->type), (unsigned long long)o->gp_index, o->userdata); }
    }
  }
  tv_view_free(&vw);
  hv_stat("persist.checks", 1);
}

static hwloc_topology_t initial_topology(uint64_t index, uint64_t *shape)
{
  struct tg_config c; tg_config_random(&R, &c, 0);
  c.flags &= (HWLOC_TOPOLOGY_FLAG_INCLUDE_DISALLOWED | HWLOC_TOPOLOGY_FLAG_NO_DISTANCES | HWLOC_TOPOLOGY_FLAG_NO_MEMATTRS | HWLOC_TOPOLOGY_FLAG_NO_CPUKINDS | HWLOC_TOPOLOGY_FLAG_IMPORT_SUPPORT);
  if (hv_chance(&R, 1, 2)) c.flags &= ~(unsigned long)(HWLOC_TOPOLOGY_FLAG_NO_DISTANCES | HWLOC_TOPOLOGY_FLAG_NO_MEMATTRS | HWLOC_TOPOLOGY_FLAG_NO_CPUKINDS);
  struct hv_str cs; hv_str_init(&cs); tg_config_str(&c, &cs);
  hwloc_topology_t t; int stage;
  if (index % 3 == 2 && ncorpus) {
    const char *path = corpus[(index / 3) % ncorpus];
    hv_desc("initial: xml %s config %s\n", path, cs.s);
    t = tl_load_xmlfile(path, &c, &stage);
    *shape = hv_hash_str(path, 5);
  } else {
    struct tg_synth_opts o; tg_synth_opts_default(&o); o.max_pus = 64;
    struct hv_str d; hv_str_init(&d); *shape = tg_synth_random(&R, &o, &d);
    hv_desc("initial: synthetic \"%s\" config %s\n", d.s, cs.s);
    t = tl_load_synthetic(d.s, &c, &stage);
    hv_str_free(&d);
  }
  hv_str_free(&cs);
  return t;
}

static hwloc_topology_t xml_carrier(hwloc_topology_t t)
{
  char *buf = NULL; int len = 0;
  if (hwloc_topology_export_xmlbuffer(t, &buf, &len, 0) < 0) return t;
  hwloc_topology_t t2; hwloc_topology_init(&t2);
  for (int ty = 0; ty < HWLOC_OBJ_TYPE_MAX; ty++) { enum hwloc_type_filter_e f; if (hwloc_topology_get_type_filter(t, (hwloc_obj_type_t)ty, &f) == 0) hwloc_topology_set_type_filter(t2, (hwloc_obj_type_t)ty, f); }
  hwloc_topology_set_flags(t2, hwloc_topology_get_flags(t));
  if (hwloc_topology_set_xmlbuffer(t2, buf, len) < 0 || hwloc_topology_load(t2) < 0) { hwloc_topology_destroy(t2); hwloc_free_xmlbuffer(t, buf); hv_stat("carrier.xml_failed", 1); return t; }
  hwloc_free_xmlbuffer(t, buf);
  hwloc_topology_destroy(t);
  hv_stat("carrier.xml", 1);
  return t2;
}

void hv_case(uint64_t index)
{
  hv_rng_seed(&R, HV.seed, "c02", index);
  uint64_t shape = 0;
  hv_ctxkey("initial_load");
  hwloc_topology_t t = initial_topology(index, &shape);
  if (!t) { hv_stat("initial_load_failed", 1); return; }
  if (hwloc_bitmap_last(hwloc_topology_get_complete_cpuset(t)) >= 1700 || hwloc_bitmap_last(hwloc_topology_get_complete_nodeset(t)) >= 1700) { hv_stat("skipped_beyond_window", 1); hwloc_topology_destroy(t); return; }
  if (wf_check(t, "initial.") != 0) { hwloc_topology_destroy(t); return; }
  next_tag = 0xA0000000u;
  retag(t, 1);
  struct hx h; hx_init(&h, t, &R);
  unsigned nops = 4 + (unsigned)hv_below(&R, HV.thorough ? 13 : 9);
  unsigned mask = HX_ALL;
  if (index % 5 == 0) mask = (1u << HX_RESTRICT) | (1u << HX_GROUP) | (1u << HX_MISC);           /* structural histories */
  if (index % 5 == 1) mask = HX_ALL & ~((1u << HX_INFO) | (1u << HX_SUBTYPE) | (1u << HX_REFRESH));
  uint64_t seq = shape; unsigned changed_ok = 0;
  struct hv_str before, after; hv_str_init(&before); hv_str_init(&after);
  for (unsigned k = 0; k < nops && !hv_viol_count(); k++) {
    struct hx_result res;
    hv_str_reset(&before);
    canon_dump(h.t, CANON_ALL & ~CANON_SUPPORT, &before);
    hx_random_op(&h, mask, &res);
    hv_desc("op %u: %s -> rc=%d errno=%d%s\n", k, res.desc, res.rc, res.rc ? res.err : 0, res.must_be_unchanged ? " [must be unchanged]" : "");
    char key[128];
    snprintf(key, sizeof key, "after_%s.", res.cls); char *c = strchr(key, ':'); if (c) { *c++ = '.'; *c = 0; }
    { char *dot = strchr(key + 6, '.'); if (dot && res.kind == HX_GROUP) dot = strchr(dot + 1, '.'); if (dot) { dot[1] = 0; } }     /* after_<op>. (after_group.c<shape>.) */
    if (wf_check(h.t, key) == 0) wf_builtin(h.t, res.cls);
    if (hv_viol_count()) break;
    hv_str_reset(&after);
    canon_dump(h.t, CANON_ALL & ~CANON_SUPPORT, &after);
    const char *df = canon_diff(&before, &after);
    if (res.must_be_unchanged && df) {
      char op[64]; snprintf(op, sizeof op, "%s", res.cls); char *d2 = strchr(op, '.'); if (d2) *d2 = 0; d2 = strchr(op, ':'); if (d2) *d2 = 0;
      snprintf(key, sizeof key, "unchanged.%s.errno%d", op, res.err);
      hv_viol(key, "%s failed (errno %d) but the topology changed: %s", res.desc, res.err, df);
    }
    if (res.must_be_unchanged) hv_stat("unchanged.checks", 1);
    check_persistence(h.t, res.cls);
    retag(h.t, 0);
    if (res.rc == 0 && df) changed_ok++;
    seq = hv_hash_str(res.cls, seq);
    if (res.fragile && res.rc == 0) { hv_stat("histories.ended_after_fragile_group_insert", 1); break; }
    /* carriers */
    if (!hv_viol_count() && hv_chance(&R, 1, 12)) {
      hwloc_topology_t t2 = NULL;
      hv_ctxkey("carrier:dup");
      if (hwloc_topology_dup(&t2, h.t) == 0) {
        hwloc_topology_destroy(h.t); h.t = t2; hv_stat("carrier.dup", 1); hv_desc("carrier: dup-and-continue\n");
        if (wf_check(h.t, "after_dup.") == 0) wf_builtin(h.t, "dup");
        check_persistence(h.t, "dup");
      }
    } else if (!hv_viol_count() && hv_chance(&R, 1, 20)) {
      hv_ctxkey("carrier:xml");
      hwloc_topology_t t2 = xml_carrier(h.t);
      if (t2 != h.t) { h.t = t2; hv_desc("carrier: xml-roundtrip-and-continue\n"); if (wf_check(h.t, "after_xml.") == 0) wf_builtin(h.t, "xml"); retag(h.t, 1); }
    }
  }
  if (!hv_viol_count()) {
    hv_stat("histories.completed", 1);
    if (changed_ok >= 2) { hv_stat("histories.nontrivial", 1); hv_distinct(1, seq); }
    if (index < 6) hv_sample("%s", hv_desc_get());
  }
  hv_str_free(&before); hv_str_free(&after);
  hv_ctxkey("destroy");
  hwloc_topology_destroy(h.t);
  hv_ctxkey("%s", "");
  hv_leak_check();
}
