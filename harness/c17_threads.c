/* C17: documented thread-safety: concurrent readers of one refreshed topology, and independent topologies per thread.
 * Runs under ThreadSanitizer (race reports are collected from the TSan log files by the driver) and compares every thread's results
 * with a single-threaded run. */
#include "hv.h"
#include "topo.h"
#include "hist.h"
#include <pthread.h>
#include <sched.h>

const char *hv_property = "C17";
unsigned hv_batch = 2;
unsigned hv_cpu_limit_s = 600;
static const char **corpus; static unsigned ncorpus;

void hv_setup(void) { ncorpus = tl_corpus(&corpus); }

static uint64_t h_str(struct hv_str *s) { return hv_hash_bytes(s->s, s->len, 0x17); }

/* ---- the consulting battery: every sub-battery yields an order-independent digest ---- */
static uint64_t b_canon(hwloc_topology_t t) { struct hv_str s; hv_str_init(&s); canon_dump(t, CANON_ALL & ~(unsigned)CANON_USERDATA, &s); uint64_t h = h_str(&s); hv_str_free(&s); return h; }
static uint64_t b_xml(hwloc_topology_t t) { char *b = NULL; int l = 0; if (hwloc_topology_export_xmlbuffer(t, &b, &l, 0) != 0) return 0xbad; uint64_t h = hv_hash_bytes(b, (size_t)l, 1); hwloc_free_xmlbuffer(t, b); return h; }
static uint64_t b_xml_v2(hwloc_topology_t t) { char *b = NULL; int l = 0; if (hwloc_topology_export_xmlbuffer(t, &b, &l, HWLOC_TOPOLOGY_EXPORT_XML_FLAG_V2) != 0) return 0xbad2; uint64_t h = hv_hash_bytes(b, (size_t)l, 2); hwloc_free_xmlbuffer(t, b); return h; }
static uint64_t b_synth(hwloc_topology_t t) { char buf[8192]; int n = hwloc_topology_export_synthetic(t, buf, sizeof buf, 0); return n < 0 ? 0xbad3 : hv_hash_bytes(buf, (size_t)n, 3); }
static uint64_t b_objects(hwloc_topology_t t)
{
  struct tv_view vw; tv_view_build(t, &vw, 1); uint64_t h = 4;
  for (unsigned i = 0; i < vw.n; i++) { hwloc_obj_t o = vw.v[i].o; char a[256], b[512];
    hwloc_obj_type_snprintf(a, sizeof a, o, HWLOC_OBJ_SNPRINTF_FLAG_LONG_NAMES); hwloc_obj_attr_snprintf(b, sizeof b, o, " ", HWLOC_OBJ_SNPRINTF_FLAG_MORE_ATTRS);
    h = hv_hash_str(a, h); h = hv_hash_str(b, h);
    if (o->cpuset) { hwloc_obj_t c = hwloc_get_obj_covering_cpuset(t, o->cpuset); h = hv_hash_u64(c ? c->gp_index : 0, h);
      hwloc_obj_t f = hwloc_get_first_largest_obj_inside_cpuset(t, o->cpuset); h = hv_hash_u64(f ? f->gp_index : 0, h);
      h = hv_hash_u64((uint64_t)hwloc_get_nbobjs_inside_cpuset_by_type(t, o->cpuset, HWLOC_OBJ_PU), h);
      h = hv_hash_u64((uint64_t)hwloc_bitmap_weight(o->cpuset) * 31 + (uint64_t)(hwloc_bitmap_first(o->cpuset) + 1), h);
      h = hv_hash_u64((uint64_t)hwloc_bitmap_isincluded(o->cpuset, hwloc_topology_get_allowed_cpuset(t)) + 2 * (uint64_t)hwloc_bitmap_intersects(o->nodeset, hwloc_topology_get_allowed_nodeset(t)), h); }
    if (i % 7 == 0 && o->cpuset) { hwloc_obj_t cl[4]; unsigned n = hwloc_get_closest_objs(t, o, cl, 4); for (unsigned k = 0; k < n; k++) h = hv_hash_u64(cl[k]->gp_index, h); }
    hwloc_obj_t anc = hwloc_get_non_io_ancestor_obj(t, o); h = hv_hash_u64(anc ? anc->gp_index : 0, h);
  }
  tv_view_free(&vw); return h;
}
static uint64_t b_side(hwloc_topology_t t)
{
  uint64_t h = 5;
  unsigned nr = 0; hwloc_distances_get(t, &nr, NULL, 0, 0);
  struct hwloc_distances_s **d = calloc(nr + 1, sizeof *d); unsigned n2 = nr; hwloc_distances_get(t, &n2, d, 0, 0);
  for (unsigned i = 0; i < n2 && i < nr; i++) { const char *nm = hwloc_distances_get_name(t, d[i]); h = hv_hash_str(nm ? nm : "-", h); h = hv_hash_u64(d[i]->kind, h);
    for (unsigned k = 0; k < d[i]->nbobjs; k++) h = hv_hash_u64(d[i]->objs[k] ? d[i]->objs[k]->gp_index : 0, h); h = hv_hash_bytes(d[i]->values, d[i]->nbobjs * d[i]->nbobjs * sizeof(uint64_t), h);
    if (nm) { unsigned one = 1; struct hwloc_distances_s *bn = NULL; if (hwloc_distances_get_by_name(t, nm, &one, &bn, 0) == 0 && one && bn) { h = hv_hash_u64(bn->nbobjs, h); hwloc_distances_release(t, bn); } }
    hwloc_distances_release(t, d[i]); }
  free(d);
  for (unsigned id = 0; ; id++) { const char *nm; if (hwloc_memattr_get_name(t, id, &nm) < 0) break; h = hv_hash_str(nm, h);
    unsigned nt = 0; hwloc_memattr_get_targets(t, id, NULL, 0, &nt, NULL, NULL); h = hv_hash_u64(nt, h);
    hwloc_obj_t tg[64]; uint64_t v[64]; unsigned n = 64; if (hwloc_memattr_get_targets(t, id, NULL, 0, &n, tg, v) == 0) for (unsigned k = 0; k < n && k < 64; k++) { h = hv_hash_u64(tg[k]->gp_index, h);
      struct hwloc_location loc[16]; uint64_t iv[16]; unsigned ni = 16; if (hwloc_memattr_get_initiators(t, id, tg[k], 0, &ni, loc, iv) == 0) for (unsigned q = 0; q < ni && q < 16; q++) { h = hv_hash_u64(iv[q], h);
        uint64_t val; if (hwloc_memattr_get_value(t, id, tg[k], &loc[q], 0, &val) == 0) h = hv_hash_u64(val, h);
        hwloc_obj_t best; if (hwloc_memattr_get_best_target(t, id, &loc[q], 0, &best, &val) == 0) h = hv_hash_u64(best->gp_index ^ val, h); } } }
  int nk = hwloc_cpukinds_get_nr(t, 0); h = hv_hash_u64((uint64_t)nk, h);
  hwloc_bitmap_t cs = hwloc_bitmap_alloc();
  for (int k = 0; k < nk; k++) { int eff; struct hwloc_infos_s *inf; if (hwloc_cpukinds_get_info(t, (unsigned)k, cs, &eff, &inf, 0) == 0) { h = hv_hash_u64((uint64_t)eff + 7, h); h = hv_hash_u64((uint64_t)hwloc_bitmap_weight(cs), h); h = hv_hash_u64((uint64_t)hwloc_cpukinds_get_by_cpuset(t, cs, 0) + 3, h); } }
  hwloc_bitmap_free(cs);
  { hwloc_bitmap_t ns = hwloc_bitmap_alloc(); hwloc_topology_get_default_nodeset(t, ns, 0); h = hv_hash_u64((uint64_t)hwloc_bitmap_weight(ns), h); hwloc_bitmap_free(ns); }
  return h;
}
static uint64_t (*const BAT[])(hwloc_topology_t) = { b_canon, b_xml, b_xml_v2, b_synth, b_objects, b_side };
#define NBAT 6
static void battery(hwloc_topology_t t, unsigned variant, uint64_t out[NBAT])
{
  for (unsigned k = 0; k < NBAT; k++) { unsigned i = (k + variant) % NBAT; out[i] = BAT[i](t); if (variant & 8) sched_yield(); }
}

/* ---- mode A: reader swarm ---- */
struct reader { pthread_t th; unsigned tid, reps; hwloc_topology_t t; uint64_t got[8][NBAT]; unsigned mismatches; unsigned first_bad; pthread_barrier_t *bar; };
static void *reader_main(void *arg)
{
  struct reader *r = arg;
  pthread_barrier_wait(r->bar);
  for (unsigned k = 0; k < r->reps && k < 8; k++) battery(r->t, r->tid * 3 + k, r->got[k]);
  return NULL;
}

/* ---- mode B: independent histories ---- */
struct hist_result { uint64_t digest; int loaded; };
static void one_history(uint64_t seed, uint64_t index, unsigned tid, struct hist_result *res, int quiet)
{
  struct hv_rng r; hv_rng_seed(&r, seed, "c17-hist", index * 64 + tid);
  struct tg_config c; tg_config_random(&r, &c, 0);
  c.flags &= (HWLOC_TOPOLOGY_FLAG_INCLUDE_DISALLOWED | HWLOC_TOPOLOGY_FLAG_NO_DISTANCES | HWLOC_TOPOLOGY_FLAG_NO_CPUKINDS | HWLOC_TOPOLOGY_FLAG_NO_MEMATTRS);
  hwloc_topology_t t = NULL; int stage; unsigned src = (unsigned)hv_below(&r, 8);
  res->digest = 0; res->loaded = 0;
  if (src < 4 || !ncorpus) { struct tg_synth_opts o; tg_synth_opts_default(&o); o.max_pus = 32; struct hv_str d; hv_str_init(&d); tg_synth_random(&r, &o, &d); t = tl_load_synthetic(d.s, &c, &stage); hv_str_free(&d); }
  else if (src < 6) t = tl_load_xmlfile(corpus[hv_below(&r, ncorpus)], &c, &stage);
  else if (src == 6) { size_t len; char *buf = tl_read_file(corpus[hv_below(&r, ncorpus)], &len); if (buf) { t = tl_load_xmlbuffer(buf, len, &c, &stage); free(buf); } }
  else { /* the running system, default components */ if (hwloc_topology_init(&t) == 0) { tg_config_apply(t, &c); if (hwloc_topology_load(t) != 0) { hwloc_topology_destroy(t); t = NULL; } } }
  if (!t) return;
  res->loaded = 1 + (int)src;
  struct hx h; hx_init(&h, t, &r); h.allow_bad_args = 1; h.no_fragile_groups = 1; h.allow_grouping = 0;
  unsigned nops = 2 + (unsigned)hv_below(&r, 6);
  for (unsigned k = 0; k < nops; k++) { struct hx_result hr; hx_random_op(&h, HX_ALL & ~(1u << HX_GROUP), &hr); if (!quiet) (void)hr; }
  hwloc_topology_refresh(t);
  uint64_t d[NBAT]; battery(t, tid, d);
  uint64_t dg = 6; for (unsigned i = 0; i < NBAT; i++) dg = hv_hash_u64(d[i], dg);
  hwloc_topology_t t2 = NULL; if (hwloc_topology_dup(&t2, t) == 0) { dg = hv_hash_u64(b_canon(t2), dg); hwloc_topology_destroy(t2); }
  hwloc_topology_destroy(t);
  res->digest = dg;
}
struct worker { pthread_t th; unsigned tid, nhist; uint64_t seed, index; struct hist_result res[8]; pthread_barrier_t *bar; };
static void *worker_main(void *arg)
{
  struct worker *w = arg;
  pthread_barrier_wait(w->bar);
  for (unsigned k = 0; k < w->nhist; k++) one_history(w->seed, w->index, w->tid * 8 + k, &w->res[k], 1);
  return NULL;
}

/* ---- mode C: registry churn. Two or three threads run many short init/load/export/destroy cycles, so that the number of live
 * topologies of the process keeps going through zero: the component registry is torn down by the thread that destroys the last
 * topology while the others are creating theirs. Every call of a cycle must succeed and give the single-threaded result. ---- */
struct churn { pthread_t th; unsigned tid, cycles, failures; int first_errno; const char *first_what; uint64_t digest; pthread_barrier_t *bar; };
static const char *const CHURN_DESC[] = { "pu:2", "numa:2 pu:2", "pack:2 core:2 pu:1", "[numa] l2:2 pu:2" };
static void churn_cycles(struct churn *c)
{
  uint64_t dg = 9;
  for (unsigned k = 0; k < c->cycles; k++) {
    hwloc_topology_t t; const char *what = NULL; int e = 0;
    errno = 0;
    if (hwloc_topology_init(&t) != 0) { what = "hwloc_topology_init"; e = errno; }
    else {
      if (hwloc_topology_set_synthetic(t, CHURN_DESC[(c->tid + k) % 4]) != 0) { what = "hwloc_topology_set_synthetic"; e = errno; }
      else if (hwloc_topology_load(t) != 0) { what = "hwloc_topology_load"; e = errno; }
      else { dg = hv_hash_u64((uint64_t)hwloc_get_nbobjs_by_type(t, HWLOC_OBJ_PU) * 64 + (uint64_t)hwloc_topology_get_depth(t), dg);
        if ((k + c->tid) % 8 == 0) { char *b = NULL; int l = 0; if (hwloc_topology_export_xmlbuffer(t, &b, &l, 0) != 0) { what = "hwloc_topology_export_xmlbuffer"; e = errno; } else { dg = hv_hash_u64((uint64_t)l, dg); hwloc_free_xmlbuffer(t, b); } } }
      hwloc_topology_destroy(t);
    }
    if (what) { if (!c->failures) { c->first_what = what; c->first_errno = e; } c->failures++; }
    if (k % 16 == c->tid) sched_yield();
  }
  c->digest = dg;
}
static void *churn_main(void *arg) { struct churn *c = arg; pthread_barrier_wait(c->bar); churn_cycles(c); return NULL; }

void hv_case(uint64_t index)
{
  struct hv_rng R; hv_rng_seed(&R, HV.seed, "c17", index);
  if (index % 8 == 7) {
    unsigned nt = 2 + (unsigned)hv_below(&R, 2), cycles = 150 + (unsigned)hv_below(&R, 150);
    pthread_barrier_t cb; pthread_barrier_init(&cb, NULL, nt);
    struct churn c[3]; hv_desc("registry churn: %u threads x %u init/load/destroy cycles\n", nt, cycles);
    hv_ctxkey("churn:threads");
    for (unsigned k = 0; k < nt; k++) { memset(&c[k], 0, sizeof c[k]); c[k].tid = k; c[k].cycles = cycles; c[k].bar = &cb; pthread_create(&c[k].th, NULL, churn_main, &c[k]); }
    for (unsigned k = 0; k < nt; k++) pthread_join(c[k].th, NULL);
    pthread_barrier_destroy(&cb);
    hv_ctxkey("churn:reference");
    for (unsigned k = 0; k < nt; k++) {
      if (c[k].failures) { hv_viol("churn.call_failed", "thread %u of %u: %u of its %u private init/load/export/destroy cycles failed, first in %s (errno %d), while other threads created and destroyed their own topologies", k, nt, c[k].failures, cycles, c[k].first_what, c[k].first_errno); break; }
      struct churn ref; memset(&ref, 0, sizeof ref); ref.tid = k; ref.cycles = cycles; churn_cycles(&ref);
      if (ref.digest != c[k].digest) { hv_viol("churn.result_differs", "thread %u of %u computed digest %llx concurrently and %llx alone", k, nt, (unsigned long long)c[k].digest, (unsigned long long)ref.digest); break; }
    }
    hv_stat("churn.groups", 1); hv_stat("churn.threads", nt); hv_stat("churn.cycles", (uint64_t)nt * cycles);
    hv_distinct(3, hv_hash_u64(index, nt * 1000 + cycles));
    hv_ctxkey("%s", "");
    return;
  }
  unsigned nt = 4 + (unsigned)hv_below(&R, 9);
  pthread_barrier_t bar; pthread_barrier_init(&bar, NULL, nt);
  if (index % 2 == 0) {
    /* ---- A: one modified + refreshed topology, nt readers ---- */
    struct tg_config c; tg_config_random(&R, &c, 0);
    c.flags &= (HWLOC_TOPOLOGY_FLAG_INCLUDE_DISALLOWED);
    c.filter[HWLOC_OBJ_MISC] = HWLOC_TYPE_FILTER_KEEP_ALL; c.filter[HWLOC_OBJ_BRIDGE] = c.filter[HWLOC_OBJ_PCI_DEVICE] = c.filter[HWLOC_OBJ_OS_DEVICE] = HWLOC_TYPE_FILTER_KEEP_ALL;
    hwloc_topology_t t; int stage;
    hv_ctxkey("readers:load");
    if (index % 6 == 2 && ncorpus) { const char *path = corpus[(index / 6) % ncorpus]; hv_desc("readers: xml %s, %u threads\n", path, nt); t = tl_load_xmlfile(path, &c, &stage); }
    else { struct tg_synth_opts o; tg_synth_opts_default(&o); o.max_pus = 48; struct hv_str d; hv_str_init(&d); tg_synth_random(&R, &o, &d); hv_desc("readers: synthetic \"%s\", %u threads\n", d.s, nt); t = tl_load_synthetic(d.s, &c, &stage); hv_str_free(&d); }
    if (!t) { hv_stat("source_load_failed", 1); return; }
    struct hx h; hx_init(&h, t, &R); h.allow_bad_args = 0; h.allow_grouping = 0; h.no_fragile_groups = 1;
    /* annotations, then restricts: they invalidate the distances / memattr object caches that refresh() must rebuild */
    unsigned na = 4 + (unsigned)hv_below(&R, 10);
    for (unsigned k = 0; k < na; k++) { struct hx_result res; hx_random_op(&h, HX_ANNOTATE | (k > na / 2 ? (1u << HX_RESTRICT) : 0), &res); hv_desc("  %s -> %d\n", res.desc, res.rc); }
    if (index % 3 == 0) {
      /* several distances structures, then one restrict that removes the objects of the first one (it becomes useless and is dropped)
       * and some objects of the following ones (they shrink): refresh() has to bring every structure up to date, not only some */
      unsigned np = (unsigned)hwloc_get_nbobjs_by_type(t, HWLOC_OBJ_PU);
      if (np >= 4 && np <= 64) {
        hwloc_obj_t objs[64]; uint64_t vals[64 * 64]; for (unsigned i = 0; i < np; i++) objs[i] = hwloc_get_obj_by_type(t, HWLOC_OBJ_PU, i);
        for (unsigned i = 0; i < np * np; i++) vals[i] = 10 + (i % np == i / np ? 0 : 1 + i % 7);
        static const char *const nm[] = { "first-two", "all-a", NULL, "all-b", "last-two" };
        for (unsigned q = 0; q < 5; q++) {
          hwloc_distances_add_handle_t hd = hwloc_distances_add_create(t, nm[q], HWLOC_DISTANCES_KIND_FROM_USER | HWLOC_DISTANCES_KIND_VALUE_LATENCY, 0);
          unsigned n = q == 0 || q == 4 ? 2 : np; hwloc_obj_t *o = q == 4 ? objs + np - 2 : objs;
          if (hd && hwloc_distances_add_values(t, hd, n, o, vals, 0) == 0 && hwloc_distances_add_commit(t, hd, 0) == 0) hv_stat("readers.directed_distances_added", 1);
        }
        hwloc_bitmap_t keep = hwloc_bitmap_alloc(); for (unsigned i = np / 2; i < np; i++) hwloc_bitmap_or(keep, keep, objs[i]->cpuset);
        int rr = hwloc_topology_restrict(t, keep, hv_chance(&R, 1, 2) ? HWLOC_RESTRICT_FLAG_REMOVE_CPULESS : 0);
        hv_desc("  5 user distances (first two PUs / all PUs x3 / last two PUs), then restrict to the second half of the PUs -> %d\n", rr);
        if (rr == 0) hv_stat("readers.directed_restrict_dropping_first_structure", 1);
        hwloc_bitmap_free(keep);
      }
    }
    hv_ctxkey("readers:refresh");
    hwloc_topology_refresh(t);
    /* the threads are the first to consult the topology after refresh(): nothing may be left for them to refill lazily.
     * The single-threaded reference is taken after they are done. */
    static struct reader rd[16]; unsigned reps = HV.tier && !strcmp(HV.tier, "thorough") ? 6 : 3;
    hv_ctxkey("readers:threads");
    for (unsigned k = 0; k < nt; k++) { memset(&rd[k], 0, sizeof rd[k]); rd[k].tid = k; rd[k].reps = reps; rd[k].t = t; rd[k].bar = &bar; pthread_create(&rd[k].th, NULL, reader_main, &rd[k]); }
    for (unsigned k = 0; k < nt; k++) pthread_join(rd[k].th, NULL);
    hv_ctxkey("readers:reference");
    uint64_t ref[NBAT]; battery(t, 0, ref);
    { uint64_t again[NBAT]; battery(t, 3, again); for (unsigned i = 0; i < NBAT; i++) if (again[i] != ref[i]) { hv_viol("readers.single_thread_unstable", "battery %u gives two different results in one thread", i); } }
    for (unsigned k = 0; k < nt; k++) for (unsigned q = 0; q < reps && q < 8; q++) for (unsigned i = 0; i < NBAT; i++) if (rd[k].got[q][i] != ref[i]) { if (!rd[k].mismatches) rd[k].first_bad = i; rd[k].mismatches++; }
    static const char *bn[] = { "canon", "xml", "xml_v2", "synthetic", "objects", "side" };
    for (unsigned k = 0; k < nt; k++) if (rd[k].mismatches) { char key[64]; snprintf(key, sizeof key, "readers.result_differs.%s", bn[rd[k].first_bad]); hv_viol(key, "reader thread %u of %u saw %u results different from the single-threaded run (first: %s battery)", k, nt, rd[k].mismatches, bn[rd[k].first_bad]); break; }
    hv_stat("readers.swarms", 1); hv_stat("readers.threads", nt); hv_stat("readers.battery_runs", (uint64_t)nt * reps * NBAT);
    unsigned feat = hx_features(t);
    if (hx_popcount(feat & (HXF_DISTANCES | HXF_MEMATTR_VALUES | HXF_CPUKINDS)) >= 2) { hv_stat("nontrivial_swarms", 1); hv_distinct(1, hv_hash_u64(feat * 16 + nt, tv_shape_hash(t))); }
    hv_ctxkey("readers:destroy");
    hwloc_topology_destroy(t);
  } else {
    /* ---- B: nt threads, each with its own init/load/modify/export/destroy histories ---- */
    struct worker w[16]; unsigned nh = 2 + (unsigned)hv_below(&R, 3);
    hv_desc("independent: %u threads x %u histories\n", nt, nh);
    hv_ctxkey("independent:threads");
    for (unsigned k = 0; k < nt; k++) { memset(&w[k], 0, sizeof w[k]); w[k].tid = k; w[k].nhist = nh; w[k].seed = HV.seed; w[k].index = index; w[k].bar = &bar; pthread_create(&w[k].th, NULL, worker_main, &w[k]); }
    for (unsigned k = 0; k < nt; k++) pthread_join(w[k].th, NULL);
    hv_ctxkey("independent:reference");
    unsigned loaded = 0, native = 0;
    for (unsigned k = 0; k < nt && !hv_viol_count(); k++) for (unsigned j = 0; j < nh; j++) {
      struct hist_result ref; one_history(HV.seed, index, k * 8 + j, &ref, 1);
      /* a load of the running system depends on the state of the machine at that moment (other processes, cgroup, frequencies): it takes part in
       * the race detection but its result is not compared */
      if (ref.loaded == 8 || w[k].res[j].loaded == 8) { if (ref.digest != w[k].res[j].digest) hv_stat("independent.native_digests_differ_not_judged", 1); }
      else if (ref.loaded != w[k].res[j].loaded || ref.digest != w[k].res[j].digest) { hv_viol("independent.result_differs", "history %u of thread %u (source kind %d) gave digest %llx concurrently and %llx alone", j, k, ref.loaded - 1, (unsigned long long)w[k].res[j].digest, (unsigned long long)ref.digest); break; }
      if (ref.loaded) loaded++; if (ref.loaded == 8) native++;
    }
    hv_stat("independent.groups", 1); hv_stat("independent.threads", nt); hv_stat("independent.histories", (uint64_t)nt * nh); hv_stat("independent.histories_loaded", loaded); hv_stat("independent.native_loads", native);
    if (loaded >= nt) { hv_stat("nontrivial_groups", 1); hv_distinct(2, hv_hash_u64(index, nt * 8 + nh)); }
  }
  pthread_barrier_destroy(&bar);
  if (index < 4) hv_sample("%s", hv_desc_get());
  hv_ctxkey("%s", "");
}
