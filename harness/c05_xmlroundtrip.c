/* C05: XML export followed by import reproduces the topology, and is a fixpoint.
 * The XML back ends are fixed per worker process through HWLOC_LIBXML_EXPORT / HWLOC_LIBXML_IMPORT. */
#include "hv.h"
#include <hwloc/memattrs.h>
#include "topo.h"
#include "hist.h"
#include <unistd.h>

const char *hv_property = "C05";
unsigned hv_batch = 6;
unsigned hv_cpu_limit_s = 120;
static struct hv_rng R;
static const char **corpus; static unsigned ncorpus;
static char tmp_path[4200];

void hv_setup(void) { ncorpus = tl_corpus(&corpus); snprintf(tmp_path, sizeof tmp_path, "%s/c05-w%d.xml", HV.outdir, HV.worker); }

/* ---------------------------------------------------------------- userdata callback log */
struct udrec { uint64_t gp; uint64_t name_hash; size_t len; uint64_t data_hash; int has_name; };
static struct udrec exp_log[4096], imp_log[4096]; static unsigned nexp, nimp;
static uint64_t ud_seed;
static uint64_t ud_first_gp; static unsigned ud_passes;   /* the built-in exporter runs the export callback twice (size pass, write pass) */
static int ud_markup;     /* plain userdata may contain '<', '&', '>' (1 case in 8: open finding, the built-in back end neither escapes nor unescapes element content) */

static void export_cb(void *reserved, hwloc_topology_t t, hwloc_obj_t o)
{
  /* deterministic per object: 1-3 entries, plain or base64, lengths 0..50 covering every residue mod 3 */
  if (!ud_passes) { ud_first_gp = o->gp_index; ud_passes = 1; } else if (o->gp_index == ud_first_gp) ud_passes++;
  struct hv_rng r; hv_rng_seed(&r, ud_seed, "ud", o->gp_index);
  unsigned n = 1 + (unsigned)hv_below(&r, 3);
  for (unsigned k = 0; k < n; k++) {
    char name[24]; unsigned char data[64];
    int named = hv_chance(&r, 3, 4), b64 = hv_chance(&r, 1, 2);
    size_t len = (size_t)hv_below(&r, 51);
    snprintf(name, sizeof name, "ud%u_%c&<", k, (char)('a' + hv_below(&r, 26)));
    for (size_t i = 0; i < len; i++) { data[i] = b64 ? (unsigned char)hv_below(&r, 256) : (unsigned char)(32 + hv_below(&r, 95)); if (!b64 && !ud_markup && (data[i] == '<' || data[i] == '&' || data[i] == '>')) data[i] = '_'; }
    int rc = b64 ? hwloc_export_obj_userdata_base64(reserved, t, o, named ? name : NULL, data, len) : hwloc_export_obj_userdata(reserved, t, o, named ? name : NULL, data, len);
    if (rc != 0) { hv_viol("userdata.export_failed", "hwloc_export_obj_userdata%s(len %zu) returned %d errno %d", b64 ? "_base64" : "", len, rc, errno); continue; }
    if (nexp < 4096) { exp_log[nexp].gp = o->gp_index; exp_log[nexp].has_name = named; exp_log[nexp].name_hash = named ? hv_hash_str(name, 1) : 0; exp_log[nexp].len = len; exp_log[nexp].data_hash = hv_hash_bytes(data, len, 2); nexp++; }
    hv_stat(b64 ? "userdata.exported_base64" : "userdata.exported_plain", 1);
  }
}
static void import_cb(hwloc_topology_t t, hwloc_obj_t o, const char *name, const void *buffer, size_t length)
{
  (void)t;
  if (nimp < 4096) { imp_log[nimp].gp = o->gp_index; imp_log[nimp].has_name = name != NULL; imp_log[nimp].name_hash = name ? hv_hash_str(name, 1) : 0; imp_log[nimp].len = length; imp_log[nimp].data_hash = hv_hash_bytes(buffer, length, 2);
    if (((const char *)buffer)[length] != 0) hv_viol("userdata.no_nul", "imported userdata buffer is not followed by a NUL byte");
    nimp++; }
}
static int cmp_ud(const void *a, const void *b) { return memcmp(a, b, sizeof(struct udrec)); }

/* ---------------------------------------------------------------- helpers */
/* without IMPORT_SUPPORT the <support> elements describe the loader (XML back end vs original back end), not the topology */
static void strip_support(char *b, int *lenp)
{
  char *w = b, *p = b;
  while (*p) {
    char *e = strchr(p, '\n'); size_t l = e ? (size_t)(e - p) + 1 : strlen(p);
    const char *q = p; while (*q == ' ') q++;
    if (strncmp(q, "<support ", 9)) { memmove(w, p, l); w += l; }
    p += l;
  }
  *w = 0; *lenp = (int)(w - b) + 1;
}

static hwloc_topology_t reload(const char *buf, int len, const char *path, hwloc_topology_t like, int with_import_cb, int *stage)
{
  hwloc_topology_t t2; hwloc_topology_init(&t2);
  hwloc_topology_set_all_types_filter(t2, HWLOC_TYPE_FILTER_KEEP_ALL);      /* Groups stay KEEP_STRUCTURE (the API refuses KEEP_ALL) */
  hwloc_topology_set_flags(t2, hwloc_topology_get_flags(like));
  if (with_import_cb) hwloc_topology_set_userdata_import_callback(t2, import_cb);
  int rc = path ? hwloc_topology_set_xml(t2, path) : hwloc_topology_set_xmlbuffer(t2, buf, len);
  if (rc < 0) { *stage = 1; hwloc_topology_destroy(t2); return NULL; }
  if (hwloc_topology_load(t2) < 0) { *stage = 3; hwloc_topology_destroy(t2); return NULL; }
  *stage = 0;
  return t2;
}

/* a normal object without any PU and without any NUMA node below it: the core removes such objects at the end of every discovery
 * (remove_empty), so a reload can never give them back. hwloc_topology_restrict() by nodeset can leave some behind (CPU-less objects that
 * only inherit memory from an ancestor); recorded as an open finding of the round trip */
static int has_empty_normal_object(hwloc_topology_t t)
{
  int td = hwloc_topology_get_depth(t);
  for (int d = 1; d < td; d++) for (hwloc_obj_t o = NULL; (o = hwloc_get_next_obj_by_depth(t, d, o)) != NULL; ) {
    if (!hwloc_bitmap_iszero(o->cpuset)) continue;
    int mem = 0; for (hwloc_obj_t n = NULL; !mem && (n = hwloc_get_next_obj_by_type(t, HWLOC_OBJ_NUMANODE, n)) != NULL; ) for (hwloc_obj_t a = n->parent; a; a = a->parent) if (a == o) { mem = 1; break; }
    if (!mem) return 1; }
  return 0;
}

/* two cpuset initiators of one (attribute, target) intersect: the importer re-adds the values one by one and a value whose cpuset is included
 * in an earlier one replaces it (the statement of C14 only covers pairwise disjoint initiators; recorded as an open finding for the round trip) */
static int overlapping_initiators(hwloc_topology_t t)
{
  for (unsigned id = 0; ; id++) {
    const char *nm; if (hwloc_memattr_get_name(t, id, &nm) < 0) return 0;
    unsigned long fl = 0; hwloc_memattr_get_flags(t, id, &fl); if (!(fl & HWLOC_MEMATTR_FLAG_NEED_INITIATOR)) continue;
    hwloc_obj_t tg[64]; unsigned nt = 64; if (hwloc_memattr_get_targets(t, id, NULL, 0, &nt, tg, NULL) != 0) continue;
    for (unsigned k = 0; k < nt && k < 64; k++) { struct hwloc_location loc[32]; unsigned ni = 32; if (hwloc_memattr_get_initiators(t, id, tg[k], 0, &ni, loc, NULL) != 0) continue;
      for (unsigned a = 0; a < ni && a < 32; a++) for (unsigned b = a + 1; b < ni && b < 32; b++) if (loc[a].type == HWLOC_LOCATION_TYPE_CPUSET && loc[b].type == HWLOC_LOCATION_TYPE_CPUSET && hwloc_bitmap_intersects(loc[a].location.cpuset, loc[b].location.cpuset)) return 1; }
  }
}

static unsigned canon_what(hwloc_topology_t t)
{
  unsigned w = (CANON_ALL | CANON_DIST_SORTED) & ~(CANON_USERDATA | CANON_CONFIG | CANON_SUPPORT);
  unsigned long fl = hwloc_topology_get_flags(t);
  if (fl & HWLOC_TOPOLOGY_FLAG_IMPORT_SUPPORT) w |= CANON_SUPPORT;
  /* NO_DISTANCES / NO_MEMATTRS / NO_CPUKINDS make the importer ignore these sections by design */
  if (fl & HWLOC_TOPOLOGY_FLAG_NO_DISTANCES) w &= ~CANON_DIST;
  if (fl & HWLOC_TOPOLOGY_FLAG_NO_MEMATTRS) w &= ~CANON_MEMATTR;
  if (fl & HWLOC_TOPOLOGY_FLAG_NO_CPUKINDS) w &= ~CANON_CPUKINDS;
  return w;
}

void hv_case(uint64_t index)
{
  hv_rng_seed(&R, HV.seed, "c05", index);
  hx_whitespace_controls = (index / 16) % 4 == 2;   /* not index % 4: workers own index classes modulo their number and each has a fixed back-end pair */
  struct tg_config c; tg_config_random(&R, &c, 0);
  c.flags &= (HWLOC_TOPOLOGY_FLAG_INCLUDE_DISALLOWED | HWLOC_TOPOLOGY_FLAG_NO_DISTANCES | HWLOC_TOPOLOGY_FLAG_NO_MEMATTRS | HWLOC_TOPOLOGY_FLAG_NO_CPUKINDS | HWLOC_TOPOLOGY_FLAG_IMPORT_SUPPORT);
  if (hv_chance(&R, 2, 3)) c.flags &= ~(unsigned long)(HWLOC_TOPOLOGY_FLAG_NO_DISTANCES | HWLOC_TOPOLOGY_FLAG_NO_MEMATTRS | HWLOC_TOPOLOGY_FLAG_NO_CPUKINDS);
  if (hv_chance(&R, 1, 2)) { c.filter[HWLOC_OBJ_MISC] = HWLOC_TYPE_FILTER_KEEP_ALL; c.filter[HWLOC_OBJ_BRIDGE] = c.filter[HWLOC_OBJ_PCI_DEVICE] = c.filter[HWLOC_OBJ_OS_DEVICE] = HWLOC_TYPE_FILTER_KEEP_ALL; c.filter[HWLOC_OBJ_MEMCACHE] = HWLOC_TYPE_FILTER_KEEP_ALL; }
  struct hv_str cs; hv_str_init(&cs); tg_config_str(&c, &cs);
  hwloc_topology_t t; int stage;
  hv_ctxkey("source_load");
  if (index % 3 == 1 && ncorpus) {
    const char *path = corpus[(index / 3) % ncorpus];
    hv_desc("source: xml %s config %s\n", path, cs.s);
    /* nothing is lost by the importer itself: with every type kept and disallowed resources included, the loaded topology has exactly
     * one object per <object> element of the document (holds for every bundled file; a dropped element would otherwise be invisible to
     * the round trip, which starts from what the importer kept) */
    if ((index / 3) / ncorpus % 4 == 0) {
      size_t flen = 0; char *ftxt = tl_read_file(path, &flen);
      hwloc_topology_t tk; hwloc_topology_init(&tk); hwloc_topology_set_all_types_filter(tk, HWLOC_TYPE_FILTER_KEEP_ALL); hwloc_topology_set_flags(tk, HWLOC_TOPOLOGY_FLAG_INCLUDE_DISALLOWED);
      hv_ctxkey("keepall_load");
      if (ftxt && hwloc_topology_set_xml(tk, path) == 0 && hwloc_topology_load(tk) == 0) {
        unsigned tags = 0; for (const char *q = ftxt; (q = strstr(q, "<object ")) != NULL; q++) tags++;
        struct tv_view vw; tv_view_build(tk, &vw, 0);
        if (vw.n != tags) hv_viol("import.objects_lost", "%s has %u <object> elements, the topology loaded with every type kept and disallowed resources included has %u objects", path, tags, vw.n);
        tv_view_free(&vw); hv_stat("import.object_counts_compared", 1);
      }
      hwloc_topology_destroy(tk); free(ftxt);
      hv_ctxkey("source_load");
    }
    t = tl_load_xmlfile(path, &c, &stage);
  } else {
    struct tg_synth_opts o; tg_synth_opts_default(&o); o.max_pus = 64;
    struct hv_str d; hv_str_init(&d); tg_synth_random(&R, &o, &d);
    hv_desc("source: synthetic \"%s\" config %s\n", d.s, cs.s);
    t = tl_load_synthetic(d.s, &c, &stage);
    hv_str_free(&d);
  }
  hv_str_free(&cs);
  if (!t) { hv_stat("source_load_failed", 1); return; }
  if (hwloc_bitmap_last(hwloc_topology_get_complete_cpuset(t)) >= 1700 || hwloc_bitmap_last(hwloc_topology_get_complete_nodeset(t)) >= 1700) { hv_stat("skipped_beyond_window", 1); hwloc_topology_destroy(t); return; }
  /* derive: sometimes a restrict (asymmetry, complete != main sets), then annotations */
  struct hx h; hx_init(&h, t, &R); h.allow_bad_args = 0; h.allow_grouping = 0;
  if (hv_chance(&R, 1, 3)) { struct hx_result res; hx_random_op(&h, 1u << HX_RESTRICT, &res); hv_desc("  derive: %s -> %d\n", res.desc, res.rc); }
  hx_annotate(&h, (unsigned)hv_below(&R, 14));
  /* userdata on a sample of objects */
  ud_seed = hv_rand(&R); nexp = nimp = 0; ud_markup = hv_chance(&R, 1, 8);
  int with_ud = hv_chance(&R, 2, 3);
  if (with_ud) {
    struct tv_view vw; tv_view_build(t, &vw, 0);
    for (unsigned i = 0; i < vw.n; i++) if (hv_chance(&R, 1, 4)) vw.v[i].o->userdata = (void *)(uintptr_t)(0x1000 + i);
    tv_view_free(&vw);
    hwloc_topology_set_userdata_export_callback(t, export_cb);
  }
  /* blind export (1/3): a restrict is the very last thing done to the source and nothing consults it (no oracle, no getter) before the
   * export, so whatever the exporter needs refreshed (distances, memory attributes, CPU kinds after a restrict) it must refresh itself */
  int blind = hv_chance(&R, 1, 3);
  if (blind) { struct hx_result res; hx_random_op(&h, 1u << HX_RESTRICT, &res); hv_desc("  blind export after: %s -> %d\n", res.desc, res.rc); hv_stat(res.rc == 0 ? "export.blind_after_restrict" : "export.blind_after_refused_restrict", 1); }
  else if (wf_check(t, "source.") != 0) { hwloc_topology_destroy(t); return; }
  unsigned feat = blind ? 0 : hx_features(t);
  char *buf = NULL; int len = 0;

  /* ---- v3 round trip, by buffer or file */
  int byfile = hv_chance(&R, 1, 3);
  hv_ctxkey("export_v3:%s", byfile ? "file" : "buffer");
  nexp = 0; ud_passes = 0;
  if (byfile) {
    if (hwloc_topology_export_xml(t, tmp_path, 0) < 0) { hv_viol("export.failed", "export_xml failed errno %d", errno); goto done; }
    size_t l; buf = tl_read_file(tmp_path, &l); len = (int)l + 1;
    if (!buf) hv_fail("cannot read back %s", tmp_path);
  } else if (hwloc_topology_export_xmlbuffer(t, &buf, &len, 0) < 0) { hv_viol("export.failed", "export_xmlbuffer failed errno %d", errno); goto done; }
  if (!byfile && (len <= 0 || buf[len - 1] != 0 || strlen(buf) != (size_t)len - 1)) hv_viol("export.length", "returned length %d does not include exactly one final NUL (strlen %zu)", len, strlen(buf));
  unsigned nexp_first = nexp;
  if (blind) { if (wf_check(t, "source.") != 0) { if (byfile) free(buf); else hwloc_free_xmlbuffer(t, buf); hwloc_topology_destroy(t); return; } feat = hx_features(t); }
  if (getenv("VERIF_DUMP_XML")) { FILE *f = fopen(getenv("VERIF_DUMP_XML"), "w"); if (f) { fwrite(buf, 1, (size_t)len - 1, f); fclose(f); } }
  hv_ctxkey("import_v3:%s", byfile ? "file" : "buffer");
  nimp = 0;
  /* give the importer an exact-size copy so that a read past the buffer is an ASan report */
  char *exact = hv_exact_dup(buf, (size_t)len);
  hwloc_topology_t t2 = reload(exact, len, byfile ? tmp_path : NULL, t, with_ud, &stage);
  if (!t2) { hv_viol(with_ud && ud_markup ? "import.failed.plain_userdata_markup" : "import.failed", "own v3 export (%d bytes, %s) is rejected at stage %d", len, byfile ? "file" : "buffer", stage); free(exact); goto done; }
  if (wf_check(t2, "reloaded.") == 0) wf_builtin(t2, "reloaded");
  struct hv_str a, b; hv_str_init(&a); hv_str_init(&b);
  canon_dump(t, canon_what(t), &a); canon_dump(t2, canon_what(t), &b);
  const char *df = canon_diff(&a, &b);
  if (df) {
    const char *what = strstr(df, "distances") ? "distances" : strstr(df, "memattr") || strstr(df, "target ") || strstr(df, "from ") ? "memattrs" : strstr(df, "cpukind") ? "cpukinds" : strstr(df, "info ") ? "infos" : strstr(df, "support") ? "support" : "tree";
    if (!strcmp(what, "tree")) {
      struct hv_str a2, b2; hv_str_init(&a2); hv_str_init(&b2);
      canon_dump(t, canon_what(t) | CANON_NO_MEM_CCS, &a2); canon_dump(t2, canon_what(t) | CANON_NO_MEM_CCS, &b2);
      if (!canon_diff(&a2, &b2)) what = "memory_child_complete_cpuset";
      hv_str_free(&a2); hv_str_free(&b2);
    }
    char key[128]; snprintf(key, sizeof key, "roundtrip.differs.%s%s", what, !strcmp(what, "memattrs") && overlapping_initiators(t) ? ".overlapping_initiators" : "");
    if (has_empty_normal_object(t)) { snprintf(key, sizeof key, "roundtrip.differs.empty_objects_left_by_restrict"); hv_stat("roundtrip.sources_with_empty_objects", 1); }
    hv_viol(key, "reloaded topology differs: %s", df);
  }
  hv_stat("roundtrip.v3_compared", 1);
  /* userdata callbacks */
  if (with_ud && !hv_viol_count()) {
    /* the built-in exporter runs the export callback in two passes (size, then write): one pass is one export */
    if (ud_passes > 1) { hv_stat("userdata.multi_pass_exports", 1); if (nexp_first % ud_passes) hv_viol("userdata.passes", "export callback passes recorded %u entries in %u passes", nexp_first, ud_passes); nexp_first /= ud_passes; }
    if (nimp != nexp_first) hv_viol(ud_markup ? "userdata.count.plain_userdata_markup" : "userdata.count", "%u userdata entries exported, %u imported", nexp_first, nimp);
    else {
      qsort(exp_log, nexp_first, sizeof *exp_log, cmp_ud); qsort(imp_log, nimp, sizeof *imp_log, cmp_ud);
      for (unsigned i = 0; i < nimp; i++) if (memcmp(&exp_log[i], &imp_log[i], sizeof exp_log[i])) { hv_viol(ud_markup ? "userdata.content.plain_userdata_markup" : "userdata.content", "imported userdata entry differs (object gp %llu/%llu, length %zu/%zu, name %d/%d)", (unsigned long long)exp_log[i].gp, (unsigned long long)imp_log[i].gp, exp_log[i].len, imp_log[i].len, exp_log[i].has_name, imp_log[i].has_name); break; }
    }
    hv_stat("userdata.entries_compared", nimp);
  }
  /* fixpoint: export of the reloaded topology is byte-identical (userdata is not re-exported: compare without callbacks) */
  if (hwloc_topology_get_flags(t) & (HWLOC_TOPOLOGY_FLAG_NO_DISTANCES | HWLOC_TOPOLOGY_FLAG_NO_MEMATTRS | HWLOC_TOPOLOGY_FLAG_NO_CPUKINDS)) hv_stat("fixpoint.skipped_section_ignored_by_flag", 1);
  else if (!hv_viol_count()) {
    char *b1 = NULL, *b2 = NULL; int l1 = 0, l2 = 0;
    hwloc_topology_set_userdata_export_callback(t, NULL);
    hv_ctxkey("export_fixpoint");
    if (hwloc_topology_export_xmlbuffer(t, &b1, &l1, 0) == 0 && hwloc_topology_export_xmlbuffer(t2, &b2, &l2, 0) == 0) {
      if (!(hwloc_topology_get_flags(t) & HWLOC_TOPOLOGY_FLAG_IMPORT_SUPPORT)) { strip_support(b1, &l1); strip_support(b2, &l2); }
      if (l1 != l2 || memcmp(b1, b2, (size_t)l1)) {
        size_t k = 0; while ((int)k < l1 && (int)k < l2 && b1[k] == b2[k]) k++;
        size_t from = k > 120 ? k - 120 : 0;
        hv_viol("fixpoint.bytes_differ", "export(load(export(T))) differs from export(T) at byte %zu: <%.240s> vs <%.240s>", k, b1 + from, b2 + from);
      }
      hv_stat("fixpoint.compared", 1);
    }
    if (b1) hwloc_free_xmlbuffer(t, b1); if (b2) hwloc_free_xmlbuffer(t2, b2);
    if (with_ud) hwloc_topology_set_userdata_export_callback(t, export_cb);
  }
  hv_str_free(&a); hv_str_free(&b);
  hv_ctxkey("destroy_reloaded");
  hwloc_topology_destroy(t2);
  free(exact);
  if (byfile) free(buf); else hwloc_free_xmlbuffer(t, buf);
  buf = NULL;

  /* ---- v2-format export reloads to the same tree and sets */
  if (!hv_viol_count()) {
    hv_ctxkey("export_v2");
    if (hwloc_topology_export_xmlbuffer(t, &buf, &len, HWLOC_TOPOLOGY_EXPORT_XML_FLAG_V2) < 0) hv_viol("export_v2.failed", "v2 export failed errno %d", errno);
    else {
      hv_ctxkey("import_v2");
      nimp = 0;
      char *ex2 = hv_exact_dup(buf, (size_t)len);
      hwloc_topology_t t3 = reload(ex2, len, NULL, t, 0, &stage);
      if (!t3) hv_viol("import_v2.failed", "own v2-format export is rejected at stage %d", stage);
      else {
        if (wf_check(t3, "reloaded_v2.") == 0) wf_builtin(t3, "reloaded_v2");
        struct hv_str x, y; hv_str_init(&x); hv_str_init(&y);
        canon_dump(t, CANON_TREE | CANON_BARE, &x); canon_dump(t3, CANON_TREE | CANON_BARE, &y);
        const char *d2 = canon_diff(&x, &y);
        if (d2) hv_viol("roundtrip_v2.differs", "topology reloaded from the v2-format export differs in tree or sets: %s", d2);
        hv_stat("roundtrip.v2_compared", 1);
        hv_str_free(&x); hv_str_free(&y);
        hwloc_topology_destroy(t3);
      }
      free(ex2);
      hwloc_free_xmlbuffer(t, buf); buf = NULL;
    }
  }
  if (hx_popcount(feat) >= 3) { hv_stat("nontrivial_topologies", 1); hv_distinct(1, hv_hash_u64(feat, tv_shape_hash(t))); }
  { char k[48]; snprintf(k, sizeof k, "features.%03x", feat); (void)k; }
  for (unsigned bit = 0; bit < 9; bit++) if (feat & (1u << bit)) { static const char *fn[] = { "feat.complete_differs", "feat.escaped_chars", "feat.userdata", "feat.distances", "feat.memattr_values", "feat.cpukinds", "feat.special_objs", "feat.page_types", "feat.infos" }; hv_stat(fn[bit], 1); }
  if (index < 8) hv_sample("%s", hv_desc_get());
done:
  if (buf) { if (byfile) free(buf); else hwloc_free_xmlbuffer(t, buf); }
  hv_ctxkey("destroy");
  hwloc_topology_destroy(t);
  hv_ctxkey("%s", "");
  unlink(tmp_path);
  hv_leak_check();
}
