/* C13: distances: what is added is what is returned, and it follows the objects. Reference list model. */
#include "hv.h"
#include "topo.h"
#include "hist.h"
#include <hwloc/shmem.h>
#include <sys/mman.h>
#include <sys/wait.h>
#include <unistd.h>

const char *hv_property = "C13";
unsigned hv_batch = 6;
unsigned hv_cpu_limit_s = 120;
static struct hv_rng R;
static const char **corpus; static unsigned ncorpus;

void hv_setup(void) { ncorpus = tl_corpus(&corpus); }

#define MAXOBJ 12
struct ment { int used; hwloc_obj_type_t utype; char name[24]; int named; unsigned long kind; unsigned nb; hwloc_obj_type_t type[MAXOBJ]; uint64_t gp[MAXOBJ]; uint64_t val[MAXOBJ * MAXOBJ]; };
static struct ment M[64]; static unsigned NM; static int stop_history;

#define K_FROM (HWLOC_DISTANCES_KIND_FROM_OS | HWLOC_DISTANCES_KIND_FROM_USER)
#define K_VAL (HWLOC_DISTANCES_KIND_VALUE_LATENCY | HWLOC_DISTANCES_KIND_VALUE_BANDWIDTH | HWLOC_DISTANCES_KIND_VALUE_HOPS)
#define K_ALL (K_FROM | K_VAL | HWLOC_DISTANCES_KIND_HETEROGENEOUS_TYPES)

static int popc(unsigned long v) { int n = 0; while (v) { n += (int)(v & 1); v >>= 1; } return n; }
static hwloc_obj_type_t unique_type(const struct ment *e) { for (unsigned i = 1; i < e->nb; i++) if (e->type[i] != e->type[0]) return (hwloc_obj_type_t)-1; return e->type[0]; }

static uint64_t ment_sig(const struct ment *e)
{
  uint64_t h = hv_hash_u64(e->kind, 3);
  h = hv_hash_str(e->named ? e->name : "\1null", h);
  for (unsigned i = 0; i < e->nb; i++) h = hv_hash_u64(e->gp[i] * 64 + (uint64_t)e->type[i], h);
  h = hv_hash_bytes(e->val, e->nb * e->nb * sizeof(uint64_t), h);
  return h;
}
static uint64_t got_sig(hwloc_topology_t t, struct hwloc_distances_s *d)
{
  const char *nm = hwloc_distances_get_name(t, d);
  uint64_t h = hv_hash_u64(d->kind, 3);
  h = hv_hash_str(nm ? nm : "\1null", h);
  for (unsigned i = 0; i < d->nbobjs; i++) h = hv_hash_u64(d->objs[i] ? d->objs[i]->gp_index * 64 + (uint64_t)d->objs[i]->type : 0xdead, h);
  h = hv_hash_bytes(d->values, d->nbobjs * d->nbobjs * sizeof(uint64_t), h);
  return h;
}
static int cmp_u64(const void *a, const void *b) { uint64_t x = *(const uint64_t *)a, y = *(const uint64_t *)b; return x < y ? -1 : x > y; }

static int filter_match(const struct ment *e, const char *name, hwloc_obj_type_t type, unsigned long kind)
{
  if (name && (!e->named || strcmp(name, e->name))) return 0;
  if (type != (hwloc_obj_type_t)-1 && e->utype != type) return 0;
  if ((kind & K_FROM) && !(kind & K_FROM & e->kind)) return 0;
  if ((kind & K_VAL) && !(kind & K_VAL & e->kind)) return 0;
  return 1;
}

static void dump_both(hwloc_topology_t t)
{
  hv_desc("  model:\n");
  for (unsigned i = 0; i < NM; i++) { hv_desc("    %s kind=%#lx objs=", M[i].named ? M[i].name : "NULL", M[i].kind); for (unsigned k = 0; k < M[i].nb; k++) hv_desc("%s:gp%llu ", hwloc_obj_type_string(M[i].type[k]), (unsigned long long)M[i].gp[k]); hv_desc("vals="); for (unsigned k = 0; k < M[i].nb * M[i].nb; k++) hv_desc("%llu,", (unsigned long long)M[i].val[k]); hv_desc("\n"); }
  unsigned nr = 64; struct hwloc_distances_s *all[64];
  if (hwloc_distances_get(t, &nr, all, 0, 0) != 0) return;
  hv_desc("  hwloc:\n");
  for (unsigned i = 0; i < nr && i < 64; i++) { const char *nm = hwloc_distances_get_name(t, all[i]); hv_desc("    %s kind=%#lx objs=", nm ? nm : "NULL", all[i]->kind); for (unsigned k = 0; k < all[i]->nbobjs; k++) hv_desc("%s:gp%llu ", all[i]->objs[k] ? hwloc_obj_type_string(all[i]->objs[k]->type) : "NULL", all[i]->objs[k] ? (unsigned long long)all[i]->objs[k]->gp_index : 0ULL); hv_desc("vals="); for (unsigned k = 0; k < all[i]->nbobjs * all[i]->nbobjs; k++) hv_desc("%llu,", (unsigned long long)all[i]->values[k]); hv_desc("\n"); hwloc_distances_release(t, all[i]); }
}

/* one query variant against the model */
static void check_query(hwloc_topology_t t, struct tv_view *vw, const char *how, int mode, int depth, const char *name, unsigned long kind)
{
  hwloc_obj_type_t type = (hwloc_obj_type_t)-1;
  if (mode == 1) type = hwloc_get_depth_type(t, depth);
  uint64_t want[64]; unsigned nw = 0;
  for (unsigned i = 0; i < NM; i++) if (filter_match(&M[i], mode == 2 ? name : NULL, type, mode == 2 ? 0 : kind)) want[nw++] = ment_sig(&M[i]);
  if (mode == 1 && type == (hwloc_obj_type_t)-1) nw = 0;
  unsigned sizes[4] = { 0, nw, nw + 3, nw > 1 ? nw - 1 : 0 };
  for (unsigned s = 0; s < 4 && !hv_viol_count(); s++) {
    unsigned nr = sizes[s];
    struct hwloc_distances_s **arr = calloc(nr + 1, sizeof *arr);
    for (unsigned i = 0; i < nr; i++) arr[i] = (void *)(uintptr_t)0x1;    /* poison: untouched entries stay recognisable */
    int rc; errno = 0;
    if (mode == 0) rc = hwloc_distances_get(t, &nr, arr, kind, 0);
    else if (mode == 1) rc = hwloc_distances_get_by_depth(t, depth, &nr, arr, kind, 0);
    else rc = hwloc_distances_get_by_name(t, name, &nr, arr, 0);
    hv_stat("queries", 1);
    char key[80];
    if (mode == 1 && type == (hwloc_obj_type_t)-1) { if (rc != -1) { snprintf(key, sizeof key, "get.%s.invalid_depth", how); hv_viol(key, "get_by_depth(%d) on an invalid depth returned %d", depth, rc); } free(arr); continue; }
    if (rc != 0) { snprintf(key, sizeof key, "get.%s.rc", how); hv_viol(key, "%s(kind %#lx) returned %d errno %d", how, kind, rc, errno); free(arr); continue; }
    if (nr != nw) { dump_both(t); snprintf(key, sizeof key, "get.%s.count", how); hv_viol(key, "%s(depth %d, name %s, kind %#lx, array of %u) reports *nr=%u, the model has %u matching structures", how, depth, name ? name : "-", kind, sizes[s], nr, nw); }
    unsigned filled = sizes[s] < nr ? sizes[s] : nr;
    uint64_t got[64]; unsigned ng = 0;
    for (unsigned i = 0; i < filled && i < 64; i++) {
      if (arr[i] == (void *)(uintptr_t)0x1 || !arr[i]) { snprintf(key, sizeof key, "get.%s.unfilled", how); hv_viol(key, "entry %u of %u was not filled", i, filled); continue; }
      for (unsigned k = 0; k < arr[i]->nbobjs; k++) if (!arr[i]->objs[k] || tv_view_find(vw, arr[i]->objs[k]) < 0) { snprintf(key, sizeof key, "get.%s.foreign_object", how); hv_viol(key, "structure %u references an object that is not in this topology", i); break; }
      if (!hv_viol_count()) got[ng++] = got_sig(t, arr[i]);
      hwloc_distances_release(t, arr[i]);
    }
    for (unsigned i = filled; i < sizes[s]; i++) if (arr[i] != (void *)(uintptr_t)0x1 && arr[i] != NULL) { snprintf(key, sizeof key, "get.%s.overfill", how); hv_viol(key, "entry %u beyond the %u matches was written", i, nr); }
    if (!hv_viol_count() && filled == nw) {
      uint64_t w2[64]; memcpy(w2, want, nw * sizeof *w2);
      qsort(w2, nw, sizeof *w2, cmp_u64); qsort(got, ng, sizeof *got, cmp_u64);
      if (ng != nw || memcmp(w2, got, nw * sizeof *w2)) { dump_both(t); snprintf(key, sizeof key, "get.%s.content", how); hv_viol(key, "%s(depth %d, name %s, kind %#lx): the %u returned structures differ from the model (name, kind incl. HETEROGENEOUS_TYPES, objects or values)", how, depth, name ? name : "-", kind, ng); }
    }
    free(arr);
  }
}

static void check_model(hwloc_topology_t t, const char *after)
{
  struct tv_view vw; tv_view_build(t, &vw, 0);
  hv_ctxkey("check_model:%s", after);
  static const unsigned long kinds[] = { 0, HWLOC_DISTANCES_KIND_FROM_OS, HWLOC_DISTANCES_KIND_FROM_USER, HWLOC_DISTANCES_KIND_VALUE_LATENCY, HWLOC_DISTANCES_KIND_VALUE_BANDWIDTH, HWLOC_DISTANCES_KIND_VALUE_HOPS,
    HWLOC_DISTANCES_KIND_FROM_USER | HWLOC_DISTANCES_KIND_VALUE_LATENCY, K_FROM, K_VAL, HWLOC_DISTANCES_KIND_HETEROGENEOUS_TYPES, HWLOC_DISTANCES_KIND_FROM_OS | HWLOC_DISTANCES_KIND_VALUE_BANDWIDTH | HWLOC_DISTANCES_KIND_VALUE_HOPS };
  check_query(t, &vw, "get", 0, 0, NULL, 0);
  check_query(t, &vw, "get", 0, 0, NULL, kinds[hv_below(&R, 11)]);
  check_query(t, &vw, "get", 0, 0, NULL, kinds[hv_below(&R, 11)]);
  int depth = hwloc_topology_get_depth(t);
  static const int sd[] = { HWLOC_TYPE_DEPTH_NUMANODE, HWLOC_TYPE_DEPTH_PCI_DEVICE, HWLOC_TYPE_DEPTH_OS_DEVICE, HWLOC_TYPE_DEPTH_MISC };
  for (unsigned k = 0; k < 3; k++) { int d = hv_chance(&R, 1, 3) ? sd[hv_below(&R, 4)] : (int)hv_below(&R, (uint64_t)depth + 1); check_query(t, &vw, "get_by_depth", 1, d, NULL, hv_chance(&R, 1, 2) ? 0 : kinds[hv_below(&R, 11)]); }
  /* every level that carries a structure */
  for (unsigned i = 0; i < NM && !hv_viol_count(); i++) { hwloc_obj_type_t ut = M[i].utype; if (ut == (hwloc_obj_type_t)-1) continue; int d = hwloc_get_type_depth(t, ut); if (d != HWLOC_TYPE_DEPTH_UNKNOWN && d != HWLOC_TYPE_DEPTH_MULTIPLE) check_query(t, &vw, "get_by_depth", 1, d, NULL, 0); }
  for (unsigned i = 0; i < NM && i < 3 && !hv_viol_count(); i++) if (M[i].named) check_query(t, &vw, "get_by_name", 2, 0, M[i].name, 0);
  check_query(t, &vw, "get_by_name", 2, 0, "no such name", 0);
  /* invalid flags */
  { unsigned nr = 0; errno = 0; if (hwloc_distances_get(t, &nr, NULL, 0, 1UL << hv_below(&R, 8)) != -1 || errno != EINVAL) hv_viol("get.flags", "non-zero flags accepted by hwloc_distances_get"); }
  tv_view_free(&vw);
  hv_stat("model_checks", 1);
  hv_max("max_live_structures", NM);
  hv_ctxkey("%s", "");
}

/* restrict / carriers: recompute which objects still exist */
static void model_follow(hwloc_topology_t t)
{
  unsigned w = 0;
  for (unsigned i = 0; i < NM; i++) {
    struct ment *e = &M[i]; unsigned keep[MAXOBJ], nk = 0;
    for (unsigned k = 0; k < e->nb; k++) {
      hwloc_obj_t o = NULL;
      int d = hwloc_get_type_depth(t, e->type[k]);
      if (d == HWLOC_TYPE_DEPTH_MULTIPLE) { int td = hwloc_topology_get_depth(t); for (int dd = 0; dd < td && !o; dd++) if (hwloc_get_depth_type(t, dd) == e->type[k]) for (unsigned j = 0, n = hwloc_get_nbobjs_by_depth(t, dd); j < n; j++) if (hwloc_get_obj_by_depth(t, dd, j)->gp_index == e->gp[k]) { o = hwloc_get_obj_by_depth(t, dd, j); break; } }
      else if (d != HWLOC_TYPE_DEPTH_UNKNOWN) for (unsigned j = 0, n = hwloc_get_nbobjs_by_depth(t, d); j < n; j++) if (hwloc_get_obj_by_depth(t, d, j)->gp_index == e->gp[k]) { o = hwloc_get_obj_by_depth(t, d, j); break; }
      if (o) keep[nk++] = k; else if (getenv("VERIF_DEBUG")) fprintf(stderr, "model_follow: %s gp%llu not found (type depth %d)\n", hwloc_obj_type_string(e->type[k]), (unsigned long long)e->gp[k], d);
    }
    if (nk < 2) continue;
    struct ment n2 = *e; n2.nb = nk;
    for (unsigned a = 0; a < nk; a++) { n2.type[a] = e->type[keep[a]]; n2.gp[a] = e->gp[keep[a]]; for (unsigned b = 0; b < nk; b++) n2.val[a * nk + b] = e->val[keep[a] * e->nb + keep[b]]; }
    /* the kind word and the by-type classification are those of the add: a mixed matrix whose survivors share a type stays heterogeneous */
    M[w++] = n2;
  }
  NM = w;
}

static void op_add(hwloc_topology_t t)
{
  static const unsigned long kinds[] = { HWLOC_DISTANCES_KIND_FROM_USER | HWLOC_DISTANCES_KIND_VALUE_LATENCY, HWLOC_DISTANCES_KIND_FROM_USER | HWLOC_DISTANCES_KIND_VALUE_BANDWIDTH, HWLOC_DISTANCES_KIND_FROM_OS | HWLOC_DISTANCES_KIND_VALUE_HOPS,
    HWLOC_DISTANCES_KIND_VALUE_LATENCY, 0, HWLOC_DISTANCES_KIND_FROM_OS, HWLOC_DISTANCES_KIND_FROM_USER | HWLOC_DISTANCES_KIND_VALUE_HOPS | HWLOC_DISTANCES_KIND_HETEROGENEOUS_TYPES,
    K_FROM, HWLOC_DISTANCES_KIND_VALUE_LATENCY | HWLOC_DISTANCES_KIND_VALUE_BANDWIDTH, 1UL << 6, 1UL << 20, K_FROM | HWLOC_DISTANCES_KIND_VALUE_HOPS };
  struct ment e; memset(&e, 0, sizeof e);
  int want_group = hv_chance(&R, 1, 4);
  e.kind = want_group ? kinds[(unsigned)hv_below(&R, 4) == 1 ? 0 : hv_below(&R, 4)] : hv_chance(&R, 1, 6) ? kinds[7 + hv_below(&R, 5)] : kinds[hv_below(&R, 7)];
  e.named = hv_chance(&R, 2, 3);
  if (e.named) { if (NM && hv_chance(&R, 1, 4) && M[0].named) snprintf(e.name, sizeof e.name, "%s", M[0].name); else snprintf(e.name, sizeof e.name, "d%u_%c", (unsigned)hv_below(&R, 1000), "<&\"x"[hv_below(&R, 4)]); }
  unsigned long cflags = hv_chance(&R, 1, 15) ? 1UL << hv_below(&R, 4) : 0;
  int kind_ok = !(e.kind & ~K_ALL) && popc(e.kind & K_FROM) <= 1 && popc(e.kind & K_VAL) <= 1;
  errno = 0;
  hwloc_distances_add_handle_t hd = hwloc_distances_add_create(t, e.named ? e.name : NULL, e.kind, cflags);
  hv_desc("  add_create(name=%s kind=%#lx flags=%#lx) -> %s\n", e.named ? e.name : "NULL", e.kind, cflags, hd ? "handle" : "NULL");
  if (!hd) { if (kind_ok && !cflags) hv_viol("add.create_rejected", "add_create(kind %#lx) rejected a valid kind (errno %d)", e.kind, errno); else if (errno != EINVAL) hv_viol("add.create_errno", "add_create failed with errno %d instead of EINVAL", errno); hv_stat("add.rejected_at_create", 1); return; }
  if (!kind_ok || cflags) { hv_viol("add.create_accepted", "add_create accepted kind %#lx flags %#lx", e.kind, cflags); }
  /* objects */
  hwloc_obj_t objs[MAXOBJ]; unsigned nb = hv_chance(&R, 1, 10) ? (unsigned)hv_below(&R, 2) : 2 + (unsigned)hv_below(&R, 7);
  unsigned mode = (unsigned)hv_below(&R, want_group ? 5 : 8);
  if (want_group && nb < 4) nb = 4 + (unsigned)hv_below(&R, 5);
  int depth = hwloc_topology_get_depth(t);
  unsigned have = 0;
  if (mode <= 4) {
    int d = mode == 0 ? HWLOC_TYPE_DEPTH_NUMANODE : mode == 1 ? depth - 1 : (int)hv_below(&R, (uint64_t)depth);
    unsigned n = hwloc_get_nbobjs_by_depth(t, d); if (n < nb) nb = n;
    unsigned start = n > nb ? (unsigned)hv_below(&R, n - nb + 1) : 0;
    for (unsigned i = 0; i < nb; i++) objs[have++] = hwloc_get_obj_by_depth(t, d, start + i);
  } else {
    struct hx h; hx_init(&h, t, &R);
    for (unsigned i = 0; i < nb; i++) { hwloc_obj_t o = hx_pick_obj(&h, mode == 5); int dup = 0; for (unsigned j = 0; j < have; j++) if (objs[j] == o) dup = 1; if (!dup) objs[have++] = o; }
  }
  nb = have;
  int null_at = -1;
  if (nb >= 2 && hv_chance(&R, 1, 15)) { null_at = (int)hv_below(&R, nb); }
  uint64_t vals[MAXOBJ * MAXOBJ];
  int groupable = want_group || hv_chance(&R, 1, 3);
  for (unsigned i = 0; i < nb; i++) for (unsigned j = 0; j < nb; j++) vals[i * nb + j] = groupable ? (i == j ? 10 : (i / 2 == j / 2 ? 20 : 40)) : hv_below(&R, 1000);
  hwloc_obj_t tmpobjs[MAXOBJ]; memcpy(tmpobjs, objs, sizeof tmpobjs); if (null_at >= 0) tmpobjs[null_at] = NULL;
  unsigned long vflags = hv_chance(&R, 1, 20) ? 1 : 0;
  errno = 0;
  int rc = hwloc_distances_add_values(t, hd, nb, tmpobjs, vals, vflags);
  hv_desc("  add_values(nbobjs=%u mode=%u null_at=%d flags=%#lx) -> %d\n", nb, mode, null_at, vflags, rc);
  int values_ok = nb >= 2 && null_at < 0 && !vflags;
  if (rc < 0) { if (values_ok) hv_viol("add.values_rejected", "add_values rejected %u valid objects (errno %d)", nb, errno); hv_stat("add.rejected_at_values", 1); return; }
  if (!values_ok) { hv_viol(nb < 2 ? "add.values_accepted.lt2" : null_at >= 0 ? "add.values_accepted.null_obj" : "add.values_accepted.flags", "add_values accepted nbobjs=%u null_at=%d flags=%#lx", nb, null_at, vflags); return; }
  /* Grouping is only defined for objects with pairwise disjoint non-empty cpusets whose memory objects are attached to a parent with
   * exactly their cpuset: otherwise the Group (union of cpusets and nodesets) cannot be placed consistently (recorded open finding). */
  int hazard = 0;
  for (unsigned i = 0; i < nb && !hazard; i++) {
    if (!objs[i]->cpuset || hwloc_bitmap_iszero(objs[i]->cpuset)) { hazard = 1; break; }
    if (hwloc_obj_type_is_memory(objs[i]->type)) { hwloc_obj_t p = objs[i]->parent; while (p && hwloc_obj_type_is_memory(p->type)) p = p->parent; if (!p || !hwloc_bitmap_isequal(p->cpuset, objs[i]->cpuset)) hazard = 1; }
    for (unsigned j = 0; j < i; j++) if (objs[j]->cpuset && hwloc_bitmap_intersects(objs[i]->cpuset, objs[j]->cpuset)) hazard = 1;
  }
  unsigned long gflags = want_group || hv_chance(&R, 1, 8) ? 1 + hv_below(&R, 3) : 0;
  if (hv_chance(&R, 1, 20)) gflags |= 4UL << hv_below(&R, 4);
  errno = 0;
  int ngroups_before = hwloc_get_nbobjs_by_type(t, HWLOC_OBJ_GROUP);
  rc = hwloc_distances_add_commit(t, hd, gflags);
  hv_desc("  add_commit(flags=%#lx) -> %d\n", gflags, rc);
  int commit_ok = !(gflags & ~3UL);
  if (rc < 0) { if (commit_ok) hv_viol("add.commit_rejected", "add_commit(flags %#lx) failed with errno %d", gflags, errno); hv_stat("add.rejected_at_commit", 1); return; }
  if (!commit_ok) { hv_viol("add.commit_accepted", "add_commit accepted flags %#lx", gflags); return; }
  e.nb = nb; for (unsigned i = 0; i < nb; i++) { e.type[i] = objs[i]->type; e.gp[i] = objs[i]->gp_index; } memcpy(e.val, vals, nb * nb * sizeof *vals);
  e.utype = unique_type(&e);
  /* HETEROGENEOUS_TYPES is added iff the types differ; a bit the caller passed itself is returned as given */
  if (e.utype == (hwloc_obj_type_t)-1) e.kind |= HWLOC_DISTANCES_KIND_HETEROGENEOUS_TYPES;
  if (NM < 64) M[NM++] = e;
  hv_stat(gflags & 3 ? "add.committed_with_grouping" : "add.committed", 1);
  if (gflags & 3) { if (wf_check(t, hazard ? "after_group_commit.hazard." : "after_group_commit.") == 0) wf_builtin(t, hazard ? "after_group_commit.hazard" : "after_group_commit"); model_follow(t); hv_stat(hazard ? "add.group_commits_outside_sound_domain" : "add.group_commits_in_sound_domain", 1);
    if (hwloc_get_nbobjs_by_type(t, HWLOC_OBJ_GROUP) != ngroups_before) { hv_stat(hazard ? "add.group_commits_outside_sound_domain.inserted_groups" : "add.group_commits_in_sound_domain.inserted_groups", 1); if (hazard) stop_history = 1; } }
}

static void op_remove(hwloc_topology_t t)
{
  unsigned mode = (unsigned)hv_below(&R, 4);
  if (mode == 0) { int rc = hwloc_distances_remove(t); hv_desc("  remove() -> %d\n", rc); if (rc != 0) hv_viol("remove.rc", "hwloc_distances_remove returned %d", rc); NM = 0; }
  else if (mode == 1) {
    int depth = hwloc_topology_get_depth(t); int d = hv_chance(&R, 1, 3) ? HWLOC_TYPE_DEPTH_NUMANODE : (int)hv_below(&R, (uint64_t)depth);
    hwloc_obj_type_t ty = hwloc_get_depth_type(t, d);
    int rc = hwloc_distances_remove_by_depth(t, d); hv_desc("  remove_by_depth(%d) -> %d\n", d, rc);
    if (rc != 0) hv_viol("remove_by_depth.rc", "hwloc_distances_remove_by_depth(%d) returned %d", d, rc);
    unsigned w = 0; for (unsigned i = 0; i < NM; i++) if (M[i].utype != ty) M[w++] = M[i]; NM = w;
  } else {
    unsigned nr = 0; hwloc_distances_get(t, &nr, NULL, 0, 0);
    if (!nr) return;
    struct hwloc_distances_s **d = calloc(nr, sizeof *d); unsigned got = nr; hwloc_distances_get(t, &got, d, 0, 0);
    unsigned victim = (unsigned)hv_below(&R, got);
    uint64_t sig = got_sig(t, d[victim]);
    for (unsigned i = 0; i < got; i++) if (i != victim) hwloc_distances_release(t, d[i]);
    int rc = hwloc_distances_release_remove(t, d[victim]); hv_desc("  release_remove(#%u of %u) -> %d\n", victim, got, rc);
    if (rc != 0) hv_viol("release_remove.rc", "hwloc_distances_release_remove returned %d", rc);
    for (unsigned i = 0; i < NM; i++) if (ment_sig(&M[i]) == sig) { memmove(&M[i], &M[i + 1], (NM - i - 1) * sizeof *M); NM--; break; }
    free(d);
  }
  hv_stat("removes", 1);
}

/* transforms on a private matrix with switch ports at arbitrary positions */
static void op_transform(hwloc_topology_t t)
{
  int depth = hwloc_topology_get_depth(t);
  unsigned n = hwloc_get_nbobjs_by_depth(t, depth - 1);
  if (n < 4) return;
  unsigned nb = 4 + (unsigned)hv_below(&R, n - 3 > 5 ? 5 : n - 3);
  hwloc_obj_t objs[MAXOBJ]; uint64_t vals[MAXOBJ * MAXOBJ]; int is_sw[MAXOBJ]; unsigned nsw = 0;
  for (unsigned i = 0; i < nb; i++) { objs[i] = hwloc_get_obj_by_depth(t, depth - 1, i); is_sw[i] = hv_chance(&R, 1, 3); }
  /* make sure both kinds exist at varied positions */
  { unsigned p = (unsigned)hv_below(&R, nb), q = (p + 1 + (unsigned)hv_below(&R, nb - 1)) % nb; is_sw[p] = 1; is_sw[q] = 0; }
  for (unsigned i = 0; i < nb; i++) { hwloc_obj_set_subtype(t, objs[i], is_sw[i] ? "NVSwitch" : "GPU"); nsw += (unsigned)is_sw[i]; }
  for (unsigned i = 0; i < nb; i++) for (unsigned j = 0; j < nb; j++) vals[i * nb + j] = i == j ? 0 : (is_sw[i] != is_sw[j] ? 25 * (1 + hv_below(&R, 2)) : (!is_sw[i] && hv_chance(&R, 1, 3) ? 50 : 0));
  hwloc_distances_add_handle_t hd = hwloc_distances_add_create(t, "NVLinkBandwidth", HWLOC_DISTANCES_KIND_FROM_OS | HWLOC_DISTANCES_KIND_VALUE_BANDWIDTH, 0);
  if (!hd || hwloc_distances_add_values(t, hd, nb, objs, vals, 0) < 0 || hwloc_distances_add_commit(t, hd, 0) < 0) { hv_viol("transform.setup", "cannot add the NVLinkBandwidth matrix"); return; }
  struct ment e; memset(&e, 0, sizeof e); e.named = 1; snprintf(e.name, sizeof e.name, "NVLinkBandwidth"); e.kind = HWLOC_DISTANCES_KIND_FROM_OS | HWLOC_DISTANCES_KIND_VALUE_BANDWIDTH; e.nb = nb;
  for (unsigned i = 0; i < nb; i++) { e.type[i] = objs[i]->type; e.gp[i] = objs[i]->gp_index; } memcpy(e.val, vals, nb * nb * sizeof *vals);
  e.utype = unique_type(&e);
  if (NM < 64) M[NM++] = e;
  unsigned nr = 64; struct hwloc_distances_s *all[64], *d = NULL;
  if (hwloc_distances_get_by_name(t, "NVLinkBandwidth", &nr, all, 0) != 0 || !nr) { hv_viol("transform.get", "cannot get the matrix back"); return; }
  { uint64_t sig = ment_sig(&e); for (unsigned i = 0; i < nr && i < 64; i++) if (!d && got_sig(t, all[i]) == sig) d = all[i]; else hwloc_distances_release(t, all[i]); }
  if (!d) { hv_viol("transform.get", "the matrix just added is not among the %u returned by name", nr); return; }
  unsigned which = (unsigned)hv_below(&R, 4);
  static const char *tn[] = { "remove_null", "links", "merge_switch_ports", "transitive_closure" };
  hv_desc("  transform %s on %u objects, %u switch ports at [", tn[which], nb, nsw); for (unsigned i = 0; i < nb; i++) hv_desc("%d", is_sw[i]); hv_desc("]\n");
  if (which == 0) { /* NULL out one non-switch object by hand, as documented */
    unsigned victim = 0; for (unsigned i = 0; i < d->nbobjs; i++) if (!is_sw[i]) victim = i;
    hwloc_obj_t gone = d->objs[victim]; d->objs[victim] = NULL;
    int rc = hwloc_distances_transform(t, d, HWLOC_DISTANCES_TRANSFORM_REMOVE_NULL, NULL, 0);
    if (rc != 0) hv_viol("transform.remove_null.rc", "REMOVE_NULL returned %d", rc);
    else {
      if (d->nbobjs != nb - 1) hv_viol("transform.remove_null.count", "REMOVE_NULL left %u objects, expected %u", d->nbobjs, nb - 1);
      for (unsigned i = 0; i < d->nbobjs && !hv_viol_count(); i++) { if (!d->objs[i] || d->objs[i] == gone) hv_viol("transform.remove_null.objs", "object %u is NULL or the removed one", i);
        for (unsigned j = 0; j < d->nbobjs && !hv_viol_count(); j++) { unsigned oi = i >= victim ? i + 1 : i, oj = j >= victim ? j + 1 : j; if (d->values[i * d->nbobjs + j] != vals[oi * nb + oj]) hv_viol("transform.remove_null.values", "value [%u][%u] changed", i, j); } }
    }
  } else {
    int rc = hwloc_distances_transform(t, d, (enum hwloc_distances_transform_e)which, NULL, 0);
    char key[64];
    if (rc != 0) { snprintf(key, sizeof key, "transform.%s.rc", tn[which]); hv_viol(key, "transform returned %d errno %d", rc, errno); }
    else {
      /* every non-switch object is kept */
      for (unsigned i = 0; i < nb && !hv_viol_count(); i++) if (!is_sw[i] && hwloc_distances_obj_index(d, objs[i]) < 0) { snprintf(key, sizeof key, "transform.%s.lost_object", tn[which]); hv_viol(key, "non-switch object at position %u (of %u, switch ports at other positions) is not in the transformed structure", i, nb); }
      /* values between non-switch objects: unchanged by MERGE_SWITCH_PORTS; LINKS keeps zero/non-zero pattern */
      for (unsigned i = 0; i < nb && !hv_viol_count(); i++) for (unsigned j = 0; j < nb && !hv_viol_count(); j++) {
        if (is_sw[i] || is_sw[j] || i == j) continue;
        int a = hwloc_distances_obj_index(d, objs[i]), b = hwloc_distances_obj_index(d, objs[j]);
        if (a < 0 || b < 0) continue;
        uint64_t v = d->values[(unsigned)a * d->nbobjs + (unsigned)b];
        if (which == 2 && v != vals[i * nb + j]) { hv_viol("transform.merge_switch_ports.values", "value between non-switch objects %u and %u changed from %llu to %llu", i, j, (unsigned long long)vals[i * nb + j], (unsigned long long)v); }
        if (which == 1 && (!!v) != (!!vals[i * nb + j])) { hv_viol("transform.links.values", "LINKS changed the zero/non-zero pattern between %u and %u", i, j); }
        if (which == 3 && v < vals[i * nb + j]) { hv_viol("transform.transitive_closure.values", "closure decreased the value between %u and %u", i, j); }
      }
      if (which == 2 && !hv_viol_count()) { unsigned sw = 0; for (unsigned i = 0; i < d->nbobjs; i++) if (d->objs[i] && d->objs[i]->subtype && !strcmp(d->objs[i]->subtype, "NVSwitch")) sw++; if (sw != 1) hv_viol("transform.merge_switch_ports.ports", "%u switch ports remain after the merge", sw); }
    }
  }
  /* invalid arguments */
  errno = 0; if (hwloc_distances_transform(t, d, HWLOC_DISTANCES_TRANSFORM_REMOVE_NULL, NULL, 1) != -1 || errno != EINVAL) hv_viol("transform.flags", "non-zero flags accepted");
  hwloc_distances_release(t, d);
  hv_stat("transforms", 1);
  for (unsigned i = 0; i < nb; i++) hwloc_obj_set_subtype(t, objs[i], NULL);
}

/* everything hwloc_distances_get() returns, folded into one number (names are reached through pointers stored in the structure) */
static uint64_t dist_digest(hwloc_topology_t t)
{
  uint64_t h = 13; unsigned nr = 0; hwloc_distances_get(t, &nr, NULL, 0, 0);
  struct hwloc_distances_s **d = calloc(nr + 1, sizeof *d); unsigned n2 = nr; hwloc_distances_get(t, &n2, d, 0, 0);
  h = hv_hash_u64(n2, h);
  for (unsigned i = 0; i < n2 && i < nr; i++) { const char *nm = hwloc_distances_get_name(t, d[i]); h = hv_hash_str(nm ? nm : "(unnamed)", h); h = hv_hash_u64(d[i]->kind, h); h = hv_hash_u64(d[i]->nbobjs, h);
    for (unsigned k = 0; k < d[i]->nbobjs; k++) { h = hv_hash_u64(d[i]->objs[k] ? d[i]->objs[k]->gp_index * 32 + (uint64_t)d[i]->objs[k]->type : 7, h); }
    h = hv_hash_bytes(d[i]->values, (size_t)d[i]->nbobjs * d[i]->nbobjs * sizeof(uint64_t), h);
    if (nm) { unsigned one = 1; struct hwloc_distances_s *bn = NULL; if (hwloc_distances_get_by_name(t, nm, &one, &bn, 0) == 0 && one && bn) { h = hv_hash_u64(bn->nbobjs, h); hwloc_distances_release(t, bn); } }
    hwloc_distances_release(t, d[i]); }
  free(d); return h;
}

/* terminal carrier: the topology is stored in a shared-memory file and adopted (a) by a process forked before the write, as an unrelated
 * process would, and (b) by the writer itself; both must return what the model holds */
static void shmem_carrier(hwloc_topology_t t, uint64_t index)
{
  size_t len = 0; hv_ctxkey("carrier:shmem");
  if (hwloc_shmem_topology_get_length(t, &len, 0) != 0 || !len) { hv_viol("carrier.shmem.get_length", "get_length failed errno %d", errno); return; }
  int fd = memfd_create("hv-c13", 0); if (fd < 0) hv_fail("memfd_create: %s", strerror(errno));
  void *addr = (void *)(uintptr_t)(0x300000000000ULL + (index % 256) * 0x40000000ULL);
  int go[2], res[2]; if (pipe(go) || pipe(res)) hv_fail("pipe");
  fflush(NULL);
  pid_t pid = fork();
  if (pid == 0) { close(go[1]); close(res[0]); char g = 0; if (read(go[0], &g, 1) != 1 || g != 'g') _exit(0);
    hv_ctxkey("carrier:shmem:other_process");
    hwloc_topology_t a = NULL; uint64_t out[2] = { 0, 0 };
    if (hwloc_shmem_topology_adopt(&a, fd, 0, addr, len, 0) != 0 || !a) { out[0] = 1; out[1] = (uint64_t)errno; } else { out[1] = dist_digest(a); hwloc_topology_destroy(a); }
    if (write(res[1], out, sizeof out) < 0) {}
    _exit(0); }
  close(go[0]); close(res[1]);
  errno = 0;
  int wr = hwloc_shmem_topology_write(t, fd, 0, addr, len, 0);
  if (wr != 0 && errno == EBUSY) { hv_stat("carrier.shmem.address_busy", 1); char n = 'n'; if (write(go[1], &n, 1) < 0) {} }
  else if (wr != 0) { hv_viol("carrier.shmem.write", "shmem write failed errno %d", errno); char n = 'n'; if (write(go[1], &n, 1) < 0) {} }
  else {
    char g = 'g'; if (write(go[1], &g, 1) < 0) {}
    uint64_t got[2] = { 0, 0 }; ssize_t rn = read(res[0], got, sizeof got); int st = 0; waitpid(pid, &st, 0); pid = -1;
    hwloc_topology_t a = NULL;
    if (hwloc_shmem_topology_adopt(&a, fd, 0, addr, len, 0) != 0 || !a) hv_viol("carrier.shmem.adopt", "adopt failed errno %d", errno);
    else {
      hv_desc("  carrier: shared-memory adoption (%zu bytes)\n", len);
      model_follow(a); check_model(a, "shmem adoption");
      uint64_t mine = dist_digest(a);
      if (rn != (ssize_t)sizeof got || !WIFEXITED(st) || WEXITSTATUS(st)) hv_viol("carrier.shmem.other_process_crashed", "a process forked before the write died while adopting the topology and reading its distances (wait status %#x)", st);
      else if (got[0]) hv_viol("carrier.shmem.other_process_adopt", "adopt in a process forked before the write failed, errno %llu", (unsigned long long)got[1]);
      else if (got[1] != mine) hv_viol("carrier.shmem.other_process_differs", "the distances (names, kinds, objects, values) seen by a process forked before the write differ from those seen by the writer");
      hv_stat("carrier.shmem.adoptions", 1);
      hwloc_topology_destroy(a);
    }
  }
  if (pid > 0) { int st; waitpid(pid, &st, 0); }
  close(go[1]); close(res[0]); close(fd);
}

void hv_case(uint64_t index)
{
  hv_rng_seed(&R, HV.seed, "c13", index);
  struct tg_config c; tg_config_random(&R, &c, 0);
  c.flags &= (HWLOC_TOPOLOGY_FLAG_INCLUDE_DISALLOWED | HWLOC_TOPOLOGY_FLAG_NO_MEMATTRS | HWLOC_TOPOLOGY_FLAG_NO_CPUKINDS);
  c.flags |= HWLOC_TOPOLOGY_FLAG_NO_DISTANCES;   /* start from an empty list: OS/XML-provided matrices are not part of the model */
  if (hv_chance(&R, 1, 2)) { c.filter[HWLOC_OBJ_MISC] = HWLOC_TYPE_FILTER_KEEP_ALL; c.filter[HWLOC_OBJ_BRIDGE] = c.filter[HWLOC_OBJ_PCI_DEVICE] = c.filter[HWLOC_OBJ_OS_DEVICE] = HWLOC_TYPE_FILTER_KEEP_ALL; }
  struct hv_str cs; hv_str_init(&cs); tg_config_str(&c, &cs);
  hwloc_topology_t t; int stage;
  hv_ctxkey("source_load");
  if (index % 4 == 1 && ncorpus) { const char *path = corpus[(index / 4) % ncorpus]; hv_desc("source: xml %s config %s\n", path, cs.s); t = tl_load_xmlfile(path, &c, &stage); }
  else { struct tg_synth_opts o; tg_synth_opts_default(&o); o.max_pus = 48; struct hv_str d; hv_str_init(&d); tg_synth_random(&R, &o, &d); hv_desc("source: synthetic \"%s\" config %s\n", d.s, cs.s); t = tl_load_synthetic(d.s, &c, &stage); hv_str_free(&d); }
  hv_str_free(&cs);
  if (!t) { hv_stat("source_load_failed", 1); return; }
  if (hwloc_bitmap_last(hwloc_topology_get_complete_cpuset(t)) >= 1700 || hwloc_bitmap_last(hwloc_topology_get_complete_nodeset(t)) >= 1700) { hv_stat("skipped_beyond_window", 1); hwloc_topology_destroy(t); return; }
  NM = 0; stop_history = 0;
  unsigned nops = 4 + (unsigned)hv_below(&R, 8), carriers = 0; uint64_t seq = 5;
  check_model(t, "load");
  for (unsigned k = 0; k < nops && !hv_viol_count() && !stop_history; k++) {
    unsigned op = (unsigned)hv_below(&R, 16);
    const char *what;
    if (op < 7) { what = "add"; hv_ctxkey("op:add"); op_add(t); }
    else if (op < 9) { what = "remove"; hv_ctxkey("op:remove"); op_remove(t); }
    else if (op < 10) { what = "transform"; hv_ctxkey("op:transform"); op_transform(t); }
    else if (op < 13) { what = "restrict"; struct hx h; hx_init(&h, t, &R); h.allow_bad_args = 0; struct hx_result res; hx_random_op(&h, 1u << HX_RESTRICT, &res); hv_desc("  %s -> %d\n", res.desc, res.rc); if (res.rc == 0) { model_follow(t); carriers++; } }
    else if (op < 15) { what = "dup"; hv_ctxkey("carrier:dup"); hwloc_topology_t t2 = NULL; if (hwloc_topology_dup(&t2, t) == 0) { hwloc_topology_destroy(t); t = t2; carriers++; hv_desc("  carrier: dup\n"); } }
    else { what = "xml"; hv_ctxkey("carrier:xml"); char *buf = NULL; int len = 0;
      if (tv_has_empty_normal_object(t)) { hv_viol("carrier.xml.empty_objects_left_by_restrict", "the topology holds a normal object with neither a PU nor a NUMA node below it (left by a restrict by nodeset); a reload drops it, the XML carrier cannot preserve what refers to it"); break; }
      
      if (hwloc_topology_export_xmlbuffer(t, &buf, &len, 0) == 0) {
        hwloc_topology_t t2; hwloc_topology_init(&t2); hwloc_topology_set_all_types_filter(t2, HWLOC_TYPE_FILTER_KEEP_ALL);
        hwloc_topology_set_flags(t2, hwloc_topology_get_flags(t) & ~(unsigned long)HWLOC_TOPOLOGY_FLAG_NO_DISTANCES);
        if (hwloc_topology_set_xmlbuffer(t2, buf, len) == 0 && hwloc_topology_load(t2) == 0) { hwloc_free_xmlbuffer(t, buf); hwloc_topology_destroy(t); t = t2; carriers++; hv_desc("  carrier: xml round trip\n"); model_follow(t); }
        else { hwloc_free_xmlbuffer(t, buf); hwloc_topology_destroy(t2); hv_viol("carrier.xml_failed", "own XML export could not be reloaded"); }
      } }
    seq = hv_hash_str(what, seq);
    if (!hv_viol_count()) check_model(t, what);
  }
  if (!hv_viol_count() && hv_chance(&R, 1, 3)) { shmem_carrier(t, index); carriers++; seq = hv_hash_str("shmem", seq); }
  if (!hv_viol_count() && NM >= 2 && carriers) { hv_stat("nontrivial_histories", 1); hv_distinct(1, seq); }
  if (index < 6) hv_sample("%s", hv_desc_get());
  hv_ctxkey("destroy");
  hwloc_topology_destroy(t);
  hv_ctxkey("%s", "");
  hv_leak_check();
}
