/* C11: type strings parse back; obj type/attr snprintf contract; compare_types table.
 * index % 4: 0,1 objects of a topology (synthetic / corpus XML with rewritten OS-device type words),
 *            2 hostile strings for hwloc_type_sscanf, 3 (first case only per run) the 20x20 type table. */
#include "hv.h"
#include "topo.h"
#include "hist.h"
#include "snp.h"

const char *hv_property = "C11";
unsigned hv_batch = 8;
unsigned hv_cpu_limit_s = 5;
static struct hv_rng R;
static const char **corpus; static unsigned ncorpus;

void hv_setup(void) { ncorpus = tl_corpus(&corpus); }

#define OSDEV_DEFINED 0x7fUL

struct pr_arg { hwloc_obj_t o; unsigned long flags; const char *sep; };
static int type_call(char *b, size_t n, void *a) { struct pr_arg *p = a; return hwloc_obj_type_snprintf(b, n, p->o, p->flags); }
static int attr_call(char *b, size_t n, void *a) { struct pr_arg *p = a; return hwloc_obj_attr_snprintf(b, n, p->o, p->sep, p->flags); }

static void check_object(hwloc_obj_t o)
{
  char key[128];
  unsigned long fl[5] = { 0, hv_below(&R, 64), hv_below(&R, 64), HWLOC_OBJ_SNPRINTF_FLAG_LONG_NAMES, hv_below(&R, 64) & ~(unsigned long)HWLOC_OBJ_SNPRINTF_FLAG_SHORT_NAMES };
  for (unsigned k = 0; k < 5 && !hv_viol_count(); k++) {
    struct pr_arg a = { o, fl[k], NULL };
    char *text = NULL;
    hv_ctxkey("type_snprintf:%s flags=%#lx", hwloc_obj_type_string(o->type), fl[k]);
    int n = hv_snp_contract("type_snprintf", type_call, &a, &text, &R);
    if (n < 0) { hv_viol("type_snprintf.error", "returned %d for %s flags %#lx", n, hwloc_obj_type_string(o->type), fl[k]); free(text); continue; }
    hv_stat("type_prints", 1);
    if (!(fl[k] & HWLOC_OBJ_SNPRINTF_FLAG_SHORT_NAMES)) {
      hwloc_obj_type_t ty = (hwloc_obj_type_t)-1; union hwloc_obj_attr_u at; memset(&at, 0xee, sizeof at);
      char *blk = hv_exact_dup(text, (size_t)n + 1);
      hv_ctxkey("type_sscanf:%s", text);
      int rc = hwloc_type_sscanf(blk, &ty, &at, sizeof at);
      free(blk);
      snprintf(key, sizeof key, "type_roundtrip.%s", hwloc_obj_type_string(o->type));
      if (rc != 0) hv_viol(key, "type_sscanf rejects '%s' printed for a %s with flags %#lx", text, hwloc_obj_type_string(o->type), fl[k]);
      else if (ty != o->type) hv_viol(key, "'%s' parses as type %d, object is %s (%d)", text, (int)ty, hwloc_obj_type_string(o->type), (int)o->type);
      else if (tk_is_cache(o->type) && (at.cache.depth != o->attr->cache.depth || at.cache.type != o->attr->cache.type))
        hv_viol(key, "'%s' parses as cache depth %u type %d, object has depth %u type %d", text, at.cache.depth, (int)at.cache.type, o->attr->cache.depth, (int)o->attr->cache.type);
      else if (o->type == HWLOC_OBJ_GROUP && at.group.depth != o->attr->group.depth)
        hv_viol(key, "'%s' parses as group depth %u, object has %u", text, at.group.depth, o->attr->group.depth);
      else if (o->type == HWLOC_OBJ_BRIDGE && at.bridge.upstream_type != o->attr->bridge.upstream_type)
        hv_viol(key, "'%s' parses as upstream type %d, object has %d", text, (int)at.bridge.upstream_type, (int)o->attr->bridge.upstream_type);
      else if (o->type == HWLOC_OBJ_OS_DEVICE && (at.osdev.types & OSDEV_DEFINED) != (o->attr->osdev.types & OSDEV_DEFINED))
        hv_viol(key, "'%s' parses as OS-device types %#lx, object has %#lx", text, at.osdev.types, o->attr->osdev.types);
      hv_stat("type_roundtrips", 1);
    }
    uint64_t sig = (uint64_t)o->type << 40 | fl[k] << 32;
    if (tk_is_cache(o->type)) sig |= (uint64_t)o->attr->cache.depth << 8 | (uint64_t)o->attr->cache.type;
    else if (o->type == HWLOC_OBJ_GROUP) sig |= o->attr->group.depth & 0xff;
    else if (o->type == HWLOC_OBJ_BRIDGE) sig |= (uint64_t)o->attr->bridge.upstream_type;
    else if (o->type == HWLOC_OBJ_OS_DEVICE) sig |= o->attr->osdev.types & 0xffffff;
    hv_distinct(1, hv_hash_u64(sig, 1));
    free(text);
  }
  /* the plain type name parses to the type */
  {
    hwloc_obj_type_t ty = (hwloc_obj_type_t)-1;
    const char *nm = hwloc_obj_type_string(o->type);
    char *blk = hv_exact_dup(nm, strlen(nm) + 1);
    if (hwloc_type_sscanf(blk, &ty, NULL, 0) != 0 || ty != o->type) { snprintf(key, sizeof key, "type_string_roundtrip.%s", nm); hv_viol(key, "hwloc_obj_type_string() text '%s' does not parse back to the type", nm); }
    free(blk);
  }
  /* attr_snprintf: separators of length 0..40, random flag words */
  for (unsigned k = 0; k < 3 && !hv_viol_count(); k++) {
    char sep[48]; unsigned sl = k == 0 ? 1 : (unsigned)hv_below(&R, 41);
    for (unsigned i = 0; i < sl; i++) sep[i] = k == 0 ? ' ' : (char)(33 + hv_below(&R, 90));
    sep[sl] = 0;
    struct pr_arg a = { o, hv_below(&R, 64), sep };
    if (k == 0) a.flags = HWLOC_OBJ_SNPRINTF_FLAG_MORE_ATTRS;
    hv_ctxkey("attr_snprintf:%s flags=%#lx seplen=%u", hwloc_obj_type_string(o->type), a.flags, sl);
    int n = hv_snp_contract("attr_snprintf", attr_call, &a, NULL, &R);
    if (n < 0) hv_viol("attr_snprintf.error", "returned %d for %s", n, hwloc_obj_type_string(o->type));
    hv_stat("attr_prints", 1);
    hv_max("max_attr_len", n > 0 ? (uint64_t)n : 0);
  }
}

/* rewrite osdev_type="N" words of an XML text */
static char *rewrite_osdev(const char *xml, size_t *lenp)
{
  static const unsigned long words[] = { 0, 1, 2, 4, 8, 16, 32, 64, 3, 12, 48, 0x7f, 0x55, 0x2a, 96, 5, 128, 256, 0x80 | 16, 1UL << 20, 0xffffffffUL, 1UL << 40, 0x7f | 1UL << 9 };
  struct hv_str out; hv_str_init(&out);
  const char *p = xml, *q;
  while ((q = strstr(p, "osdev_type=\"")) != NULL) {
    q += 12;
    hv_str_addn(&out, p, (size_t)(q - p));
    unsigned long w = hv_chance(&R, 1, 3) ? hv_below(&R, 128) : words[hv_below(&R, sizeof words / sizeof *words)];
    hv_str_add(&out, "%lu", w);
    p = strchr(q, '"'); if (!p) break;
  }
  if (p) hv_str_addn(&out, p, strlen(p));
  *lenp = out.len;
  return out.s;
}

static void objects_case(uint64_t index)
{
  hwloc_topology_t t = NULL; int stage;
  struct tg_config c; tg_config_default(&c);
  for (int ty = 0; ty < TG_NTYPES; ty++) c.filter[ty] = HWLOC_TYPE_FILTER_KEEP_ALL;
  c.filter[HWLOC_OBJ_GROUP] = HWLOC_TYPE_FILTER_KEEP_STRUCTURE;
  c.filter[HWLOC_OBJ_MACHINE] = c.filter[HWLOC_OBJ_PU] = c.filter[HWLOC_OBJ_NUMANODE] = -1;
  if (index % 4 == 0 && ncorpus) {
    const char *path = corpus[(index / 4) % ncorpus];
    size_t len; char *buf = tl_read_file(path, &len);
    if (!buf) hv_fail("cannot read %s", path);
    size_t l2; char *x = rewrite_osdev(buf, &l2);
    hv_desc("xml %s with rewritten osdev_type words\n", path);
    hv_ctxkey("load:xml");
    t = tl_load_xmlbuffer(x, l2 + 1, &c, &stage);
    free(x); free(buf);
    if (!t) { hv_stat("xml_load_failed", 1); return; }
  } else {
    static const char *extra[] = { "pack:2 l5:1 l4:2 l3:1 l3i:1 l2:2 l2i:1 l1:1 l1i:1 core:1 pu:2", "group:2 group:2 group:2 pack:2 pu:2", "[numa(memorysidecachesize=1MB)] pack:2 l1d:2 pu:1",
                                   "Group0:2 Group1:2 Group2:2 pu:1", "numa:2 die:2 l5:2 pu:1" };
    struct hv_str d; hv_str_init(&d);
    if (hv_chance(&R, 1, 4)) hv_str_add(&d, "%s", extra[hv_below(&R, 5)]);
    else { struct tg_synth_opts o; tg_synth_opts_default(&o); o.max_pus = 48; tg_synth_random(&R, &o, &d); }
    hv_desc("synthetic \"%s\"\n", d.s);
    hv_ctxkey("load:synthetic");
    t = tl_load_synthetic(d.s, &c, &stage);
    hv_str_free(&d);
    if (!t) { hv_stat("synthetic_load_failed", 1); return; }
  }
  if (hv_chance(&R, 1, 3)) {
    /* objects that appear after the load (inserted Groups at new or existing Group levels, Misc objects) and levels that change
     * (restrict) must print and parse like loaded ones */
    struct hx h; hx_init(&h, t, &R); h.allow_bad_args = 0; h.allow_grouping = 0; h.no_fragile_groups = 1;
    unsigned nops = 1 + (unsigned)hv_below(&R, 8), done = 0;
    hv_ctxkey("modify_before_printing");
    for (unsigned k = 0; k < nops; k++) { struct hx_result res; hx_random_op(&h, hv_chance(&R, 3, 4) ? 1u << HX_GROUP : (1u << HX_RESTRICT) | (1u << HX_MISC), &res); hv_desc("  %s -> %d\n", res.desc, res.rc); if (res.rc == 0) done++; if (res.fragile) break; }
    if (done) hv_stat("object_cases_after_modifications", 1);
  }
  struct tv_view vw; tv_view_build(t, &vw, 0);
  /* every object when small, otherwise every I/O + special object and a sample of the others */
  for (unsigned i = 0; i < vw.n && !hv_viol_count(); i++) {
    hwloc_obj_t o = vw.v[i].o;
    int take = vw.n <= 60 || vw.v[i].kind == TK_IO || o->type == HWLOC_OBJ_GROUP || o->type == HWLOC_OBJ_MEMCACHE || hv_chance(&R, 40, vw.n);
    if (take) check_object(o);
  }
  /* all objects of one normal or memory level print the same type text */
  int depth = hwloc_topology_get_depth(t);
  for (int d = -8; d < depth && !hv_viol_count(); d++) {
    if (d < 0 && d != HWLOC_TYPE_DEPTH_NUMANODE && d != HWLOC_TYPE_DEPTH_MEMCACHE) continue;
    unsigned n = hwloc_get_nbobjs_by_depth(t, d);
    char a[128], b[128];
    for (unsigned i = 1; i < n; i++) {
      unsigned long f = i % 2 ? 0 : HWLOC_OBJ_SNPRINTF_FLAG_LONG_NAMES;
      hwloc_obj_type_snprintf(a, sizeof a, hwloc_get_obj_by_depth(t, d, 0), f); hwloc_obj_type_snprintf(b, sizeof b, hwloc_get_obj_by_depth(t, d, i), f);
      if (strcmp(a, b)) { hv_viol("level_type_text", "objects 0 and %u of depth %d print '%s' and '%s'", i, d, a, b); break; }
    }
    hv_stat("levels_compared", 1);
  }
  if (index < 16) hv_sample("%s: %u objects", hv_desc_get(), vw.n);
  tv_view_free(&vw);
  hv_ctxkey("destroy");
  hwloc_topology_destroy(t);
}

static void hostile_case(uint64_t index)
{
  static const char *seeds[] = { "OSDev[", "os[", "OS[Net,GPU]", "osdev[gpu", "OSDev[,,,]", "os[]", "L1", "l0", "L6", "L3i", "L4i", "L1dCache", "L2ucache", "l1icachex", "Group", "group4294967295", "Group99999999999999999999",
    "gr-1", "hostbridge", "PCIBridge", "pci", "pcidev", "Memory-Side Cache", "memcache", "mem", "co-processor", "coproc", "core", "co", "c", "numa", "node", "no", "ma", "m", "socket", "PU", "p", "misc", "bridge", "bri",
    "storage", "block", "net", "ofed", "openfabrics", "dma", "gpu", "L99999999999", "l1:2", "package:", "Die[", "", " ", "L", "l", "L1 ", "OS[Net]x", "osdev[memory,storage,gpu,coproc,network,openfabrics,dma]" };
  struct hv_str s; hv_str_init(&s);
  unsigned cls = (unsigned)hv_below(&R, 4);
  if (cls < 3) {
    hv_str_add(&s, "%s", seeds[hv_below(&R, sizeof seeds / sizeof *seeds)]);
    if (cls >= 1) for (unsigned k = 0, n = 1 + (unsigned)hv_below(&R, 3); k < n; k++) {
      size_t pos = s.len ? (size_t)hv_below(&R, s.len + 1) : 0;
      switch (hv_below(&R, 5)) {
      case 4: { static const char hb[] = { (char)0xe0, (char)0xe1, (char)0x80, (char)0xff, (char)0xc0, (char)0xa0, (char)0xdf }; char c = hb[hv_below(&R, 7)]; hv_str_addn(&s, &c, 1); if (hv_chance(&R, 1, 2)) hv_str_add(&s, "%s", seeds[hv_below(&R, sizeof seeds / sizeof *seeds)]); break; }   /* a byte above 0x7f right after a (complete) name */
      case 0: { const char *t = seeds[hv_below(&R, sizeof seeds / sizeof *seeds)]; struct hv_str n2; hv_str_init(&n2); hv_str_addn(&n2, s.s, pos); hv_str_addn(&n2, t, strlen(t)); hv_str_addn(&n2, s.s + pos, s.len - pos); hv_str_free(&s); s = n2; break; }
      case 1: if (s.len) { s.len = pos; s.s[pos] = 0; } break;
      case 2: if (s.len) { size_t p = pos < s.len ? pos : s.len - 1; s.s[p] = (char)(1 + hv_below(&R, 255)); } break;
      default: if (s.len) { size_t p = pos < s.len ? pos : s.len - 1; s.s[p] ^= 0x20; } break;
      }
    }
  } else { unsigned n = (unsigned)hv_below(&R, 24); for (unsigned k = 0; k < n; k++) { char c = (char)(1 + hv_below(&R, 255)); hv_str_addn(&s, &c, 1); } }
  hv_desc("type_sscanf input: \"");
  for (size_t i = 0; i < s.len; i++) { unsigned char c = (unsigned char)s.s[i]; if (c >= 32 && c < 127 && c != '\\' && c != '"') hv_desc("%c", c); else hv_desc("\\x%02x", c); }
  hv_desc("\"\n");
  char *blk = hv_exact_dup(s.s, s.len + 1);
  hwloc_obj_type_t ty = (hwloc_obj_type_t)-1;
  union hwloc_obj_attr_u *at = malloc(sizeof *at);
  size_t sizes[] = { 0, sizeof at->cache, sizeof at->group, sizeof *at };
  for (unsigned k = 0; k < 5; k++) {
    hv_ctxkey("type_sscanf:hostile");
    int rc = k == 4 ? hwloc_type_sscanf(blk, &ty, NULL, 0) : hwloc_type_sscanf(blk, &ty, at, sizes[k]);
    if (rc != 0 && rc != -1) hv_viol("type_sscanf.retval", "returned %d", rc);
    if (rc == 0 && (unsigned)ty >= HWLOC_OBJ_TYPE_MAX) hv_viol("type_sscanf.type_range", "accepted input yields type %d", (int)ty);
    if (k == 3) { hv_stat(rc == 0 ? "hostile.accepted" : "hostile.rejected", 1); hv_distinct(2, hv_hash_u64((uint64_t)(rc == 0) << 40 | (uint64_t)(rc == 0 ? ty : 0) << 32 | (uint64_t)cls << 24 | (s.len > 12 ? 12 : s.len), hv_hash_bytes(s.s, s.len > 3 ? 3 : s.len, 0))); }
  }
  if (index < 24) hv_sample("%s", hv_desc_get());
  free(at); free(blk); hv_str_free(&s);
}

extern int hwloc_obj_type_is_normal(hwloc_obj_type_t);
static void table_case(void)
{
  /* exhaustive 20x20 table */
  for (int a = 0; a < HWLOC_OBJ_TYPE_MAX; a++) {
    int kinds = !!hwloc_obj_type_is_normal((hwloc_obj_type_t)a) + !!hwloc_obj_type_is_memory((hwloc_obj_type_t)a) + !!hwloc_obj_type_is_io((hwloc_obj_type_t)a) + (a == HWLOC_OBJ_MISC);
    if (kinds != 1) hv_viol("kinds.exactly_one", "type %s has %d of normal/memory/io/misc true", hwloc_obj_type_string((hwloc_obj_type_t)a), kinds);
    if ((int)tk_kind((hwloc_obj_type_t)a) != (hwloc_obj_type_is_normal((hwloc_obj_type_t)a) ? TK_NORMAL : hwloc_obj_type_is_memory((hwloc_obj_type_t)a) ? TK_MEMORY : hwloc_obj_type_is_io((hwloc_obj_type_t)a) ? TK_IO : TK_MISC))
      hv_viol("kinds.documented", "type %s: kind predicates disagree with the documented classification", hwloc_obj_type_string((hwloc_obj_type_t)a));
    int isc = hwloc_obj_type_is_cache((hwloc_obj_type_t)a), isd = hwloc_obj_type_is_dcache((hwloc_obj_type_t)a), isi = hwloc_obj_type_is_icache((hwloc_obj_type_t)a);
    int wantd = a >= HWLOC_OBJ_L1CACHE && a <= HWLOC_OBJ_L5CACHE, wanti = a >= HWLOC_OBJ_L1ICACHE && a <= HWLOC_OBJ_L3ICACHE;
    if (!!isd != wantd || !!isi != wanti || !!isc != (wantd || wanti)) hv_viol("kinds.cache", "type %s: cache predicates %d/%d/%d", hwloc_obj_type_string((hwloc_obj_type_t)a), isc, isd, isi);
    for (int b = 0; b < HWLOC_OBJ_TYPE_MAX; b++) {
      int ab = hwloc_compare_types((hwloc_obj_type_t)a, (hwloc_obj_type_t)b), ba = hwloc_compare_types((hwloc_obj_type_t)b, (hwloc_obj_type_t)a);
      hv_stat("table.pairs", 1);
      if (ab == HWLOC_TYPE_UNORDERED || ba == HWLOC_TYPE_UNORDERED) { if (ab != ba) hv_viol("compare.unordered_symmetric", "compare(%d,%d)=%d but compare(%d,%d)=%d", a, b, ab, b, a, ba); continue; }
      if (vs_sgn(ab) != -vs_sgn(ba)) hv_viol("compare.antisymmetric", "compare(%s,%s)=%d, compare(%s,%s)=%d", hwloc_obj_type_string((hwloc_obj_type_t)a), hwloc_obj_type_string((hwloc_obj_type_t)b), ab, hwloc_obj_type_string((hwloc_obj_type_t)b), hwloc_obj_type_string((hwloc_obj_type_t)a), ba);
      if ((a == b) != (ab == 0)) hv_viol("compare.zero_iff_same", "compare(%d,%d)=%d", a, b, ab);
      if (a == HWLOC_OBJ_MACHINE && b != a && ab >= 0) hv_viol("compare.machine_highest", "compare(Machine,%s)=%d", hwloc_obj_type_string((hwloc_obj_type_t)b), ab);
      if (b == HWLOC_OBJ_PU && a != b && ab >= 0) hv_viol("compare.pu_deepest", "compare(%s,PU)=%d", hwloc_obj_type_string((hwloc_obj_type_t)a), ab);
      /* types containing CPUs can always be compared */
      if (tk_kind((hwloc_obj_type_t)a) == TK_NORMAL && tk_kind((hwloc_obj_type_t)b) == TK_NORMAL && a != HWLOC_OBJ_GROUP && b != HWLOC_OBJ_GROUP && ab == HWLOC_TYPE_UNORDERED)
        hv_viol("compare.normal_comparable", "compare(%s,%s) is UNORDERED", hwloc_obj_type_string((hwloc_obj_type_t)a), hwloc_obj_type_string((hwloc_obj_type_t)b));
    }
  }
  hv_stat("table.exhaustive_runs", 1);
}

void hv_case(uint64_t index)
{
  hv_rng_seed(&R, HV.seed, "c11", index);
  switch (index % 4) {
  case 0: case 1: objects_case(index); break;
  case 2: hostile_case(index); break;
  default: if (index == 3) table_case(); else hostile_case(index); break;
  }
  hv_ctxkey("%s", "");
  hv_leak_check();
}
