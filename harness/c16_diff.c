/* C16: topology diffs: build/apply/reverse are inverse, failures roll back. */
#include "hv.h"
#include "topo.h"
#include "hist.h"
#include <hwloc/diff.h>

const char *hv_property = "C16";
unsigned hv_batch = 6;
unsigned hv_cpu_limit_s = 120;
static struct hv_rng R;
static const char **corpus; static unsigned ncorpus;

void hv_setup(void) { ncorpus = tl_corpus(&corpus); }

#define ATTRS (CANON_TREE | CANON_INFOS | CANON_TOPOINFOS | CANON_LIDX)   /* what a diff may carry, per object */

static unsigned diff_len(hwloc_topology_diff_t d, unsigned *too_complex) { unsigned n = 0; if (too_complex) *too_complex = 0; for (; d; d = d->generic.next) { n++; if (too_complex && d->generic.type == HWLOC_TOPOLOGY_DIFF_TOO_COMPLEX) (*too_complex)++; } return n; }
static int streq(const char *a, const char *b) { return (!a && !b) || (a && b && !strcmp(a, b)); }
static int diff_equal(hwloc_topology_diff_t a, hwloc_topology_diff_t b)
{
  for (; a && b; a = a->generic.next, b = b->generic.next) {
    if (a->generic.type != b->generic.type) return 0;
    if (a->generic.type == HWLOC_TOPOLOGY_DIFF_TOO_COMPLEX) { if (a->too_complex.obj_depth != b->too_complex.obj_depth || a->too_complex.obj_index != b->too_complex.obj_index) return 0; continue; }
    if (a->obj_attr.obj_depth != b->obj_attr.obj_depth || a->obj_attr.obj_index != b->obj_attr.obj_index || a->obj_attr.diff.generic.type != b->obj_attr.diff.generic.type) return 0;
    if (a->obj_attr.diff.generic.type == HWLOC_TOPOLOGY_DIFF_OBJ_ATTR_SIZE) { if (a->obj_attr.diff.uint64.index != b->obj_attr.diff.uint64.index || a->obj_attr.diff.uint64.oldvalue != b->obj_attr.diff.uint64.oldvalue || a->obj_attr.diff.uint64.newvalue != b->obj_attr.diff.uint64.newvalue) return 0; }
    else if (!streq(a->obj_attr.diff.string.name, b->obj_attr.diff.string.name) || !streq(a->obj_attr.diff.string.oldvalue, b->obj_attr.diff.string.oldvalue) || !streq(a->obj_attr.diff.string.newvalue, b->obj_attr.diff.string.newvalue)) return 0;
  }
  return !a && !b;
}
static void diff_desc(hwloc_topology_diff_t d)
{
  unsigned n = 0;
  for (; d && n < 12; d = d->generic.next, n++) {
    if (d->generic.type == HWLOC_TOPOLOGY_DIFF_TOO_COMPLEX) hv_desc("    [%u] TOO_COMPLEX depth %d index %u\n", n + 1, d->too_complex.obj_depth, d->too_complex.obj_index);
    else if (d->generic.type != HWLOC_TOPOLOGY_DIFF_OBJ_ATTR) hv_desc("    [%u] type %d\n", n + 1, (int)d->generic.type);
    else if (d->obj_attr.diff.generic.type == HWLOC_TOPOLOGY_DIFF_OBJ_ATTR_SIZE) hv_desc("    [%u] SIZE depth %d index %u: %llu -> %llu\n", n + 1, d->obj_attr.obj_depth, d->obj_attr.obj_index, (unsigned long long)d->obj_attr.diff.uint64.oldvalue, (unsigned long long)d->obj_attr.diff.uint64.newvalue);
    else hv_desc("    [%u] %s depth %d index %u: %s \"%s\" -> \"%s\"\n", n + 1, d->obj_attr.diff.generic.type == HWLOC_TOPOLOGY_DIFF_OBJ_ATTR_NAME ? "NAME" : d->obj_attr.diff.generic.type == HWLOC_TOPOLOGY_DIFF_OBJ_ATTR_INFO ? "INFO" : "?", d->obj_attr.obj_depth, d->obj_attr.obj_index,
                 d->obj_attr.diff.string.name ? d->obj_attr.diff.string.name : "-", d->obj_attr.diff.string.oldvalue ? d->obj_attr.diff.string.oldvalue : "(null)", d->obj_attr.diff.string.newvalue ? d->obj_attr.diff.string.newvalue : "(null)");
  }
}

static hwloc_topology_diff_t mk_string(int depth, unsigned index, int type, const char *name, const char *ov, const char *nv)
{
  hwloc_topology_diff_t d = calloc(1, sizeof *d);
  d->obj_attr.type = HWLOC_TOPOLOGY_DIFF_OBJ_ATTR; d->obj_attr.obj_depth = depth; d->obj_attr.obj_index = index;
  d->obj_attr.diff.string.type = (hwloc_topology_diff_obj_attr_type_t)type; d->obj_attr.diff.string.name = name ? strdup(name) : NULL; d->obj_attr.diff.string.oldvalue = strdup(ov); d->obj_attr.diff.string.newvalue = strdup(nv);
  return d;
}
static hwloc_topology_diff_t mk_size(int depth, unsigned index, uint64_t ov, uint64_t nv)
{
  hwloc_topology_diff_t d = calloc(1, sizeof *d);
  d->obj_attr.type = HWLOC_TOPOLOGY_DIFF_OBJ_ATTR; d->obj_attr.obj_depth = depth; d->obj_attr.obj_index = index;
  d->obj_attr.diff.uint64.type = HWLOC_TOPOLOGY_DIFF_OBJ_ATTR_SIZE; d->obj_attr.diff.uint64.oldvalue = ov; d->obj_attr.diff.uint64.newvalue = nv;
  return d;
}

/* ---- edits on B ---- */
static unsigned n_repr, n_nonrepr, n_ambiguous;
static uint64_t edit_mask;

static void edit_representable(hwloc_topology_t b, hwloc_topology_t a)
{
  struct hx h; hx_init(&h, b, &R);
  unsigned kind = (unsigned)hv_below(&R, 4);
  if (kind == 0) {   /* rename an object that has a name */
    for (int tries = 0; tries < 30; tries++) { hwloc_obj_t o = hx_pick_obj(&h, 0); if (!o->name) continue;
      char nn[40]; snprintf(nn, sizeof nn, "renamed%u%s", (unsigned)hv_below(&R, 1000), hv_chance(&R, 1, 3) ? "<&\"" : "");
      if (!strcmp(nn, o->name)) continue;
      hv_desc("  edit: rename %s L%u \"%s\" -> \"%s\"\n", hwloc_obj_type_string(o->type), o->logical_index, o->name, nn);
      free(o->name); o->name = strdup(nn); n_repr++; edit_mask |= 1; return; }
  } else if (kind == 1) {   /* change an info value */
    for (int tries = 0; tries < 30; tries++) { hwloc_obj_t o = hx_pick_obj(&h, 0); if (!o->infos.count) continue;
      unsigned i = (unsigned)hv_below(&R, o->infos.count); struct hwloc_info_s *inf = &o->infos.array[i];
      char nv[40]; if (hv_chance(&R, 1, 4) && o->infos.count > 1) snprintf(nv, sizeof nv, "%s", o->infos.array[hv_below(&R, o->infos.count)].value); else snprintf(nv, sizeof nv, "val%u", (unsigned)hv_below(&R, 50));
      if (!strcmp(nv, inf->value)) continue;
      hv_desc("  edit: info[%u] of %s L%u (%s) \"%s\" -> \"%s\"\n", i, hwloc_obj_type_string(o->type), o->logical_index, inf->name, inf->value, nv);
      free(inf->value); inf->value = strdup(nv); n_repr++; edit_mask |= 2; return; }
  } else if (kind == 2) {   /* NUMA local memory, total_memory kept consistent */
    int nn = hwloc_get_nbobjs_by_type(b, HWLOC_OBJ_NUMANODE); hwloc_obj_t n = hwloc_get_obj_by_type(b, HWLOC_OBJ_NUMANODE, (unsigned)hv_below(&R, (uint64_t)nn));
    uint64_t old = n->attr->numanode.local_memory, nv = hv_chance(&R, 1, 5) ? 0 : hv_below(&R, 1ULL << 36);
    if (nv == old) return;
    hv_desc("  edit: local_memory of NUMANode L%u %llu -> %llu\n", n->logical_index, (unsigned long long)old, (unsigned long long)nv);
    n->attr->numanode.local_memory = nv; for (hwloc_obj_t p = n; p; p = p->parent) p->total_memory += nv - old; n_repr++; edit_mask |= 4; return;
  } else {   /* topology info value */
    struct hwloc_infos_s *ti = hwloc_topology_get_infos(b);
    if (!ti->count) return;
    unsigned i = (unsigned)hv_below(&R, ti->count); char nv[40]; snprintf(nv, sizeof nv, "tv%u", (unsigned)hv_below(&R, 50));
    if (!strcmp(nv, ti->array[i].value)) return;
    hv_desc("  edit: topology info[%u] (%s) \"%s\" -> \"%s\"\n", i, ti->array[i].name, ti->array[i].value, nv);
    free(ti->array[i].value); ti->array[i].value = strdup(nv); n_repr++; edit_mask |= 8; return;
  }
  (void)a;
}

static void edit_nonrepresentable1(hwloc_topology_t b);
/* an edit only counts when it changed something observable (registering an existing kind again, restricting to everything ... are no-ops) */
static void edit_nonrepresentable(hwloc_topology_t b)
{
  struct hv_str before, after; hv_str_init(&before); hv_str_init(&after);
  canon_dump(b, CANON_EQUIV, &before);
  char *x1 = NULL, *x2 = NULL; int l1 = 0, l2 = 0; hwloc_topology_export_xmlbuffer(b, &x1, &l1, 0);   /* the XML also shows forced efficiencies */
  unsigned n0 = n_nonrepr; uint64_t m0 = edit_mask;
  edit_nonrepresentable1(b);
  canon_dump(b, CANON_EQUIV, &after);
  hwloc_topology_export_xmlbuffer(b, &x2, &l2, 0);
  int xml_same = x1 && x2 && l1 == l2 && !memcmp(x1, x2, (size_t)l1);
  if (x1) hwloc_free_xmlbuffer(b, x1); if (x2) hwloc_free_xmlbuffer(b, x2);
  if (n_nonrepr != n0 && !canon_diff(&before, &after) && xml_same) { n_nonrepr = n0; edit_mask = m0; hv_desc("    (no observable change)\n"); hv_stat("edits.nonrepresentable_noop", 1); }
  hv_str_free(&before); hv_str_free(&after);
}
static void edit_nonrepresentable1(hwloc_topology_t b)
{
  struct hx h; hx_init(&h, b, &R);
  unsigned kind = (unsigned)hv_below(&R, 15);
  hwloc_obj_t o = hx_pick_obj(&h, 0);
  if (kind >= 13) {
    /* the allowed sets of the topology: only the cpuset, or only the nodeset, shrinks (needs INCLUDE_DISALLOWED) */
    if (!(hwloc_topology_get_flags(b) & HWLOC_TOPOLOGY_FLAG_INCLUDE_DISALLOWED)) return;
    int bynode = kind == 14; hwloc_bitmap_t set = hwloc_bitmap_dup(bynode ? hwloc_topology_get_allowed_nodeset(b) : hwloc_topology_get_allowed_cpuset(b));
    if (hwloc_bitmap_weight(set) < 2) { hwloc_bitmap_free(set); return; }
    unsigned drop = (unsigned)hv_below(&R, (uint64_t)hwloc_bitmap_weight(set)), n = 0; int id; hwloc_bitmap_foreach_begin(id, set) if (n++ == drop) { hwloc_bitmap_clr(set, (unsigned)id); break; } hwloc_bitmap_foreach_end();
    int rc = hwloc_topology_allow(b, bynode ? NULL : set, bynode ? set : NULL, HWLOC_ALLOW_FLAG_CUSTOM);
    hv_desc("  edit*: allow(CUSTOM, %s only, one index dropped) -> %d\n", bynode ? "nodeset" : "cpuset", rc);
    hwloc_bitmap_free(set);
    if (rc == 0) { n_nonrepr++; edit_mask |= 1u << 20 << bynode; hv_stat(bynode ? "edits.allowed_nodeset" : "edits.allowed_cpuset", 1); }
    return;
  }
  if (kind >= 10) {
    /* type-specific attributes and os_index are public fields (hwloc-annotate edits some of them): a diff cannot express such a change */
    struct tv_view vw; tv_view_build(b, &vw, 0); hwloc_obj_t pick = NULL; unsigned seen = 0;
    for (unsigned i = 0; i < vw.n; i++) { hwloc_obj_t q = vw.v[i].o; int ok = kind == 10 ? hwloc_obj_type_is_cache(q->type) : kind == 11 ? (q->type == HWLOC_OBJ_GROUP || q->type == HWLOC_OBJ_PCI_DEVICE || q->type == HWLOC_OBJ_OS_DEVICE || q->type == HWLOC_OBJ_BRIDGE) : (q->type == HWLOC_OBJ_CORE || q->type == HWLOC_OBJ_PACKAGE || q->type == HWLOC_OBJ_DIE || hwloc_obj_type_is_cache(q->type));
      if (ok && hv_below(&R, ++seen) == 0) pick = q; }
    tv_view_free(&vw);
    if (!pick) return;
    if (kind == 10) { unsigned f = (unsigned)hv_below(&R, 3); if (f == 0) pick->attr->cache.size += 4096; else if (f == 1) pick->attr->cache.linesize += 64; else pick->attr->cache.associativity += 1; hv_desc("  edit*: cache attribute %u of %s L%u changed\n", f, hwloc_obj_type_string(pick->type), pick->logical_index); }
    else if (kind == 11) { if (pick->type == HWLOC_OBJ_GROUP) pick->attr->group.subkind += 1; else if (pick->type == HWLOC_OBJ_PCI_DEVICE) pick->attr->pcidev.device_id ^= 1; else if (pick->type == HWLOC_OBJ_OS_DEVICE) pick->attr->osdev.types ^= HWLOC_OBJ_OSDEV_GPU; else pick->attr->bridge.depth += 1; hv_desc("  edit*: type-specific attribute of %s L%u changed\n", hwloc_obj_type_string(pick->type), pick->logical_index); }
    else { pick->os_index += 1000; hv_desc("  edit*: os_index of %s L%u changed\n", hwloc_obj_type_string(pick->type), pick->logical_index); }
    n_nonrepr++; edit_mask |= 16384u << (kind - 10); hv_stat(kind == 10 ? "edits.cache_attr" : kind == 11 ? "edits.other_attr" : "edits.os_index", 1);
    return;
  }
  if (kind == 0) { hv_desc("  edit*: add info to %s L%u\n", hwloc_obj_type_string(o->type), o->logical_index); hwloc_obj_add_info(o, "Added", "x"); n_nonrepr++; edit_mask |= 16; }
  else if (kind == 1) { if (!o->infos.count) return; hv_desc("  edit*: remove infos named %s from %s L%u\n", o->infos.array[0].name, hwloc_obj_type_string(o->type), o->logical_index); char *nm = strdup(o->infos.array[0].name); hwloc_modify_infos(&o->infos, HWLOC_MODIFY_INFOS_OP_REMOVE, nm, NULL); free(nm); n_nonrepr++; edit_mask |= 32; }
  else if (kind == 2) { if (hwloc_topology_insert_misc_object(b, o, "diffmisc")) { hv_desc("  edit*: insert Misc below %s L%u\n", hwloc_obj_type_string(o->type), o->logical_index); n_nonrepr++; edit_mask |= 64; } }
  else if (kind == 3) { struct hv_str before, after; hv_str_init(&before); hv_str_init(&after); canon_dump(b, CANON_EQUIV, &before); struct hx_result res; h.allow_bad_args = 0; hx_random_op(&h, 1u << HX_RESTRICT, &res); canon_dump(b, CANON_EQUIV, &after);
    if (res.rc == 0 && canon_diff(&before, &after)) { hv_desc("  edit*: %s\n", res.desc); n_nonrepr++; edit_mask |= 128; } hv_str_free(&before); hv_str_free(&after); }
  else if (kind == 4) { const char *ns = o->subtype ? NULL : "SubT"; hv_desc("  edit*: subtype of %s L%u -> %s\n", hwloc_obj_type_string(o->type), o->logical_index, ns ? ns : "(unset)"); hwloc_obj_set_subtype(b, o, ns); n_nonrepr++; edit_mask |= 256; }
  else if (kind == 5) { if (o->name) { hv_desc("  edit*: unset name of %s L%u\n", hwloc_obj_type_string(o->type), o->logical_index); free(o->name); o->name = NULL; } else { hv_desc("  edit*: set name of unnamed %s L%u\n", hwloc_obj_type_string(o->type), o->logical_index); o->name = strdup("newname"); } n_nonrepr++; edit_mask |= 512; }
  else if (kind == 6) { struct hx_result res; h.allow_bad_args = 0; h.allow_grouping = 0; hx_random_op(&h, 1u << HX_DIST_ADD, &res); if (res.rc == 0) { hv_desc("  edit*: %s\n", res.desc); n_nonrepr++; edit_mask |= 1024; } }
  else if (kind == 7) { struct hx_result res; h.allow_bad_args = 0; hx_random_op(&h, 1u << HX_MEMATTR_REG, &res); if (res.rc == 0) { hv_desc("  edit*: %s\n", res.desc); n_nonrepr++; edit_mask |= 2048; } }
  else if (kind == 8) { hwloc_bitmap_t cs = hwloc_bitmap_dup(hwloc_topology_get_topology_cpuset(b)); hwloc_bitmap_singlify(cs); struct hwloc_infos_s infos = { NULL, 0, 0 }; if (hwloc_cpukinds_register(b, cs, (int)hv_below(&R, 3), &infos, 0) == 0) { hv_desc("  edit*: cpukind register\n"); n_nonrepr++; edit_mask |= 4096; } hwloc_bitmap_free(cs); }
  else { struct hwloc_infos_s *ti = hwloc_topology_get_infos(b); hv_desc("  edit*: add topology info\n"); hwloc_modify_infos(ti, HWLOC_MODIFY_INFOS_OP_ADD, "TopoAdded", "1"); n_nonrepr++; edit_mask |= 8192; }
}

/* attributes a diff can carry that actually differ between A and B (edits may cancel each other) */
static unsigned count_effective(hwloc_topology_t a, hwloc_topology_t b)
{
  unsigned n = 0;
  struct tv_view va, vb; tv_view_build(a, &va, 0); tv_view_build(b, &vb, 0);
  for (unsigned k = 0; k <= va.n && va.n == vb.n; k++) {
    struct hwloc_infos_s *ia = k < va.n ? &va.v[k].o->infos : hwloc_topology_get_infos(a), *ib = k < vb.n ? &vb.v[k].o->infos : hwloc_topology_get_infos(b);
    for (unsigned i = 0; i < ia->count && i < ib->count; i++) if (strcmp(ia->array[i].value, ib->array[i].value)) n++;
    if (k < va.n) { hwloc_obj_t x = va.v[k].o, y = vb.v[k].o; if (x->name && y->name && strcmp(x->name, y->name)) n++; if (x->type == HWLOC_OBJ_NUMANODE && y->type == HWLOC_OBJ_NUMANODE && x->attr->numanode.local_memory != y->attr->numanode.local_memory) n++; }
  }
  tv_view_free(&va); tv_view_free(&vb);
  return n;
}

/* info changes whose (name, old value) is also found earlier in the same array cannot be addressed by a diff entry */
static unsigned count_ambiguous(hwloc_topology_t a, hwloc_topology_t b)
{
  unsigned amb = 0;
  struct tv_view va, vb; tv_view_build(a, &va, 0); tv_view_build(b, &vb, 0);
  for (unsigned k = 0; k <= va.n && va.n == vb.n; k++) {
    struct hwloc_infos_s *ia = k < va.n ? &va.v[k].o->infos : hwloc_topology_get_infos(a), *ib = k < vb.n ? &vb.v[k].o->infos : hwloc_topology_get_infos(b);
    if (ia->count != ib->count) continue;
    for (unsigned i = 0; i < ia->count; i++) { if (!strcmp(ia->array[i].value, ib->array[i].value)) continue;
      for (unsigned j = 0; j < i; j++) if (!strcmp(ia->array[j].name, ia->array[i].name) && (!strcmp(ib->array[j].value, ia->array[i].value) || !strcmp(ia->array[j].value, ib->array[i].value))) { amb++; break; } }
  }
  tv_view_free(&va); tv_view_free(&vb);
  return amb;
}

static int same(hwloc_topology_t x, hwloc_topology_t y, unsigned what, const char *key, const char *msg)
{
  struct hv_str a, b; hv_str_init(&a); hv_str_init(&b); canon_dump(x, what, &a); canon_dump(y, what, &b);
  const char *d = canon_diff(&a, &b);
  if (d) hv_viol(key, "%s: %s", msg, d);
  hv_str_free(&a); hv_str_free(&b);
  return !d;
}

/* bulk pair: every object of a 100-700 object machine renamed (and half of them with an info value changed): diffs of hundreds of entries whose
 * XML is far beyond the exporters' initial buffers. Everything in it is representable. */
static void bulk_case(uint64_t index)
{
  static const char *const D[] = { "pack:4 core:8 pu:4", "numa:2 pack:2 l3:2 core:4 pu:2", "pack:2 l2:6 core:2 pu:3", "group:3 pack:3 core:5 pu:4", "pu:120" };
  const char *desc = D[hv_below(&R, 5)];
  struct tg_config c; tg_config_default(&c); int stage; hwloc_topology_t A = tl_load_synthetic(desc, &c, &stage);
  if (!A) { hv_stat("bulk.source_load_failed", 1); return; }
  hv_desc("bulk pair on \"%s\": every object renamed\n", desc);
  struct tv_view vw; tv_view_build(A, &vw, 0);
  unsigned pad = (unsigned)hv_below(&R, 60);
  for (unsigned i = 0; i < vw.n; i++) { char nm[128]; snprintf(nm, sizeof nm, "original-name-%u-%.*s", i, (int)pad, "xxxxxxxxxxxxxxxxxxxxxxxxxxxxxxxxxxxxxxxxxxxxxxxxxxxxxxxxxxxxxxxx"); free(vw.v[i].o->name); vw.v[i].o->name = strdup(nm); if (i % 2) hwloc_obj_add_info(vw.v[i].o, "Bulk", "before"); }
  unsigned nobj = vw.n; tv_view_free(&vw);
  hwloc_topology_t B = NULL, A2 = NULL; if (hwloc_topology_dup(&B, A) != 0 || hwloc_topology_dup(&A2, A) != 0) { hv_viol("setup.dup", "dup failed"); hwloc_topology_destroy(A); if (B) hwloc_topology_destroy(B); return; }
  unsigned expect = 0;
  tv_view_build(B, &vw, 0);
  for (unsigned i = 0; i < vw.n; i++) { char nm[128]; snprintf(nm, sizeof nm, "renamed-%u-%.*s", i, (int)pad, "yyyyyyyyyyyyyyyyyyyyyyyyyyyyyyyyyyyyyyyyyyyyyyyyyyyyyyyyyyyyyyyy"); free(vw.v[i].o->name); vw.v[i].o->name = strdup(nm); expect++;
    if (i % 2) { struct hwloc_infos_s *inf = &vw.v[i].o->infos; for (unsigned q = 0; q < inf->count; q++) if (!strcmp(inf->array[q].name, "Bulk")) { free(inf->array[q].value); inf->array[q].value = strdup("after"); expect++; } } }
  tv_view_free(&vw);
  hwloc_topology_diff_t Df = NULL; hv_ctxkey("bulk:build");
  int rc = hwloc_topology_diff_build(A, B, 0, &Df); unsigned tc = 0, len = diff_len(Df, &tc);
  if (rc != 0 || tc || len != expect) hv_viol("bulk.build", "diff_build of %u renames/info changes on %u objects returned %d with %u entries (%u TOO_COMPLEX), expected 0 with %u", expect, nobj, rc, len, tc, expect);
  else {
    hv_ctxkey("bulk:diff_xml");
    char *buf = NULL; int bl = 0; const char *refname = "bulk-ref";
    if (hwloc_topology_diff_export_xmlbuffer(Df, refname, &buf, &bl) != 0) hv_viol("diff_xml.export_failed", "export of a %u-entry diff failed errno %d", len, errno);
    else { hv_max("bulk.max_diff_xml_bytes", (uint64_t)bl);
      if (bl <= 0 || buf[bl - 1] != 0 || strlen(buf) != (size_t)bl - 1) hv_viol("diff_xml.length", "exported length %d but the text has %zu characters (+NUL)", bl, strlen(buf));
      hwloc_topology_diff_t L = NULL; char *rn = NULL;
      if (hwloc_topology_diff_load_xmlbuffer(buf, bl, &L, &rn) != 0) hv_viol("diff_xml.load_failed", "own export (%d bytes) of a %u-entry diff could not be loaded", bl, len);
      else { if (!diff_equal(Df, L)) hv_viol("diff_xml.differs", "the %u-entry diff loaded from its XML export differs (%u entries back)", len, diff_len(L, NULL));
        if (!streq(refname, rn)) hv_viol("diff_xml.refname", "refname came back as \"%s\"", rn ? rn : "(null)");
        free(rn); hwloc_topology_diff_destroy(L); hv_stat("bulk.diff_xml_roundtrips", 1); }
      hwloc_free_xmlbuffer(A, buf); }
    hv_ctxkey("bulk:apply");
    if (hwloc_topology_diff_apply(A2, Df, 0) != 0) hv_viol("bulk.apply", "applying the %u-entry diff failed", len);
    else { hwloc_topology_diff_t again = NULL; int r2 = hwloc_topology_diff_build(A2, B, 0, &again); if (r2 != 0 || again) hv_viol("apply.not_equal", "after applying the bulk diff, diff_build(patched, B) returns %d with %u entries", r2, diff_len(again, NULL)); if (again) hwloc_topology_diff_destroy(again);
      if (hwloc_topology_diff_apply(A2, Df, HWLOC_TOPOLOGY_DIFF_APPLY_REVERSE) != 0) hv_viol("bulk.reverse", "reverse-applying the bulk diff failed");
      else { again = NULL; r2 = hwloc_topology_diff_build(A2, A, 0, &again); if (r2 != 0 || again) hv_viol("reverse.not_equal", "after reverse-applying the bulk diff, A is not restored"); if (again) hwloc_topology_diff_destroy(again); } }
    hv_stat("bulk.pairs", 1); hv_distinct(1, hv_hash_u64(len, hv_hash_str(desc, pad)));
  }
  if (Df) hwloc_topology_diff_destroy(Df);
  hv_ctxkey("bulk:destroy");
  hwloc_topology_destroy(A); hwloc_topology_destroy(B); hwloc_topology_destroy(A2);
  hv_ctxkey("%s", "");
  hv_leak_check();
}

void hv_case(uint64_t index)
{
  hv_rng_seed(&R, HV.seed, "c16", index);
  if (index % 32 == 13) { bulk_case(index); return; }
  struct tg_config c; tg_config_random(&R, &c, 0);
  c.flags &= (HWLOC_TOPOLOGY_FLAG_INCLUDE_DISALLOWED | HWLOC_TOPOLOGY_FLAG_NO_DISTANCES | HWLOC_TOPOLOGY_FLAG_NO_CPUKINDS | HWLOC_TOPOLOGY_FLAG_NO_MEMATTRS);
  if (hv_chance(&R, 2, 3)) c.flags &= HWLOC_TOPOLOGY_FLAG_INCLUDE_DISALLOWED;
  if (hv_chance(&R, 1, 2)) { c.filter[HWLOC_OBJ_MISC] = HWLOC_TYPE_FILTER_KEEP_ALL; c.filter[HWLOC_OBJ_BRIDGE] = c.filter[HWLOC_OBJ_PCI_DEVICE] = c.filter[HWLOC_OBJ_OS_DEVICE] = HWLOC_TYPE_FILTER_KEEP_ALL; }
  struct hv_str cs; hv_str_init(&cs); tg_config_str(&c, &cs);
  hwloc_topology_t A; int stage;
  hv_ctxkey("source_load");
  if (index % 3 == 1 && ncorpus) { const char *path = corpus[(index / 3) % ncorpus]; hv_desc("source: xml %s config %s\n", path, cs.s); A = tl_load_xmlfile(path, &c, &stage); }
  else { struct tg_synth_opts o; tg_synth_opts_default(&o); o.max_pus = 48; struct hv_str d; hv_str_init(&d); tg_synth_random(&R, &o, &d); hv_desc("source: synthetic \"%s\" config %s\n", d.s, cs.s); A = tl_load_synthetic(d.s, &c, &stage); hv_str_free(&d); }
  hv_str_free(&cs);
  if (!A) { hv_stat("source_load_failed", 1); return; }
  if (hwloc_bitmap_last(hwloc_topology_get_complete_cpuset(A)) >= 1700 || hwloc_bitmap_last(hwloc_topology_get_complete_nodeset(A)) >= 1700) { hv_stat("skipped_beyond_window", 1); hwloc_topology_destroy(A); return; }
  /* annotate A: names, duplicate info pairs, topology infos */
  { struct hx h; hx_init(&h, A, &R); h.allow_bad_args = 0; h.allow_grouping = 0; hx_annotate(&h, 3 + (unsigned)hv_below(&R, 8));
    struct tv_view vw; tv_view_build(A, &vw, 0);
    for (unsigned i = 0; i < vw.n; i++) { hwloc_obj_t o = vw.v[i].o;
      if (!o->name && hv_chance(&R, 1, 2)) { char nm[32]; snprintf(nm, sizeof nm, "n%u", (unsigned)hv_below(&R, 8)); o->name = strdup(nm); }
      if (hv_chance(&R, 1, 3)) { unsigned k = 1 + (unsigned)hv_below(&R, 4); for (unsigned j = 0; j < k; j++) { char nm[8], vl[8]; snprintf(nm, sizeof nm, "K%u", (unsigned)hv_below(&R, 2)); snprintf(vl, sizeof vl, "v%u", (unsigned)hv_below(&R, 3)); hwloc_obj_add_info(o, nm, vl); } } }
    tv_view_free(&vw);
    if (hv_chance(&R, 1, 2)) { struct hwloc_infos_s *ti = hwloc_topology_get_infos(A); hwloc_modify_infos(ti, HWLOC_MODIFY_INFOS_OP_ADD, "TI", "a"); hwloc_modify_infos(ti, HWLOC_MODIFY_INFOS_OP_ADD, "TI", "b"); } }
  hwloc_topology_t B = NULL, A2 = NULL;
  hv_ctxkey("dup");
  if (hwloc_topology_dup(&B, A) != 0 || hwloc_topology_dup(&A2, A) != 0) { hv_viol("setup.dup", "dup failed"); hwloc_topology_destroy(A); if (B) hwloc_topology_destroy(B); return; }
  n_repr = n_nonrepr = 0; edit_mask = 0;
  if (getenv("VERIF_DEBUG")) { struct hv_str x; hv_str_init(&x); canon_dump(B, CANON_CPUKINDS, &x); fprintf(stderr, "B after dup: %s\n", x.s); hv_str_reset(&x); canon_dump(A, CANON_CPUKINDS, &x); fprintf(stderr, "A after dup: %s\n", x.s); hv_str_free(&x); }
  unsigned ne = (unsigned)hv_below(&R, 7);
  int want_nonrepr = hv_chance(&R, 1, 4);
  hv_ctxkey("edit");
  for (unsigned k = 0; k < ne; k++) edit_representable(B, A);
  if (want_nonrepr) edit_nonrepresentable(B);
  n_ambiguous = n_nonrepr ? 0 : count_ambiguous(A, B);
  if (!n_nonrepr) n_repr = count_effective(A, B);

  /* 1. build */
  hv_ctxkey("build");
  hwloc_topology_diff_t D = (hwloc_topology_diff_t)(uintptr_t)0x1; errno = 0;
  int rc = hwloc_topology_diff_build(A, B, 0, &D);
  unsigned tc = 0, len = rc >= 0 ? diff_len(D, &tc) : 0;
  hv_desc("  build -> %d, %u entries, %u TOO_COMPLEX (%u representable edits, %u non-representable, %u ambiguous)\n", rc, len, tc, n_repr, n_nonrepr, n_ambiguous);
  if (rc >= 0) diff_desc(D);
  hv_stat("builds", 1);
  int expect_complex = n_nonrepr || n_ambiguous;
  if (rc < 0) hv_viol("build.failed", "diff_build failed with errno %d", errno);
  else if (rc == 1 && !tc) hv_viol("build.one_without_too_complex", "diff_build returned 1 without a TOO_COMPLEX entry");
  else if (rc == 0 && tc) hv_viol("build.zero_with_too_complex", "diff_build returned 0 with %u TOO_COMPLEX entries", tc);
  else if (rc == 0 && expect_complex) hv_viol(n_nonrepr ? "build.missed_nonrepresentable" : "build.missed_ambiguous_info", "diff_build returned 0 although B differs in something a diff cannot express (%u such edits, %u ambiguous duplicate info changes)", n_nonrepr, n_ambiguous);
  else if (rc == 1 && !expect_complex) hv_viol("build.spurious_too_complex", "diff_build returned 1 although only representable edits were made (%u)", n_repr);
  else if (rc == 0 && !n_repr && D) hv_viol("build.nonempty_for_identical", "diff_build returned %u entries for identical topologies", len);
  else if (rc == 0 && !expect_complex && len != n_repr) hv_viol("build.entry_count", "diff_build returned %u entries for %u differing attributes", len, n_repr);
  else if (rc == 0 && n_repr && !D) hv_viol("build.empty_for_different", "diff_build returned a NULL diff although %u attributes were changed", n_repr);
  if (rc == 1) hv_stat("builds.too_complex", 1);
  if (!hv_viol_count() && rc == 0 && D) {
    hv_stat("builds.applicable_nonempty", 1); hv_max("max_diff_entries", len);
    /* 2. apply on the copy of A */
    hv_ctxkey("apply");
    errno = 0; int ar = hwloc_topology_diff_apply(A2, D, 0);
    if (ar != 0) hv_viol("apply.failed", "applying the built diff to a copy of A returned %d errno %d", ar, errno);
    else {
      same(A2, B, ATTRS, "apply.result_differs", "after applying diff(A,B) to a copy of A it differs from B in an attribute a diff carries");
      if (!hv_viol_count()) { hwloc_topology_diff_t D2 = (hwloc_topology_diff_t)(uintptr_t)0x1; int r2 = hwloc_topology_diff_build(A2, B, 0, &D2); if (r2 != 0 || D2) { hv_desc("  rebuild:\n"); if (r2 >= 0) diff_desc(D2); hv_viol("apply.rebuild_not_empty", "diff_build(applied copy, B) returned %d with %u entries, expected 0 and NULL", r2, r2 >= 0 ? diff_len(D2, NULL) : 0); } if (r2 >= 0) hwloc_topology_diff_destroy(D2); }
      if (!hv_viol_count() && wf_check(A2, "applied.") == 0) hv_stat("applied_wellformed", 1);
      /* 3. reverse */
      if (!hv_viol_count()) { hv_ctxkey("reverse"); errno = 0; int rr = hwloc_topology_diff_apply(A2, D, HWLOC_TOPOLOGY_DIFF_APPLY_REVERSE);
        if (rr != 0) hv_viol("reverse.failed", "APPLY_REVERSE on the patched copy returned %d errno %d", rr, errno);
        else same(A2, A, CANON_EQUIV, "reverse.result_differs", "after apply + APPLY_REVERSE the copy differs from A"); hv_stat("reverse_applied", 1); }
    }
    /* 4. XML export / load */
    if (!hv_viol_count()) {
      hv_ctxkey("diff_xml");
      char ref[40]; snprintf(ref, sizeof ref, "ref%u%s", (unsigned)hv_below(&R, 100), hv_chance(&R, 1, 3) ? "<&\">" : ""); const char *refname = hv_chance(&R, 1, 5) ? NULL : ref;
      char *buf = NULL; int bl = 0;
      if (hwloc_topology_diff_export_xmlbuffer(D, refname, &buf, &bl) != 0) hv_viol("diff_xml.export_failed", "diff export failed errno %d", errno);
      else {
        hwloc_topology_diff_t L = NULL; char *rn = (char *)(uintptr_t)0x1;
        if (hwloc_topology_diff_load_xmlbuffer(buf, bl, &L, &rn) != 0) hv_viol("diff_xml.load_failed", "own diff export could not be loaded");
        else {
          if (!diff_equal(D, L)) { hv_desc("  loaded:\n"); diff_desc(L); hv_viol("diff_xml.differs", "the diff loaded from its XML export differs from the original (%u vs %u entries)", diff_len(L, NULL), len); }
          if (!streq(refname, rn)) hv_viol("diff_xml.refname", "refname \"%s\" came back as \"%s\"", refname ? refname : "(null)", rn && rn != (char *)(uintptr_t)0x1 ? rn : "(null)");
          if (rn && rn != (char *)(uintptr_t)0x1) free(rn);
          hwloc_topology_diff_destroy(L);
          hv_stat("diff_xml_roundtrips", 1);
        }
        hwloc_free_xmlbuffer(A, buf);
      }
    }
  }
  /* 5. rollback: a list with a failing N-th entry */
  if (!hv_viol_count() && rc == 0) {
    hv_ctxkey("rollback");
    /* copy the entries of D, add chained entries on the same attribute, then a failing one at position N */
    hwloc_topology_diff_t list[64]; unsigned n = 0;
    for (hwloc_topology_diff_t d = D; d && n < 20; d = d->generic.next) {
      if (d->obj_attr.diff.generic.type == HWLOC_TOPOLOGY_DIFF_OBJ_ATTR_SIZE) { list[n++] = mk_size(d->obj_attr.obj_depth, d->obj_attr.obj_index, d->obj_attr.diff.uint64.oldvalue, d->obj_attr.diff.uint64.newvalue);
        if (hv_chance(&R, 1, 2)) { list[n++] = mk_size(d->obj_attr.obj_depth, d->obj_attr.obj_index, d->obj_attr.diff.uint64.newvalue, d->obj_attr.diff.uint64.newvalue + 4096); hv_stat("rollback.chained_entries", 1); } }
      else { list[n++] = mk_string(d->obj_attr.obj_depth, d->obj_attr.obj_index, (int)d->obj_attr.diff.string.type, d->obj_attr.diff.string.name, d->obj_attr.diff.string.oldvalue, d->obj_attr.diff.string.newvalue);
        if (hv_chance(&R, 1, 2)) { char nv[64]; snprintf(nv, sizeof nv, "chained-%u-unique", n); list[n++] = mk_string(d->obj_attr.obj_depth, d->obj_attr.obj_index, (int)d->obj_attr.diff.string.type, d->obj_attr.diff.string.name, d->obj_attr.diff.string.newvalue, nv); hv_stat("rollback.chained_entries", 1); } }
    }
    /* a few extra valid entries straight from A */
    { int nn = hwloc_get_nbobjs_by_type(A, HWLOC_OBJ_NUMANODE); hwloc_obj_t nd = hwloc_get_obj_by_type(A, HWLOC_OBJ_NUMANODE, (unsigned)hv_below(&R, (uint64_t)nn));
      int touched = 0; for (unsigned i = 0; i < n; i++) if (list[i]->obj_attr.diff.generic.type == HWLOC_TOPOLOGY_DIFF_OBJ_ATTR_SIZE && list[i]->obj_attr.obj_depth == nd->depth && list[i]->obj_attr.obj_index == nd->logical_index) touched = 1;
      if (!touched) { list[n++] = mk_size(nd->depth, nd->logical_index, nd->attr->numanode.local_memory, nd->attr->numanode.local_memory + 77); list[n++] = mk_size(nd->depth, nd->logical_index, nd->attr->numanode.local_memory + 77, 12345); hv_stat("rollback.chained_entries", 1); } }
    unsigned N = 1 + (unsigned)hv_below(&R, n + 1);   /* 1-based position of the failing entry */
    hwloc_topology_diff_t bad; unsigned bk = (unsigned)hv_below(&R, 6);
    if (bk == 0) bad = mk_size(hwloc_topology_get_depth(A) + 3, 0, 1, 2);                                   /* no such object */
    else if (bk == 1) bad = mk_string(0, 0, HWLOC_TOPOLOGY_DIFF_OBJ_ATTR_INFO, "NoSuchInfo", "x", "y");      /* no such pair */
    else if (bk == 2) bad = mk_size(0, 0, 1, 2);                                                             /* SIZE on a non-NUMA object */
    else if (bk == 3) { bad = calloc(1, sizeof *bad); bad->too_complex.type = HWLOC_TOPOLOGY_DIFF_TOO_COMPLEX; }
    else if (bk == 4) bad = mk_string(0, 0, HWLOC_TOPOLOGY_DIFF_OBJ_ATTR_NAME, NULL, "certainly not the root name", "y");
    else { bad = mk_string(0, 0, 99, "x", "a", "b"); }                                                       /* unknown attribute type */
    for (unsigned i = n; i >= N; i--) list[i] = list[i - 1];
    list[N - 1] = bad; n++;
    for (unsigned i = 0; i < n; i++) list[i]->generic.next = i + 1 < n ? list[i + 1] : NULL;
    hv_desc("  rollback list: %u entries, failing one at position %u (kind %u)\n", n, N, bk); diff_desc(list[0]);
    hwloc_topology_t A3 = NULL; hwloc_topology_dup(&A3, A);
    struct hv_str before; hv_str_init(&before); canon_dump(A3, CANON_EQUIV, &before);
    errno = 0; int ar = hwloc_topology_diff_apply(A3, list[0], 0);
    hv_stat("rollback.applies", 1);
    if (ar != -(int)N) hv_viol("rollback.return_value", "apply of a %u-entry list whose entry %u cannot be applied returned %d, expected %d", n, N, ar, -(int)N);
    else { struct hv_str after; hv_str_init(&after); canon_dump(A3, CANON_EQUIV, &after); const char *d = canon_diff(&before, &after);
      if (d) hv_viol(N > 1 ? "rollback.topology_changed" : "rollback.topology_changed_first", "after a failed apply (entry %u of %u) the topology differs from before the call: %s", N, n, d);
      hv_str_free(&after); if (N > 2) hv_stat("rollback.after_two_or_more_applied", 1); }
    hv_str_free(&before);
    /* the same in the reverse direction: a copy of B, the entries of the diff with a failing one at position M, APPLY_REVERSE */
    if (!hv_viol_count() && D) {
      hwloc_topology_diff_t rl[40]; unsigned rn = 0;
      for (hwloc_topology_diff_t d = D; d && rn < 30; d = d->generic.next) {
        if (d->obj_attr.diff.generic.type == HWLOC_TOPOLOGY_DIFF_OBJ_ATTR_SIZE) rl[rn++] = mk_size(d->obj_attr.obj_depth, d->obj_attr.obj_index, d->obj_attr.diff.uint64.oldvalue, d->obj_attr.diff.uint64.newvalue);
        else rl[rn++] = mk_string(d->obj_attr.obj_depth, d->obj_attr.obj_index, (int)d->obj_attr.diff.string.type, d->obj_attr.diff.string.name, d->obj_attr.diff.string.oldvalue, d->obj_attr.diff.string.newvalue);
      }
      unsigned M = 1 + (unsigned)hv_below(&R, rn + 1);
      hwloc_topology_diff_t rbad = hv_chance(&R, 1, 2) ? mk_size(hwloc_topology_get_depth(A) + 3, 0, 1, 2) : mk_string(0, 0, HWLOC_TOPOLOGY_DIFF_OBJ_ATTR_INFO, "NoSuchInfo", "x", "y");
      for (unsigned i = rn; i >= M; i--) rl[i] = rl[i - 1];
      rl[M - 1] = rbad; rn++;
      for (unsigned i = 0; i < rn; i++) rl[i]->generic.next = i + 1 < rn ? rl[i + 1] : NULL;
      hwloc_topology_t B3 = NULL; hwloc_topology_dup(&B3, B);
      struct hv_str b0; hv_str_init(&b0); canon_dump(B3, CANON_EQUIV, &b0);
      errno = 0; int rr = hwloc_topology_diff_apply(B3, rl[0], HWLOC_TOPOLOGY_DIFF_APPLY_REVERSE);
      hv_desc("  reverse rollback list: %u entries, failing one at position %u -> %d\n", rn, M, rr);
      if (rr != -(int)M) hv_viol("rollback.reverse.return_value", "APPLY_REVERSE of a %u-entry list whose entry %u cannot be applied returned %d, expected %d", rn, M, rr, -(int)M);
      else { struct hv_str b1; hv_str_init(&b1); canon_dump(B3, CANON_EQUIV, &b1); const char *d = canon_diff(&b0, &b1); if (d) hv_viol("rollback.reverse.topology_changed", "after a failed APPLY_REVERSE (entry %u of %u) the topology differs from before the call: %s", M, rn, d); hv_str_free(&b1); if (M > 1) hv_stat("rollback.reverse.after_one_or_more_applied", 1); }
      hv_str_free(&b0); hwloc_topology_destroy(B3); hwloc_topology_diff_destroy(rl[0]);
      hv_stat("rollback.reverse.applies", 1);
    }
    /* unknown flags */
    errno = 0; if (hwloc_topology_diff_apply(A3, NULL, 2UL << hv_below(&R, 5)) != -1 || errno != EINVAL) hv_viol("apply.flags", "unknown apply flags accepted");
    hwloc_topology_destroy(A3);
    /* list[] entries are ours: free them with the library destructor (same allocator) */
    if (bad->generic.type == HWLOC_TOPOLOGY_DIFF_OBJ_ATTR && bad->obj_attr.diff.generic.type == 99) { free(bad->obj_attr.diff.string.name); free(bad->obj_attr.diff.string.oldvalue); free(bad->obj_attr.diff.string.newvalue); bad->obj_attr.diff.string.name = bad->obj_attr.diff.string.oldvalue = bad->obj_attr.diff.string.newvalue = NULL; }
    hwloc_topology_diff_destroy(list[0]);
  }
  if (rc >= 0 && D && D != (hwloc_topology_diff_t)(uintptr_t)0x1) hwloc_topology_diff_destroy(D);
  { errno = 0; hwloc_topology_diff_t X; if (hwloc_topology_diff_build(A, B, 1UL << hv_below(&R, 6), &X) != -1 || errno != EINVAL) hv_viol("build.flags", "non-zero build flags accepted"); }
  if (!hv_viol_count() && (n_repr >= 2 || n_nonrepr)) { hv_stat("nontrivial_pairs", 1); hv_distinct(1, hv_hash_u64(edit_mask, hv_hash_u64(n_repr * 4 + (rc == 1), tv_shape_hash(A)))); }
  if (index < 6) hv_sample("%s", hv_desc_get());
  hv_ctxkey("destroy");
  hwloc_topology_destroy(A); hwloc_topology_destroy(B); hwloc_topology_destroy(A2);
  hv_ctxkey("%s", "");
  hv_leak_check();
}
