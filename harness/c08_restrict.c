/* C08: hwloc_topology_restrict removes exactly what the set excludes, or nothing.
 * Before/after model keyed by gp_index; see DESIGN 4.0 for the conservative readings. */
#include "hv.h"
#include "topo.h"
#include "hist.h"

const char *hv_property = "C08";
unsigned hv_batch = 6;
unsigned hv_cpu_limit_s = 120;
static struct hv_rng R;
static const char **corpus; static unsigned ncorpus;
static char s1[400], s2[400];

void hv_setup(void) { ncorpus = tl_corpus(&corpus); }

struct snap_obj { uint64_t gp; hwloc_obj_type_t type; enum tk_kind kind; int parent; int has_sets; vset cs, ccs, ns, cns; unsigned os; int filter; };
struct snapshot { struct snap_obj *v; unsigned n; vset allowed_c, allowed_n; };

static void take(hwloc_topology_t t, struct snapshot *s)
{
  struct tv_view vw; tv_view_build(t, &vw, 1);
  s->n = vw.n; s->v = calloc(vw.n + 1, sizeof *s->v);
  for (unsigned i = 0; i < vw.n; i++) {
    struct snap_obj *o = &s->v[i]; struct tv_obj *e = &vw.v[i];
    o->gp = e->o->gp_index; o->type = e->o->type; o->kind = e->kind; o->parent = e->parent; o->has_sets = e->has_sets; o->os = e->o->os_index;
    o->cs = e->cs; o->ccs = e->ccs; o->ns = e->ns; o->cns = e->cns;
    enum hwloc_type_filter_e f = 0; hwloc_topology_get_type_filter(t, e->o->type, &f); o->filter = (int)f;
  }
  tv_observe(hwloc_topology_get_allowed_cpuset(t), &s->allowed_c); tv_observe(hwloc_topology_get_allowed_nodeset(t), &s->allowed_n);
  tv_view_free(&vw);
}
static void drop(struct snapshot *s) { free(s->v); s->v = NULL; s->n = 0; }
static int find_gp(const struct snapshot *s, uint64_t gp) { for (unsigned i = 0; i < s->n; i++) if (s->v[i].gp == gp) return (int)i; return -1; }
static int is_ancestor(const struct snapshot *s, int anc, int idx) { for (int p = s->v[idx].parent; p >= 0; p = s->v[p].parent) if (p == anc) return 1; return 0; }

#define VIOL(cond, ...) do { char k_[96]; snprintf(k_, sizeof k_, "restrict.%s.f%lx", cond, flags & 31); hv_viol(k_, __VA_ARGS__); } while (0)

static void one_restrict(hwloc_topology_t t, unsigned round)
{
  unsigned long flags = hv_below(&R, 32);
  if (hv_chance(&R, 1, 3)) flags &= 7;                      /* by cpuset, consistent */
  if (hv_chance(&R, 1, 8)) flags = (flags & 6) | HWLOC_RESTRICT_FLAG_BYNODESET | (hv_chance(&R, 1, 2) ? HWLOC_RESTRICT_FLAG_REMOVE_MEMLESS : 0);
  if (hv_chance(&R, 1, 30)) flags |= 1UL << (5 + hv_below(&R, 12));
  int bynode = !!(flags & HWLOC_RESTRICT_FLAG_BYNODESET);
  struct snapshot A; take(t, &A);
  /* the set */
  vset S; vs_zero(&S);
  const vset *base = bynode ? &A.v[0].ns : &A.v[0].cs;
  unsigned cls = (unsigned)hv_below(&R, 12);
  switch (cls) {
  case 0: break;
  case 1: vs_fill(&S); break;
  case 2: S = *base; vs_set_range(&S, 1800, 1850); break;
  case 3: vs_set_range(&S, 1800, 1810); break;
  case 4: case 5: { struct snap_obj *o = &A.v[hv_below(&R, A.n)]; if (o->has_sets) S = bynode ? o->ns : o->cs; break; }
  case 6: { struct snap_obj *o = &A.v[hv_below(&R, A.n)]; S = *base; if (o->has_sets) vs_andnot(&S, &S, bynode ? &o->ns : &o->cs); break; }
  case 7: { vs_not(&S, base); vs_clr_range(&S, 1900, -1); break; }               /* complement inside the window: disjoint */
  case 8: { long f = vs_first(base); if (f >= 0) vs_set(&S, (unsigned)f); break; }
  default: for (unsigned i = 0; i < VS_W; i++) if (VS_BIT(base, i) && hv_chance(&R, cls == 9 ? 1 : 3, 4)) vs_set(&S, i); break;
  }
  hwloc_bitmap_t sb = tv_to_bitmap(&S);
  struct hv_str before, after; hv_str_init(&before); hv_str_init(&after);
  canon_dump(t, CANON_ALL & ~CANON_SUPPORT, &before);
  hv_desc("round %u: restrict({%s}, flags=%#lx)", round, vs_str(&S, s1, sizeof s1), flags);
  hv_ctxkey("restrict:f%lx", flags & 31);
  errno = 0;
  int rc = hwloc_topology_restrict(t, sb, flags);
  int e = errno;
  hv_desc(" -> %d errno %d\n", rc, rc ? e : 0);
  hwloc_bitmap_free(sb);
  hv_stat(rc == 0 ? "restrict.ok" : "restrict.failed", 1);

  /* documented EINVAL conditions */
  int unknown = !!(flags & ~31UL);
  int inconsistent = (bynode && (flags & HWLOC_RESTRICT_FLAG_REMOVE_CPULESS)) || (!bynode && (flags & HWLOC_RESTRICT_FLAG_REMOVE_MEMLESS));
  int no_inter = !vs_intersects(&S, bynode ? &A.allowed_n : &A.allowed_c);
  if (rc == 0 && (unknown || inconsistent || no_inter)) VIOL("must_fail", "restrict succeeded although %s", unknown ? "unknown flag bits are set" : inconsistent ? "the flags are inconsistent" : "the set does not intersect the allowed set");
  if (rc < 0) {
    if (e == EINVAL) {
      canon_dump(t, CANON_ALL & ~CANON_SUPPORT, &after);
      const char *df = canon_diff(&before, &after);
      if (df) VIOL("einval_changed", "restrict failed with EINVAL but the topology changed: %s", df);
      hv_stat("restrict.einval_unchanged_checked", 1);
      if (!(unknown || inconsistent || no_inter)) hv_stat("restrict.einval_other_reason", 1);
    } else VIOL("errno", "restrict failed with errno %d", e);
    if (wf_check(t, "after_failed_restrict.") == 0) wf_builtin(t, "after_failed_restrict");
    goto out;
  }
  {
    char pfx[48]; snprintf(pfx, sizeof pfx, "after_restrict.f%lx.", flags & 31);
    if (wf_check(t, pfx) != 0) goto out;
    wf_builtin(t, pfx);
  }
  struct snapshot B; take(t, &B);
  /* dropped resources according to the documentation of the flags */
  vset dropc, dropn; vs_zero(&dropc); vs_zero(&dropn);
  if (!bynode) {
    vs_not(&dropc, &S);
    if (flags & HWLOC_RESTRICT_FLAG_REMOVE_CPULESS)
      for (unsigned i = 0; i < A.n; i++) if (A.v[i].type == HWLOC_OBJ_NUMANODE) { vset left; vs_and(&left, &A.v[i].cs, &S); if (vs_iszero(&left)) vs_set(&dropn, A.v[i].os); }
  } else {
    vs_not(&dropn, &S);
    if (flags & HWLOC_RESTRICT_FLAG_REMOVE_MEMLESS)
      for (unsigned i = 0; i < A.n; i++) if (A.v[i].type == HWLOC_OBJ_PU) { vset left; vs_and(&left, &A.v[i].ns, &S); if (vs_iszero(&left)) vs_set(&dropc, A.v[i].os); }
  }
  /* 1. root and allowed sets */
  {
    vset w; struct snap_obj *ra = &A.v[0], *rb = &B.v[0];
    vs_andnot(&w, &ra->cs, &dropc); if (!vs_isequal(&w, &rb->cs)) VIOL("root_cpuset", "topology cpuset {%s}, expected {%s}", vs_str(&rb->cs, s1, sizeof s1), vs_str(&w, s2, sizeof s2));
    vs_andnot(&w, &ra->ccs, &dropc); if (!vs_isequal(&w, &rb->ccs)) VIOL("root_complete_cpuset", "complete cpuset {%s}, expected {%s}", vs_str(&rb->ccs, s1, sizeof s1), vs_str(&w, s2, sizeof s2));
    vs_andnot(&w, &A.allowed_c, &dropc); if (!vs_isequal(&w, &B.allowed_c)) VIOL("allowed_cpuset", "allowed cpuset {%s}, expected {%s}", vs_str(&B.allowed_c, s1, sizeof s1), vs_str(&w, s2, sizeof s2));
    vs_andnot(&w, &ra->ns, &dropn); if (!vs_isequal(&w, &rb->ns)) VIOL("root_nodeset", "topology nodeset {%s}, expected {%s}", vs_str(&rb->ns, s1, sizeof s1), vs_str(&w, s2, sizeof s2));
    vs_andnot(&w, &ra->cns, &dropn); if (!vs_isequal(&w, &rb->cns)) VIOL("root_complete_nodeset", "complete nodeset {%s}, expected {%s}", vs_str(&rb->cns, s1, sizeof s1), vs_str(&w, s2, sizeof s2));
    vs_andnot(&w, &A.allowed_n, &dropn); if (!vs_isequal(&w, &B.allowed_n)) VIOL("allowed_nodeset", "allowed nodeset {%s}, expected {%s}", vs_str(&B.allowed_n, s1, sizeof s1), vs_str(&w, s2, sizeof s2));
  }
  /* 3+4. every remaining object is an old object with its old sets minus the dropped resources */
  int *newidx = malloc(A.n * sizeof *newidx); for (unsigned i = 0; i < A.n; i++) newidx[i] = -1;
  for (unsigned j = 0; j < B.n && !hv_viol_count(); j++) {
    int i = find_gp(&A, B.v[j].gp);
    if (i < 0) { VIOL("new_object", "%s gp_index %llu did not exist before the restrict", hwloc_obj_type_string(B.v[j].type), (unsigned long long)B.v[j].gp); continue; }
    newidx[i] = (int)j;
    if (A.v[i].type != B.v[j].type) VIOL("type_changed", "gp_index %llu changed type", (unsigned long long)B.v[j].gp);
    if (!A.v[i].has_sets) continue;
    vset w;
    vs_andnot(&w, &A.v[i].cs, &dropc); if (!vs_isequal(&w, &B.v[j].cs)) VIOL("obj_cpuset", "%s gp%llu cpuset {%s}, expected old minus dropped {%s}", hwloc_obj_type_string(B.v[j].type), (unsigned long long)B.v[j].gp, vs_str(&B.v[j].cs, s1, sizeof s1), vs_str(&w, s2, sizeof s2));
    vs_andnot(&w, &A.v[i].ccs, &dropc); if (!vs_isequal(&w, &B.v[j].ccs)) VIOL("obj_complete_cpuset", "%s gp%llu complete_cpuset {%s}, expected {%s}", hwloc_obj_type_string(B.v[j].type), (unsigned long long)B.v[j].gp, vs_str(&B.v[j].ccs, s1, sizeof s1), vs_str(&w, s2, sizeof s2));
    vs_andnot(&w, &A.v[i].ns, &dropn); if (!vs_isequal(&w, &B.v[j].ns)) VIOL("obj_nodeset", "%s gp%llu nodeset {%s}, expected {%s}", hwloc_obj_type_string(B.v[j].type), (unsigned long long)B.v[j].gp, vs_str(&B.v[j].ns, s1, sizeof s1), vs_str(&w, s2, sizeof s2));
    vs_andnot(&w, &A.v[i].cns, &dropn); if (!vs_isequal(&w, &B.v[j].cns)) VIOL("obj_complete_nodeset", "%s gp%llu complete_nodeset {%s}, expected {%s}", hwloc_obj_type_string(B.v[j].type), (unsigned long long)B.v[j].gp, vs_str(&B.v[j].cns, s1, sizeof s1), vs_str(&w, s2, sizeof s2));
  }
  /* 2+5+6. who may disappear */
  unsigned removed_nonleaf = 0, reattached = 0; uint64_t removed_types = 0;
  /* needed[i]: a surviving PU or NUMA node remains in the old subtree of i */
  char *needed = calloc(A.n + 1, 1);
  for (unsigned i = 0; i < A.n; i++) {
    int keep = 0;
    if (A.v[i].type == HWLOC_OBJ_PU) keep = !vs_isset(&dropc, A.v[i].os);
    if (A.v[i].type == HWLOC_OBJ_NUMANODE) keep = !vs_isset(&dropn, A.v[i].os);
    if (keep) for (int p = (int)i; p >= 0; p = A.v[p].parent) needed[p] = 1;
  }
  for (unsigned i = 0; i < A.n && !hv_viol_count(); i++) {
    struct snap_obj *o = &A.v[i];
    int gone = newidx[i] < 0;
    if (o->type == HWLOC_OBJ_PU) {
      if (gone != vs_isset(&dropc, o->os)) VIOL("pu_set", "PU P#%u %s although it is %s the dropped cpuset", o->os, gone ? "disappeared" : "remains", vs_isset(&dropc, o->os) ? "in" : "not in");
    } else if (o->type == HWLOC_OBJ_NUMANODE) {
      if (gone && !vs_isset(&dropn, o->os)) VIOL("numa_vanished", "NUMA node P#%u disappeared although it is not CPU-less+REMOVE_CPULESS / excluded by the nodeset", o->os);
      if (!gone && vs_isset(&dropn, o->os)) VIOL("numa_kept", "NUMA node P#%u remains although its index was dropped from the nodesets", o->os);
    } else if (o->kind == TK_NORMAL || o->kind == TK_MEMORY) {
      if (gone) { if (o->parent >= 0) { removed_nonleaf++; removed_types |= 1ULL << o->type; } }
      if (gone && needed[i]) {
        /* only a structurally redundant level may go: its type must be mergeable (KEEP_STRUCTURE) */
        if (o->filter == HWLOC_TYPE_FILTER_KEEP_STRUCTURE || o->type == HWLOC_OBJ_DIE || o->type == HWLOC_OBJ_PACKAGE) hv_stat("restrict.merged_redundant_objects", 1);
        else VIOL("needed_object_vanished", "%s gp%llu disappeared although a PU or NUMA node remains below it and its type is not mergeable", hwloc_obj_type_string(o->type), (unsigned long long)o->gp);
      }
    }
  }
  /* 7. Misc and I/O children */
  for (unsigned i = 0; i < A.n && !hv_viol_count(); i++) {
    struct snap_obj *m = &A.v[i];
    if ((m->kind != TK_MISC && m->kind != TK_IO) || m->parent < 0) continue;
    struct snap_obj *p = &A.v[m->parent];
    int gone = newidx[i] < 0, pgone = newidx[m->parent] < 0;
    int adapt = !!(flags & (m->kind == TK_MISC ? HWLOC_RESTRICT_FLAG_ADAPT_MISC : HWLOC_RESTRICT_FLAG_ADAPT_IO));
    if (p->kind == TK_MISC || p->kind == TK_IO) {           /* nested special: follows its parent */
      if (gone != pgone) VIOL("special_nested", "%s gp%llu %s but its %s parent %s", hwloc_obj_type_string(m->type), (unsigned long long)m->gp, gone ? "disappeared" : "remains", hwloc_obj_type_string(p->type), pgone ? "disappeared" : "remains");
      else if (!gone && B.v[B.v[newidx[i]].parent].gp != p->gp) VIOL("special_nested_parent", "%s gp%llu moved to another parent", hwloc_obj_type_string(m->type), (unsigned long long)m->gp);
      continue;
    }
    if (!pgone) {
      if (gone) VIOL("special_lost", "%s gp%llu was lost although its parent %s gp%llu survives", hwloc_obj_type_string(m->type), (unsigned long long)m->gp, hwloc_obj_type_string(p->type), (unsigned long long)p->gp);
      else if (B.v[B.v[newidx[i]].parent].gp != p->gp) VIOL("special_moved", "%s gp%llu moved away from its surviving parent", hwloc_obj_type_string(m->type), (unsigned long long)m->gp);
    } else if (needed[m->parent]) {                          /* parent went away through a level merge: children are kept */
      if (gone) VIOL("special_lost_in_merge", "%s gp%llu was lost although its parent only disappeared through a level merge", hwloc_obj_type_string(m->type), (unsigned long long)m->gp);
      else reattached++;
    } else if (adapt) {
      if (gone) VIOL("special_not_adapted", "%s gp%llu was dropped with its parent although the ADAPT flag is set", hwloc_obj_type_string(m->type), (unsigned long long)m->gp);
      else {
        reattached++;
        /* new parent: the closest old ancestor below which something remains; when that ancestor itself went away through a level
         * merge, its merge partner (an object with exactly its remaining cpuset) takes over */
        int np = find_gp(&A, B.v[B.v[newidx[i]].parent].gp);
        /* walk up from the old parent: the first ancestor that survives is the expected new parent; an ancestor that keeps resources
         * but went away (level merge) hands its children to its merge partner */
        int anc = m->parent, via_merge = 0;
        while (anc >= 0 && newidx[anc] < 0) { if (needed[anc]) { via_merge = 1; break; } anc = A.v[anc].parent; }
        if (np < 0) VIOL("special_adapted_parent", "re-attached below a new object");
        else if (anc < 0) VIOL("special_adapted_parent", "no surviving ancestor");
        else if (!via_merge) {
          if (np == anc) hv_stat("restrict.adapted_to_closest_ancestor", 1);
          else VIOL("special_adapted_not_closest", "%s gp%llu re-attached to %s gp%llu, the closest surviving ancestor of its old parent is %s gp%llu", hwloc_obj_type_string(m->type), (unsigned long long)m->gp, hwloc_obj_type_string(A.v[np].type), (unsigned long long)A.v[np].gp, hwloc_obj_type_string(A.v[anc].type), (unsigned long long)A.v[anc].gp);
        } else {
          vset w; vs_andnot(&w, &A.v[anc].cs, &dropc);
          if (A.v[np].has_sets && vs_isequal(&B.v[newidx[np]].cs, &w)) hv_stat("restrict.adapted_to_merge_partner", 1);
          else VIOL("special_adapted_parent", "%s gp%llu re-attached to %s gp%llu (cpuset {%s}) which is not the merge partner of its merged ancestor %s gp%llu (remaining cpuset {%s})", hwloc_obj_type_string(m->type), (unsigned long long)m->gp, hwloc_obj_type_string(A.v[np].type), (unsigned long long)A.v[np].gp, vs_str(&B.v[newidx[np]].cs, s1, sizeof s1), hwloc_obj_type_string(A.v[anc].type), (unsigned long long)A.v[anc].gp, vs_str(&w, s2, sizeof s2));
        }
      }
    } else {
      if (!gone) VIOL("special_kept_without_adapt", "%s gp%llu survives although its parent %s was removed and the ADAPT flag is not set", hwloc_obj_type_string(m->type), (unsigned long long)m->gp, hwloc_obj_type_string(p->type));
    }
  }
  /* no object twice */
  for (unsigned j = 1; j < B.n; j++) if (find_gp(&B, B.v[j].gp) != (int)j) { VIOL("duplicated", "gp_index %llu appears twice after the restrict", (unsigned long long)B.v[j].gp); break; }
  if (removed_nonleaf || reattached) hv_distinct(1, hv_hash_u64(removed_types, hv_hash_u64(flags & 31, tv_shape_hash(t))));
  hv_stat("restrict.modelled", 1);
  if (reattached) hv_stat("restrict.with_reattached_specials", 1);
  free(newidx); free(needed); drop(&B);
out:
  hv_str_free(&before); hv_str_free(&after);
  drop(&A);
}

void hv_case(uint64_t index)
{
  hv_rng_seed(&R, HV.seed, "c08", index);
  struct tg_config c; tg_config_random(&R, &c, 0);
  c.flags &= (HWLOC_TOPOLOGY_FLAG_INCLUDE_DISALLOWED | HWLOC_TOPOLOGY_FLAG_NO_DISTANCES | HWLOC_TOPOLOGY_FLAG_NO_MEMATTRS | HWLOC_TOPOLOGY_FLAG_NO_CPUKINDS);
  if (hv_chance(&R, 1, 2)) { c.filter[HWLOC_OBJ_MISC] = HWLOC_TYPE_FILTER_KEEP_ALL; c.filter[HWLOC_OBJ_BRIDGE] = c.filter[HWLOC_OBJ_PCI_DEVICE] = c.filter[HWLOC_OBJ_OS_DEVICE] = hv_chance(&R, 1, 2) ? HWLOC_TYPE_FILTER_KEEP_ALL : HWLOC_TYPE_FILTER_KEEP_IMPORTANT; }
  struct hv_str cs; hv_str_init(&cs); tg_config_str(&c, &cs);
  hwloc_topology_t t; int stage;
  hv_ctxkey("initial_load");
  if (index % 3 == 1 && ncorpus) {
    const char *path = corpus[(index / 3) % ncorpus];
    hv_desc("initial: xml %s config %s\n", path, cs.s);
    t = tl_load_xmlfile(path, &c, &stage);
  } else {
    struct tg_synth_opts o; tg_synth_opts_default(&o); o.max_pus = 64;
    struct hv_str d; hv_str_init(&d); tg_synth_random(&R, &o, &d);
    hv_desc("initial: synthetic \"%s\" config %s\n", d.s, cs.s);
    t = tl_load_synthetic(d.s, &c, &stage);
    hv_str_free(&d);
  }
  hv_str_free(&cs);
  if (!t) { hv_stat("initial_load_failed", 1); return; }
  if (hwloc_bitmap_last(hwloc_topology_get_complete_cpuset(t)) >= 1700 || hwloc_bitmap_last(hwloc_topology_get_complete_nodeset(t)) >= 1700) { hv_stat("skipped_beyond_window", 1); hwloc_topology_destroy(t); return; }
  /* Misc objects everywhere (when the filter keeps them) */
  struct hx h; hx_init(&h, t, &R); h.allow_bad_args = 0;
  unsigned nmisc = (unsigned)hv_below(&R, 8);
  for (unsigned k = 0; k < nmisc; k++) { struct hx_result res; hx_random_op(&h, 1u << HX_MISC, &res); }
  if (wf_check(t, "initial.") != 0) { hwloc_topology_destroy(t); return; }
  unsigned rounds = 1 + (unsigned)hv_below(&R, 4);
  for (unsigned r = 0; r < rounds && !hv_viol_count(); r++) one_restrict(t, r);
  if (index < 8) hv_sample("%s", hv_desc_get());
  hv_ctxkey("destroy");
  hwloc_topology_destroy(t);
  hv_ctxkey("%s", "");
  hv_leak_check();
}
