/* C14: memory attributes: stored values are returned, best-of queries are optimal. Reference map model. */
#include "hv.h"
#include "topo.h"
#include "hist.h"
#include <hwloc/memattrs.h>

const char *hv_property = "C14";
unsigned hv_batch = 6;
unsigned hv_cpu_limit_s = 120;
static struct hv_rng R;
static const char **corpus; static unsigned ncorpus;

void hv_setup(void) { ncorpus = tl_corpus(&corpus); }

#define MAXA 20
#define MAXT 24
#define MAXI 10
struct mini { int isobj; hwloc_bitmap_t cs; hwloc_obj_type_t otype; uint64_t ogp; uint64_t val; };
struct mtgt { uint64_t gp; uint64_t noinit; unsigned ni; struct mini ini[MAXI]; };
struct mattr { char name[48]; unsigned long flags; int conv; int unmodeled; unsigned nt; struct mtgt tg[MAXT]; };
static struct mattr A[MAXA]; static unsigned NA;
static hwloc_topology_t T;

#define NEEDI(a) ((a)->flags & HWLOC_MEMATTR_FLAG_NEED_INITIATOR)
#define HIGHER(a) ((a)->flags & HWLOC_MEMATTR_FLAG_HIGHER_FIRST)

static void model_free(void)
{
  for (unsigned a = 0; a < NA; a++) for (unsigned t = 0; t < A[a].nt; t++) for (unsigned i = 0; i < A[a].tg[t].ni; i++) if (A[a].tg[t].ini[i].cs) hwloc_bitmap_free(A[a].tg[t].ini[i].cs);
  NA = 0; memset(A, 0, sizeof A);
}
static hwloc_obj_t node_by_gp(uint64_t gp)
{
  for (hwloc_obj_t n = hwloc_get_next_obj_by_type(T, HWLOC_OBJ_NUMANODE, NULL); n; n = hwloc_get_next_obj_by_type(T, HWLOC_OBJ_NUMANODE, n)) if (n->gp_index == gp) return n;
  return NULL;
}
static hwloc_obj_t obj_by_type_gp(hwloc_obj_type_t type, uint64_t gp)
{
  struct tv_view vw; tv_view_build(T, &vw, 0); hwloc_obj_t r = NULL;
  for (unsigned i = 0; i < vw.n; i++) if (vw.v[i].o->type == type && vw.v[i].o->gp_index == gp) { r = vw.v[i].o; break; }
  tv_view_free(&vw); return r;
}
static struct mtgt *model_target(struct mattr *a, uint64_t gp) { for (unsigned t = 0; t < a->nt; t++) if (a->tg[t].gp == gp) return &a->tg[t]; return NULL; }
/* the stored initiator a query location matches, per the statement: cpuset query included in the stored cpuset, objects by identity */
static struct mini *model_match(struct mtgt *g, const struct hwloc_location *q)
{
  for (unsigned i = 0; i < g->ni; i++) {
    struct mini *m = &g->ini[i];
    if (q->type == HWLOC_LOCATION_TYPE_CPUSET) { if (!m->isobj && hwloc_bitmap_isincluded(q->location.cpuset, m->cs)) return m; }
    else if (m->isobj && m->otype == q->location.object->type && m->ogp == q->location.object->gp_index) return m;
  }
  return NULL;
}
/* stored initiator cpusets are compared inside the topology cpuset: the statement only says that emptied initiators disappear after a restrict,
 * not whether PUs that left the topology are also cleared from the surviving ones */
static int cs_equal_in_topology(hwloc_const_bitmap_t a, hwloc_const_bitmap_t b)
{
  hwloc_bitmap_t x = hwloc_bitmap_alloc(), y = hwloc_bitmap_alloc(); hwloc_const_bitmap_t root = hwloc_topology_get_topology_cpuset(T);
  hwloc_bitmap_and(x, a, root); hwloc_bitmap_and(y, b, root);
  int r = hwloc_bitmap_isequal(x, y); hwloc_bitmap_free(x); hwloc_bitmap_free(y); return r;
}
static void loc_str(const struct hwloc_location *q, char *buf, size_t n)
{
  if (!q) { snprintf(buf, n, "NULL"); return; }
  if (q->type == HWLOC_LOCATION_TYPE_CPUSET) { char s[128]; hwloc_bitmap_list_snprintf(s, sizeof s, q->location.cpuset); snprintf(buf, n, "cpuset{%s}", s); }
  else snprintf(buf, n, "%s:gp%llu", hwloc_obj_type_string(q->location.object->type), (unsigned long long)q->location.object->gp_index);
}

/* seed the model with what the loaded topology already holds */
static void model_seed(void)
{
  model_free();
  for (unsigned id = 0; id < MAXA; id++) {
    const char *nm; if (hwloc_memattr_get_name(T, id, &nm) < 0) break;
    struct mattr *a = &A[NA++]; snprintf(a->name, sizeof a->name, "%s", nm);
    hwloc_memattr_get_flags(T, id, &a->flags);
    a->conv = !strcmp(nm, "Capacity") || !strcmp(nm, "Locality");
    if (a->conv) continue;
    unsigned nt = 0; hwloc_memattr_get_targets(T, id, NULL, 0, &nt, NULL, NULL);
    if (!nt) continue;
    if (nt > MAXT) { a->unmodeled = 1; continue; }
    hwloc_obj_t tg[MAXT]; uint64_t vals[MAXT]; unsigned n2 = nt; hwloc_memattr_get_targets(T, id, NULL, 0, &n2, tg, vals);
    for (unsigned t = 0; t < nt && !a->unmodeled; t++) {
      struct mtgt *g = &a->tg[a->nt++]; g->gp = tg[t]->gp_index; g->noinit = vals[t];
      if (tg[t]->type != HWLOC_OBJ_NUMANODE) { a->unmodeled = 1; break; }
      if (!NEEDI(a)) continue;
      unsigned ni = 0; hwloc_memattr_get_initiators(T, id, tg[t], 0, &ni, NULL, NULL);
      if (ni > MAXI) { a->unmodeled = 1; break; }
      struct hwloc_location locs[MAXI]; uint64_t iv[MAXI]; unsigned n3 = ni; hwloc_memattr_get_initiators(T, id, tg[t], 0, &n3, locs, iv);
      for (unsigned i = 0; i < ni; i++) {
        struct mini *m = &g->ini[g->ni++]; m->val = iv[i];
        if (locs[i].type == HWLOC_LOCATION_TYPE_CPUSET) { m->cs = hwloc_bitmap_dup(locs[i].location.cpuset); for (unsigned j = 0; j < i; j++) if (!g->ini[j].isobj && hwloc_bitmap_intersects(g->ini[j].cs, m->cs)) a->unmodeled = 1; }
        else { m->isobj = 1; m->otype = locs[i].location.object->type; m->ogp = locs[i].location.object->gp_index; }
      }
    }
    if (a->nt) hv_stat("seeded_attributes_with_values", 1);
  }
}

/* after restrict (or any carrier): drop what no longer exists */
static void model_follow(void)
{
  hwloc_const_bitmap_t root = hwloc_topology_get_topology_cpuset(T);
  for (unsigned ai = 0; ai < NA; ai++) {
    struct mattr *a = &A[ai]; unsigned wt = 0;
    for (unsigned t = 0; t < a->nt; t++) {
      struct mtgt g = a->tg[t]; unsigned wi = 0;
      int alive = node_by_gp(g.gp) != NULL;
      for (unsigned i = 0; i < g.ni; i++) {
        struct mini m = g.ini[i]; int keep = alive;
        if (keep && !m.isobj) { if (!hwloc_bitmap_isincluded(m.cs, root)) hv_stat("follow.initiator_cpusets_shrunk", 1); hwloc_bitmap_and(m.cs, m.cs, root); if (hwloc_bitmap_iszero(m.cs)) keep = 0; }
        if (keep && m.isobj && !obj_by_type_gp(m.otype, m.ogp)) keep = 0;
        if (keep) g.ini[wi++] = m; else { if (m.cs) hwloc_bitmap_free(m.cs); hv_stat(alive ? "follow.initiators_dropped" : "follow.initiators_dropped_with_target", 1); }
      }
      g.ni = wi;
      if (alive && NEEDI(a) && !g.ni) alive = 0;
      if (alive) a->tg[wt++] = g; else hv_stat("follow.targets_dropped", 1);
    }
    a->nt = wt;
  }
}

struct tv { uint64_t gp, val; };
static int cmp_tv(const void *x, const void *y) { const struct tv *a = x, *b = y; return a->gp < b->gp ? -1 : a->gp > b->gp ? 1 : a->val < b->val ? -1 : a->val > b->val; }

/* get_targets for one initiator against the model, for four array sizes */
static void check_targets(unsigned id, struct mattr *a, struct hwloc_location *q)
{
  struct tv want[MAXT + 600]; unsigned nw = 0; char ls[200]; loc_str(q, ls, sizeof ls);
  if (a->conv) {
    for (hwloc_obj_t n = hwloc_get_next_obj_by_type(T, HWLOC_OBJ_NUMANODE, NULL); n && nw < MAXT + 600; n = hwloc_get_next_obj_by_type(T, HWLOC_OBJ_NUMANODE, n))
      { want[nw].gp = n->gp_index; want[nw].val = id == HWLOC_MEMATTR_ID_CAPACITY ? n->attr->numanode.local_memory : (uint64_t)hwloc_bitmap_weight(n->cpuset); nw++; }
  } else for (unsigned t = 0; t < a->nt; t++) {
    struct mtgt *g = &a->tg[t];
    if (NEEDI(a)) { if (!q) { want[nw].gp = g->gp; want[nw].val = 0; nw++; } else { struct mini *m = model_match(g, q); if (m) { want[nw].gp = g->gp; want[nw].val = m->val; nw++; } } }
    else { want[nw].gp = g->gp; want[nw].val = g->noinit; nw++; }
  }
  qsort(want, nw, sizeof *want, cmp_tv);
  unsigned sizes[4] = { 0, nw, nw + 2, nw > 1 ? nw - 1 : 0 };
  for (unsigned s = 0; s < 4 && !hv_viol_count(); s++) {
    unsigned nr = sizes[s]; hwloc_obj_t *objs = calloc(nr + 1, sizeof *objs); uint64_t *vals = calloc(nr + 1, sizeof *vals);
    for (unsigned i = 0; i < nr; i++) { objs[i] = (hwloc_obj_t)(uintptr_t)0x1; vals[i] = 0xA5A5A5A5u; }
    int with_values = s != 2 || hv_chance(&R, 1, 2);
    errno = 0;
    int rc = hwloc_memattr_get_targets(T, id, q, 0, &nr, objs, with_values ? vals : NULL);
    hv_stat("queries.get_targets", 1);
    if (rc != 0) hv_viol("get_targets.rc", "get_targets(%s, initiator %s) returned %d errno %d", a->name, ls, rc, errno);
    else if (nr != nw) hv_viol(a->conv ? "get_targets.convenience.count" : "get_targets.count", "get_targets(%s, initiator %s, array of %u) reports *nr=%u, the model has %u", a->name, ls, sizes[s], nr, nw);
    else {
      unsigned filled = sizes[s] < nr ? sizes[s] : nr;
      struct tv got[MAXT + 600]; unsigned ng = 0;
      for (unsigned i = 0; i < filled; i++) { if (objs[i] == (hwloc_obj_t)(uintptr_t)0x1 || !objs[i]) { hv_viol("get_targets.unfilled", "entry %u of %u not filled", i, filled); break; } got[ng].gp = objs[i]->gp_index; got[ng].val = with_values ? vals[i] : 0; if (objs[i]->type != HWLOC_OBJ_NUMANODE || node_by_gp(objs[i]->gp_index) != objs[i]) hv_viol("get_targets.foreign_object", "returned target %u is not a NUMA node of this topology", i); ng++; }
      for (unsigned i = filled; i < sizes[s]; i++) if (objs[i] != (hwloc_obj_t)(uintptr_t)0x1) hv_viol("get_targets.overfill", "entry %u beyond the %u matches was written", i, nr);
      if (!hv_viol_count() && filled == nw) {
        qsort(got, ng, sizeof *got, cmp_tv);
        for (unsigned i = 0; i < nw; i++) if (got[i].gp != want[i].gp || (with_values && got[i].val != want[i].val)) { hv_viol(a->conv ? "get_targets.convenience.content" : "get_targets.content", "get_targets(%s, initiator %s): entry (node gp%llu, value %llu) where the model has (gp%llu, %llu)", a->name, ls, (unsigned long long)got[i].gp, (unsigned long long)got[i].val, (unsigned long long)want[i].gp, (unsigned long long)want[i].val); break; }
      }
    }
    free(objs); free(vals);
  }
  /* best target: optimal among the matching ones */
  if (!hv_viol_count() && (q || !NEEDI(a))) {
    hwloc_obj_t best = NULL; uint64_t bv = 0xdeadbeef; errno = 0;
    int rc = hwloc_memattr_get_best_target(T, id, q, 0, &best, hv_chance(&R, 1, 8) ? NULL : &bv);
    hv_stat("queries.get_best_target", 1);
    if (!nw) { if (rc != -1 || errno != ENOENT) hv_viol("best_target.not_enoent", "get_best_target(%s, %s) with no matching target returned %d errno %d", a->name, ls, rc, errno); }
    else if (rc != 0 || !best) hv_viol("best_target.rc", "get_best_target(%s, %s) returned %d errno %d although %u targets match", a->name, ls, rc, errno, nw);
    else {
      uint64_t opt = want[0].val; for (unsigned i = 1; i < nw; i++) if (HIGHER(a) ? want[i].val > opt : want[i].val < opt) opt = want[i].val;
      int ok = 0; for (unsigned i = 0; i < nw; i++) if (want[i].gp == best->gp_index && want[i].val == opt) ok = 1;
      if (!ok || (bv != 0xdeadbeef && bv != opt)) hv_viol(a->conv ? "best_target.convenience.not_optimal" : "best_target.not_optimal", "get_best_target(%s %s, %s) returned node gp%llu value %llu, the optimum over %u matching targets is %llu", a->name, HIGHER(a) ? "higher-first" : "lower-first", ls, (unsigned long long)best->gp_index, (unsigned long long)bv, nw, (unsigned long long)opt);
      hv_stat("best_target.optimal", 1);
      { unsigned ties = 0; for (unsigned i = 0; i < nw; i++) if (want[i].val == opt) ties++; if (ties > 1) hv_stat("best_target.with_ties", 1); }
    }
  }
}

/* phase: 1 = enumerate, 2 = best initiator, 4 = get_value; the caller varies which query comes first after a modification,
 * because each entry point has to refresh stale caches by itself */
static void check_initiators(unsigned id, struct mattr *a, struct mtgt *g, unsigned phase)
{
  hwloc_obj_t node = node_by_gp(g->gp);
  if (!node) { hv_viol("model.target_missing", "model target gp%llu is not in the topology", (unsigned long long)g->gp); return; }
  unsigned nw = NEEDI(a) ? g->ni : 0;
  unsigned sizes[4] = { 0, nw, nw + 2, nw > 1 ? nw - 1 : 0 };
  for (unsigned s = 0; s < 4 && !hv_viol_count() && (phase & 1); s++) {
    unsigned nr = sizes[s]; struct hwloc_location *locs = calloc(nr + 1, sizeof *locs); uint64_t *vals = calloc(nr + 1, sizeof *vals);
    for (unsigned i = 0; i < nr; i++) locs[i].type = (enum hwloc_location_type_e)77;
    errno = 0;
    int rc = hwloc_memattr_get_initiators(T, id, node, 0, &nr, locs, vals);
    hv_stat("queries.get_initiators", 1);
    if (rc != 0) hv_viol("get_initiators.rc", "get_initiators(%s, node gp%llu) returned %d errno %d", a->name, (unsigned long long)g->gp, rc, errno);
    else if (nr != nw) hv_viol("get_initiators.count", "get_initiators(%s, node gp%llu, array of %u) reports *nr=%u, the model has %u", a->name, (unsigned long long)g->gp, sizes[s], nr, nw);
    else {
      unsigned filled = sizes[s] < nr ? sizes[s] : nr; unsigned char used[MAXI] = { 0 };
      for (unsigned i = 0; i < filled && !hv_viol_count(); i++) {
        if ((int)locs[i].type == 77) { hv_viol("get_initiators.unfilled", "entry %u of %u not filled", i, filled); break; }
        int found = 0;
        for (unsigned k = 0; k < g->ni && !found; k++) {
          struct mini *m = &g->ini[k]; if (used[k] || m->val != vals[i]) continue;
          if (locs[i].type == HWLOC_LOCATION_TYPE_CPUSET) { if (!m->isobj && cs_equal_in_topology(m->cs, locs[i].location.cpuset)) found = 1; }
          else if (locs[i].type == HWLOC_LOCATION_TYPE_OBJECT && m->isobj && locs[i].location.object && locs[i].location.object->type == m->otype && locs[i].location.object->gp_index == m->ogp && obj_by_type_gp(m->otype, m->ogp) == locs[i].location.object) found = 1;
          if (found) used[k] = 1;
        }
        if (!found) { char ls[200]; loc_str(&locs[i], ls, sizeof ls); hv_viol("get_initiators.content", "get_initiators(%s, node gp%llu) entry %u (%s, value %llu) is not a stored entry of the model", a->name, (unsigned long long)g->gp, i, ls, (unsigned long long)vals[i]); }
      }
      for (unsigned i = filled; i < sizes[s]; i++) if ((int)locs[i].type != 77) hv_viol("get_initiators.overfill", "entry %u beyond the %u entries was written", i, nr);
    }
    free(locs); free(vals);
  }
  if (hv_viol_count()) return;
  /* best initiator */
  int rc = 0;
  if (phase & 2) {
  struct hwloc_location bl; uint64_t bv = 0; errno = 0;
  rc = hwloc_memattr_get_best_initiator(T, id, node, 0, &bl, &bv);
  hv_stat("queries.get_best_initiator", 1);
  if (!NEEDI(a)) { if (rc != -1 || errno != EINVAL) hv_viol("best_initiator.no_initiator_attr", "get_best_initiator on %s (no initiators) returned %d errno %d", a->name, rc, errno); }
  else if (!g->ni) { if (rc != -1 || errno != ENOENT) hv_viol("best_initiator.not_enoent", "get_best_initiator(%s) without entries returned %d errno %d", a->name, rc, errno); }
  else if (rc != 0) hv_viol("best_initiator.rc", "get_best_initiator(%s, node gp%llu) returned %d errno %d", a->name, (unsigned long long)g->gp, rc, errno);
  else {
    uint64_t opt = g->ini[0].val; for (unsigned i = 1; i < g->ni; i++) if (HIGHER(a) ? g->ini[i].val > opt : g->ini[i].val < opt) opt = g->ini[i].val;
    int ok = 0;
    for (unsigned k = 0; k < g->ni; k++) { struct mini *m = &g->ini[k]; if (m->val != opt) continue;
      if (bl.type == HWLOC_LOCATION_TYPE_CPUSET ? (!m->isobj && cs_equal_in_topology(m->cs, bl.location.cpuset)) : (m->isobj && bl.location.object && bl.location.object->gp_index == m->ogp && bl.location.object->type == m->otype)) ok = 1; }
    if (!ok || bv != opt) { char ls[200]; loc_str(&bl, ls, sizeof ls); hv_viol("best_initiator.not_optimal", "get_best_initiator(%s %s, node gp%llu) returned %s value %llu, the optimum over %u entries is %llu", a->name, HIGHER(a) ? "higher-first" : "lower-first", (unsigned long long)g->gp, ls, (unsigned long long)bv, g->ni, (unsigned long long)opt); }
    hv_stat("best_initiator.optimal", 1);
  }
  }
  if (!(phase & 4)) return;
  /* get_value for every stored entry: exact location, a sub-cpuset, and a non-matching one */
  for (unsigned k = 0; k < g->ni && !hv_viol_count(); k++) {
    struct mini *m = &g->ini[k]; struct hwloc_location q; hwloc_bitmap_t tmp = NULL;
    if (m->isobj) { q.type = HWLOC_LOCATION_TYPE_OBJECT; q.location.object = obj_by_type_gp(m->otype, m->ogp); if (!q.location.object) { hv_viol("model.initiator_missing", "model initiator object is not in the topology"); return; } }
    else { q.type = HWLOC_LOCATION_TYPE_CPUSET; tmp = hwloc_bitmap_dup(m->cs); if (hv_chance(&R, 1, 2) && hwloc_bitmap_weight(tmp) > 1) { hwloc_bitmap_singlify(tmp); hv_stat("queries.get_value.sub_cpuset", 1); } q.location.cpuset = tmp; }
    uint64_t v = 0xdead; errno = 0;
    rc = hwloc_memattr_get_value(T, id, node, &q, 0, &v);
    hv_stat("queries.get_value", 1);
    if (rc != 0 || v != m->val) { char ls[200]; loc_str(&q, ls, sizeof ls); hv_viol(m->isobj ? "get_value.object_initiator" : "get_value.cpuset_initiator", "get_value(%s, node gp%llu, %s) returned %d value %llu errno %d, the model holds %llu", a->name, (unsigned long long)g->gp, ls, rc, (unsigned long long)v, errno, (unsigned long long)m->val); }
    if (tmp) hwloc_bitmap_free(tmp);
  }
  if (NEEDI(a) && !hv_viol_count()) {
    uint64_t v; errno = 0;
    if (hwloc_memattr_get_value(T, id, node, NULL, 0, &v) != -1 || errno != EINVAL) hv_viol("get_value.null_initiator", "get_value(%s) without initiator did not fail with EINVAL", a->name);
  } else if (!hv_viol_count()) {
    uint64_t v = 0xdead; if (hwloc_memattr_get_value(T, id, node, NULL, 0, &v) != 0 || v != g->noinit) hv_viol("get_value.no_initiator", "get_value(%s, node gp%llu) returned %llu, the model holds %llu", a->name, (unsigned long long)g->gp, (unsigned long long)v, (unsigned long long)g->noinit);
    hv_stat("queries.get_value", 1);
  }
}

static hwloc_bitmap_t random_location_cpuset(void)
{
  hwloc_const_bitmap_t root = hwloc_topology_get_topology_cpuset(T);
  hwloc_bitmap_t s = hwloc_bitmap_alloc();
  unsigned mode = (unsigned)hv_below(&R, 6);
  struct hx h; hx_init(&h, T, &R);
  if (mode <= 2) { hwloc_obj_t o = hx_pick_obj(&h, 1); hwloc_bitmap_copy(s, o->cpuset); }
  else if (mode == 3) { hwloc_obj_t a = hx_pick_obj(&h, 1), b = hx_pick_obj(&h, 1); hwloc_bitmap_or(s, a->cpuset, b->cpuset); }
  else if (mode == 4) { int id; hwloc_bitmap_foreach_begin(id, root) if (hv_chance(&R, 1, 3)) hwloc_bitmap_set(s, (unsigned)id); hwloc_bitmap_foreach_end(); }
  else { hwloc_obj_t o = hx_pick_obj(&h, 1); hwloc_bitmap_copy(s, o->cpuset); hwloc_bitmap_singlify(s); }
  return s;
}

static void check_local_nodes(void)
{
  for (unsigned k = 0; k < 3 && !hv_viol_count(); k++) {
    struct hwloc_location q; hwloc_bitmap_t cs = NULL; hwloc_const_bitmap_t lcs;
    struct hx h; hx_init(&h, T, &R);
    if (hv_chance(&R, 1, 3)) { q.type = HWLOC_LOCATION_TYPE_OBJECT; q.location.object = hx_pick_obj(&h, 0); hwloc_obj_t o = q.location.object; while (!o->cpuset) o = o->parent; lcs = o->cpuset; }
    else { q.type = HWLOC_LOCATION_TYPE_CPUSET; cs = random_location_cpuset(); q.location.cpuset = cs; lcs = cs; }
    unsigned long flags = hv_below(&R, 8); int badflags = hv_chance(&R, 1, 20); if (badflags) flags |= 8UL << hv_below(&R, 5);
    uint64_t want[700]; unsigned nw = 0;
    for (hwloc_obj_t n = hwloc_get_next_obj_by_type(T, HWLOC_OBJ_NUMANODE, NULL); n && nw < 700; n = hwloc_get_next_obj_by_type(T, HWLOC_OBJ_NUMANODE, n)) {
      int m = (flags & HWLOC_LOCAL_NUMANODE_FLAG_ALL) != 0 || hwloc_bitmap_isequal(n->cpuset, lcs) || ((flags & HWLOC_LOCAL_NUMANODE_FLAG_LARGER_LOCALITY) && hwloc_bitmap_isincluded(lcs, n->cpuset)) || ((flags & HWLOC_LOCAL_NUMANODE_FLAG_SMALLER_LOCALITY) && hwloc_bitmap_isincluded(n->cpuset, lcs));
      if (m) want[nw++] = n->gp_index;
    }
    char ls[200]; loc_str(&q, ls, sizeof ls);
    unsigned sizes[3] = { nw + 1, 0, nw > 1 ? nw - 1 : 0 };
    for (unsigned s = 0; s < 3 && !hv_viol_count(); s++) {
      unsigned nr = sizes[s]; hwloc_obj_t *nodes = calloc(nr + 1, sizeof *nodes); for (unsigned i = 0; i < nr; i++) nodes[i] = (hwloc_obj_t)(uintptr_t)0x1;
      errno = 0; int rc = hwloc_get_local_numanode_objs(T, &q, &nr, nodes, flags);
      hv_stat("queries.local_numanode_objs", 1);
      if (badflags) { if (rc != -1 || errno != EINVAL) hv_viol("local_nodes.bad_flags", "flags %#lx accepted", flags); free(nodes); continue; }
      if (rc != 0) hv_viol("local_nodes.rc", "get_local_numanode_objs(%s, %#lx) returned %d", ls, flags, rc);
      else if (nr != nw) hv_viol("local_nodes.count", "get_local_numanode_objs(%s, flags %#lx, array of %u) reports %u nodes, the definition gives %u", ls, flags, sizes[s], nr, nw);
      else { unsigned filled = sizes[s] < nr ? sizes[s] : nr;
        for (unsigned i = 0; i < filled && !hv_viol_count(); i++) { int ok = 0; if (nodes[i] && nodes[i] != (hwloc_obj_t)(uintptr_t)0x1) for (unsigned j = 0; j < nw; j++) if (want[j] == nodes[i]->gp_index) ok = 1; for (unsigned j = 0; j < i; j++) if (nodes[j] == nodes[i]) ok = 0; if (!ok) hv_viol("local_nodes.content", "get_local_numanode_objs(%s, flags %#lx): entry %u is not one of the %u expected nodes (or is repeated)", ls, flags, i, nw); }
        for (unsigned i = filled; i < sizes[s]; i++) if (nodes[i] != (hwloc_obj_t)(uintptr_t)0x1) hv_viol("local_nodes.overfill", "entry %u beyond the %u matches was written", i, nr);
        if (nw && flags && !(flags & HWLOC_LOCAL_NUMANODE_FLAG_ALL)) hv_stat("local_nodes.nonempty_filtered", 1);
      }
      free(nodes);
    }
    if (cs) hwloc_bitmap_free(cs);
  }
  /* ALL with a NULL location */
  { unsigned nr = 0; if (hwloc_get_local_numanode_objs(T, NULL, &nr, NULL, HWLOC_LOCAL_NUMANODE_FLAG_ALL) != 0 || (int)nr != hwloc_get_nbobjs_by_type(T, HWLOC_OBJ_NUMANODE)) hv_viol("local_nodes.all", "ALL with a NULL location reports %u nodes", nr);
    errno = 0; if (hwloc_get_local_numanode_objs(T, NULL, &nr, NULL, 0) != -1 || errno != EINVAL) hv_viol("local_nodes.null_location", "NULL location without ALL accepted"); }
  /* default nodeset */
  hwloc_bitmap_t ns = hwloc_bitmap_alloc(), seen = hwloc_bitmap_alloc();
  if (hwloc_topology_get_default_nodeset(T, ns, 0) != 0) hv_viol("default_nodeset.rc", "get_default_nodeset failed");
  else {
    int id; hwloc_bitmap_foreach_begin(id, ns) {
      hwloc_obj_t n = hwloc_get_numanode_obj_by_os_index(T, (unsigned)id);
      if (!n) { hv_viol("default_nodeset.unknown_node", "default nodeset contains %d which is not a NUMA node of the topology", id); break; }
      if (hwloc_bitmap_intersects(seen, n->cpuset)) { hv_viol("default_nodeset.overlap", "default nodeset node %d overlaps the cpuset of another default node", id); break; }
      hwloc_bitmap_or(seen, seen, n->cpuset);
    } hwloc_bitmap_foreach_end();
    if (hwloc_bitmap_iszero(ns)) hv_viol("default_nodeset.empty", "default nodeset is empty");
    if (hwloc_bitmap_weight(ns) > 1) hv_stat("default_nodeset.multi_node", 1);
  }
  errno = 0; if (hwloc_topology_get_default_nodeset(T, ns, 1UL << hv_below(&R, 6)) != -1 || errno != EINVAL) hv_viol("default_nodeset.flags", "non-zero flags accepted");
  hwloc_bitmap_free(ns); hwloc_bitmap_free(seen);
}

static void check_model(const char *after)
{
  hv_ctxkey("check_model:%s", after);
  for (unsigned ai = 0; ai < NA && !hv_viol_count(); ai++) {
    struct mattr *a = &A[ai]; if (a->unmodeled) continue;
    hwloc_memattr_id_t id = (hwloc_memattr_id_t)-1; const char *nm = NULL; unsigned long fl = 0;
    if (hwloc_memattr_get_by_name(T, a->name, &id) != 0) { hv_viol("attr.lost", "attribute \"%s\" is no longer known after %s", a->name, after); break; }
    if (hwloc_memattr_get_name(T, id, &nm) != 0 || strcmp(nm, a->name) || hwloc_memattr_get_flags(T, id, &fl) != 0 || fl != a->flags) { hv_viol("attr.name_flags", "attribute \"%s\": name/flags differ (flags %#lx, model %#lx)", a->name, fl, a->flags); break; }
    if (!a->conv && a->nt) {   /* which entry point is the first to see the attribute after the last modification */
      struct mtgt *g0 = &a->tg[hv_below(&R, a->nt)]; unsigned first = (unsigned)hv_below(&R, 4);
      if (first) check_initiators(id, a, g0, first == 1 ? 2u : first == 2 ? 4u : 1u);
      hv_stat(first == 0 ? "first_query.get_targets" : first == 1 ? "first_query.get_best_initiator" : first == 2 ? "first_query.get_value" : "first_query.get_initiators", 1);
      if (hv_viol_count()) break;
    }
    check_targets(id, a, NULL);
    if (a->conv) {
      hwloc_obj_t n = hwloc_get_obj_by_type(T, HWLOC_OBJ_NUMANODE, (unsigned)hv_below(&R, (uint64_t)hwloc_get_nbobjs_by_type(T, HWLOC_OBJ_NUMANODE)));
      uint64_t v = 0xdead, want = id == HWLOC_MEMATTR_ID_CAPACITY ? n->attr->numanode.local_memory : (uint64_t)hwloc_bitmap_weight(n->cpuset);
      if (hwloc_memattr_get_value(T, id, n, NULL, 0, &v) != 0 || v != want) hv_viol("convenience.value", "%s of node gp%llu is %llu, expected %llu", a->name, (unsigned long long)n->gp_index, (unsigned long long)v, (unsigned long long)want);
      errno = 0; if (hwloc_memattr_set_value(T, id, n, NULL, 0, 5) != -1 || errno != EINVAL) hv_viol("convenience.writable", "set_value on %s did not fail with EINVAL", a->name);
      hv_stat("queries.convenience", 1);
      continue;
    }
    for (unsigned t = 0; t < a->nt && !hv_viol_count(); t++) check_initiators(id, a, &a->tg[t], 7);
    /* a NUMA node that is not a target */
    if (!hv_viol_count()) for (hwloc_obj_t n = hwloc_get_next_obj_by_type(T, HWLOC_OBJ_NUMANODE, NULL); n; n = hwloc_get_next_obj_by_type(T, HWLOC_OBJ_NUMANODE, n)) if (!model_target(a, n->gp_index)) {
      uint64_t v; struct hwloc_location q; q.type = HWLOC_LOCATION_TYPE_OBJECT; q.location.object = n; errno = 0;
      if (hwloc_memattr_get_value(T, id, n, &q, 0, &v) != -1) hv_viol("get_value.unknown_target", "get_value(%s) on node gp%llu that never got a value returned %llu", a->name, (unsigned long long)n->gp_index, (unsigned long long)v);
      break; }
    if (NEEDI(a) && a->nt && !hv_viol_count()) {
      /* query locations: stored ones, random ones */
      for (unsigned k = 0; k < 3 && !hv_viol_count(); k++) {
        struct hwloc_location q; hwloc_bitmap_t cs = NULL;
        struct mtgt *g = &a->tg[hv_below(&R, a->nt)];
        if (k == 0 && g->ni) { struct mini *m = &g->ini[hv_below(&R, g->ni)]; if (m->isobj) { q.type = HWLOC_LOCATION_TYPE_OBJECT; q.location.object = obj_by_type_gp(m->otype, m->ogp); if (!q.location.object) continue; } else { q.type = HWLOC_LOCATION_TYPE_CPUSET; cs = hwloc_bitmap_dup(m->cs); if (hv_chance(&R, 1, 2)) hwloc_bitmap_singlify(cs); q.location.cpuset = cs; } }
        else if (k == 1) { struct hx h; hx_init(&h, T, &R); q.type = HWLOC_LOCATION_TYPE_OBJECT; q.location.object = hx_pick_obj(&h, 0); }
        else { q.type = HWLOC_LOCATION_TYPE_CPUSET; cs = random_location_cpuset(); if (hwloc_bitmap_iszero(cs)) { hwloc_bitmap_free(cs); continue; } q.location.cpuset = cs; }
        check_targets(id, a, &q);
        if (cs) hwloc_bitmap_free(cs);
      }
    }
  }
  if (!hv_viol_count()) check_local_nodes();
  hv_stat("model_checks", 1);
  hv_ctxkey("%s", "");
}

static void op_register(void)
{
  static const unsigned long fl[] = { HWLOC_MEMATTR_FLAG_HIGHER_FIRST, HWLOC_MEMATTR_FLAG_LOWER_FIRST, HWLOC_MEMATTR_FLAG_HIGHER_FIRST | HWLOC_MEMATTR_FLAG_NEED_INITIATOR, HWLOC_MEMATTR_FLAG_LOWER_FIRST | HWLOC_MEMATTR_FLAG_NEED_INITIATOR,
    0, HWLOC_MEMATTR_FLAG_NEED_INITIATOR, HWLOC_MEMATTR_FLAG_HIGHER_FIRST | HWLOC_MEMATTR_FLAG_LOWER_FIRST, 7, 8, HWLOC_MEMATTR_FLAG_HIGHER_FIRST | 16, 1UL << 31 };
  unsigned long flags = hv_chance(&R, 1, 5) ? fl[4 + hv_below(&R, 7)] : fl[hv_below(&R, 4)];
  char name[48]; int reuse = NA && hv_chance(&R, 1, 6);
  if (reuse) snprintf(name, sizeof name, "%s", A[hv_below(&R, NA)].name); else snprintf(name, sizeof name, "attr%u_%c%c", (unsigned)hv_below(&R, 100000), "<&\"x "[hv_below(&R, 5)], "ab"[hv_below(&R, 2)]);
  int null_name = hv_chance(&R, 1, 25);
  int flags_ok = !(flags & ~7UL) && ((flags & 3) == 1 || (flags & 3) == 2);
  /* HIGHER_FIRST=1, LOWER_FIRST=2, NEED_INITIATOR=4 */
  hwloc_memattr_id_t id = 999; errno = 0;
  int rc = hwloc_memattr_register(T, null_name ? NULL : name, flags, &id);
  hv_desc("  register(\"%s\", flags=%#lx) -> %d errno %d\n", null_name ? "(null)" : name, flags, rc, rc ? errno : 0);
  int known = 0; for (unsigned i = 0; i < NA; i++) if (!strcmp(A[i].name, name)) known = 1;
  if (!flags_ok || null_name) { if (rc != -1 || errno != EINVAL) hv_viol("register.invalid_accepted", "register(name %s, flags %#lx) returned %d errno %d, expected EINVAL", null_name ? "NULL" : "given", flags, rc, errno); hv_stat("register.rejected", 1); return; }
  if (known) { if (rc != -1 || errno != EBUSY) hv_viol("register.duplicate_name", "register of the existing name \"%s\" returned %d errno %d, expected EBUSY", name, rc, errno); hv_stat("register.rejected", 1); return; }
  if (rc != 0) { hv_viol("register.rejected_valid", "register(\"%s\", %#lx) failed with errno %d", name, flags, errno); return; }
  if (NA >= MAXA) { hv_stat("model_full", 1); A[0].unmodeled = 1; return; }
  if (id != NA) hv_viol("register.id", "new attribute got id %u, %u attributes existed", id, NA);
  struct mattr *a = &A[NA++]; memset(a, 0, sizeof *a); snprintf(a->name, sizeof a->name, "%s", name); a->flags = flags;
  hv_stat("register.ok", 1);
}

static void op_set(void)
{
  if (!NA) return;
  unsigned ai = (unsigned)hv_below(&R, NA); if (ai < 2 && NA > 2 && hv_chance(&R, 4, 5)) ai = 2 + (unsigned)hv_below(&R, NA - 2); struct mattr *a = &A[ai];
  if (a->unmodeled) return;
  hwloc_memattr_id_t id; if (hwloc_memattr_get_by_name(T, a->name, &id) != 0) return;
  int nn = hwloc_get_nbobjs_by_type(T, HWLOC_OBJ_NUMANODE);
  hwloc_obj_t node = hwloc_get_obj_by_type(T, HWLOC_OBJ_NUMANODE, (unsigned)hv_below(&R, (uint64_t)nn));
  /* prefer existing targets half of the time */
  if (a->nt && hv_chance(&R, 1, 2)) { hwloc_obj_t n = node_by_gp(a->tg[hv_below(&R, a->nt)].gp); if (n) node = n; }
  struct hwloc_location q, *qp = NULL; hwloc_bitmap_t cs = NULL;
  unsigned im = (unsigned)hv_below(&R, 10);
  struct hx h; hx_init(&h, T, &R);
  if (im < 5) { q.type = HWLOC_LOCATION_TYPE_CPUSET; hwloc_obj_t o = hx_pick_obj(&h, 1); cs = hwloc_bitmap_dup(o->cpuset); if (im == 4) hwloc_bitmap_singlify(cs); q.location.cpuset = cs; qp = &q; }
  else if (im < 8) { q.type = HWLOC_LOCATION_TYPE_OBJECT; q.location.object = hx_pick_obj(&h, 0); qp = &q; }
  else if (im == 8) { q.type = HWLOC_LOCATION_TYPE_CPUSET; cs = hwloc_bitmap_alloc(); q.location.cpuset = hv_chance(&R, 1, 2) ? cs : NULL; qp = &q; }   /* empty or NULL cpuset */
  else qp = NULL;
  { struct mtgt *eg = model_target(a, node->gp_index);
    if (eg && eg->ni && hv_chance(&R, 1, 4)) { struct mini *m = &eg->ini[hv_below(&R, eg->ni)]; if (cs) { hwloc_bitmap_free(cs); cs = NULL; }
      if (m->isobj) { hwloc_obj_t o = obj_by_type_gp(m->otype, m->ogp); if (o) { q.type = HWLOC_LOCATION_TYPE_OBJECT; q.location.object = o; qp = &q; } else return; }
      else { q.type = HWLOC_LOCATION_TYPE_CPUSET; cs = hwloc_bitmap_dup(m->cs); if (hv_chance(&R, 1, 3)) hwloc_bitmap_singlify(cs); q.location.cpuset = cs; qp = &q; } } }
  unsigned long flags = hv_chance(&R, 1, 25) ? 1UL << hv_below(&R, 5) : 0;
  uint64_t val = hv_chance(&R, 1, 3) ? hv_below(&R, 4) * 100 : hv_below(&R, 100000);   /* few distinct values: ties */
  char ls[200]; if (qp && qp->type == HWLOC_LOCATION_TYPE_CPUSET && !qp->location.cpuset) snprintf(ls, sizeof ls, "cpuset NULL"); else loc_str(qp, ls, sizeof ls);
  /* expected outcome */
  int expect_ok = 1; struct mtgt *g = model_target(a, node->gp_index); struct mini *hit = NULL; int outside_domain = 0;
  if (flags) expect_ok = 0;
  if (a->conv) expect_ok = 0;
  if (qp && qp->type == HWLOC_LOCATION_TYPE_CPUSET && (!qp->location.cpuset || hwloc_bitmap_iszero(qp->location.cpuset))) expect_ok = 0;
  if (NEEDI(a) && !qp) expect_ok = 0;
  if (expect_ok && NEEDI(a)) {
    if (g) { hit = model_match(g, qp);
      if (!hit && qp->type == HWLOC_LOCATION_TYPE_CPUSET) for (unsigned i = 0; i < g->ni; i++) if (!g->ini[i].isobj && hwloc_bitmap_intersects(g->ini[i].cs, qp->location.cpuset)) outside_domain = 1; }
    if ((!g && a->nt >= MAXT) || (g && !hit && g->ni >= MAXI)) outside_domain = 1;
  } else if (expect_ok && !g && a->nt >= MAXT) outside_domain = 1;
  if (outside_domain) { hv_stat("set.skipped_overlapping_or_full", 1); if (cs) hwloc_bitmap_free(cs); return; }   /* overlapping stored cpusets are outside the statement */
  errno = 0;
  int rc = hwloc_memattr_set_value(T, id, node, qp, flags, val);
  hv_desc("  set_value(%s, node gp%llu, %s, flags=%#lx, %llu) -> %d errno %d\n", a->name, (unsigned long long)node->gp_index, ls, flags, (unsigned long long)val, rc, rc ? errno : 0);
  if (!expect_ok) { if (rc != -1 || errno != EINVAL) hv_viol("set.invalid_accepted", "set_value(%s, %s, flags %#lx) returned %d errno %d, expected EINVAL", a->name, ls, flags, rc, errno); hv_stat("set.rejected", 1); }
  else if (rc != 0) hv_viol("set.rejected_valid", "set_value(%s, node gp%llu, %s) failed with errno %d", a->name, (unsigned long long)node->gp_index, ls, errno);
  else {
    if (!g) { g = &a->tg[a->nt++]; memset(g, 0, sizeof *g); g->gp = node->gp_index; }
    if (!NEEDI(a)) g->noinit = val;
    else if (hit) { hit->val = val; hv_stat(hit->isobj || hwloc_bitmap_isequal(hit->cs, qp->location.cpuset) ? "set.overwrite" : "set.overwrite_through_sub_cpuset", 1); }
    else { struct mini *m = &g->ini[g->ni++]; memset(m, 0, sizeof *m); m->val = val; if (qp->type == HWLOC_LOCATION_TYPE_CPUSET) m->cs = hwloc_bitmap_dup(qp->location.cpuset); else { m->isobj = 1; m->otype = qp->location.object->type; m->ogp = qp->location.object->gp_index; } }
    hv_stat("set.ok", 1);
  }
  if (cs) hwloc_bitmap_free(cs);
}

void hv_case(uint64_t index)
{
  hv_rng_seed(&R, HV.seed, "c14", index);
  struct tg_config c; tg_config_random(&R, &c, 0);
  c.flags &= (HWLOC_TOPOLOGY_FLAG_INCLUDE_DISALLOWED | HWLOC_TOPOLOGY_FLAG_NO_DISTANCES | HWLOC_TOPOLOGY_FLAG_NO_CPUKINDS | HWLOC_TOPOLOGY_FLAG_NO_MEMATTRS);
  if (hv_chance(&R, 5, 6)) c.flags &= ~(unsigned long)HWLOC_TOPOLOGY_FLAG_NO_MEMATTRS;
  if (hv_chance(&R, 1, 2)) { c.filter[HWLOC_OBJ_MISC] = HWLOC_TYPE_FILTER_KEEP_ALL; c.filter[HWLOC_OBJ_BRIDGE] = c.filter[HWLOC_OBJ_PCI_DEVICE] = c.filter[HWLOC_OBJ_OS_DEVICE] = HWLOC_TYPE_FILTER_KEEP_ALL; }
  struct hv_str cs; hv_str_init(&cs); tg_config_str(&c, &cs);
  int stage;
  hv_ctxkey("source_load");
  if (index % 4 == 1 && ncorpus) { const char *path = corpus[(index / 4) % ncorpus]; hv_desc("source: xml %s config %s\n", path, cs.s); T = tl_load_xmlfile(path, &c, &stage); }
  else { struct tg_synth_opts o; tg_synth_opts_default(&o); o.max_pus = 48; struct hv_str d; hv_str_init(&d); tg_synth_random(&R, &o, &d); hv_desc("source: synthetic \"%s\" config %s\n", d.s, cs.s); T = tl_load_synthetic(d.s, &c, &stage); hv_str_free(&d); }
  hv_str_free(&cs);
  if (!T) { hv_stat("source_load_failed", 1); return; }
  if (hwloc_bitmap_last(hwloc_topology_get_complete_cpuset(T)) >= 1700 || hwloc_bitmap_last(hwloc_topology_get_complete_nodeset(T)) >= 1700) { hv_stat("skipped_beyond_window", 1); hwloc_topology_destroy(T); return; }
  int no_memattrs = (c.flags & HWLOC_TOPOLOGY_FLAG_NO_MEMATTRS) != 0;
  hv_ctxkey("seed_model");
  model_seed();
  unsigned nops = 5 + (unsigned)hv_below(&R, 10), carriers = 0, restricts = 0; uint64_t seq = 5;
  check_model("load");
  for (unsigned k = 0; k < nops && !hv_viol_count(); k++) {
    unsigned op = (unsigned)hv_below(&R, 20);
    const char *what;
    if (op < 3) { what = "register"; hv_ctxkey("op:register"); op_register(); }
    else if (op < 12) { what = "set"; hv_ctxkey("op:set"); op_set(); }
    else if (op < 15) { what = "restrict"; struct hx h; hx_init(&h, T, &R); h.allow_bad_args = 0; struct hx_result res; hx_random_op(&h, 1u << HX_RESTRICT, &res); hv_desc("  %s -> %d\n", res.desc, res.rc); if (res.rc == 0) { model_follow(); restricts++; } }
    else if (op < 17) { what = "dup"; hv_ctxkey("carrier:dup"); hwloc_topology_t t2 = NULL; if (hwloc_topology_dup(&t2, T) == 0) { hwloc_topology_destroy(T); T = t2; carriers++; hv_desc("  carrier: dup\n"); } else hv_viol("carrier.dup_failed", "hwloc_topology_dup failed"); }
    else if (op < 19 && (!no_memattrs || NA + 8 <= MAXA)) { what = "xml"; hv_ctxkey("carrier:xml"); char *buf = NULL; int len = 0;
      if (tv_has_empty_normal_object(T)) { hv_viol("carrier.xml.empty_objects_left_by_restrict", "the topology holds a normal object with neither a PU nor a NUMA node below it (left by a restrict by nodeset); a reload drops it, the XML carrier cannot preserve what refers to it"); break; }
      
      if (hwloc_topology_export_xmlbuffer(T, &buf, &len, 0) == 0) {
        hwloc_topology_t t2; hwloc_topology_init(&t2); hwloc_topology_set_all_types_filter(t2, HWLOC_TYPE_FILTER_KEEP_ALL);
        /* a topology loaded with NO_MEMATTRS is re-imported without the flag (which would ignore the attributes of the XML) */
        hwloc_topology_set_flags(t2, hwloc_topology_get_flags(T) & ~(unsigned long)HWLOC_TOPOLOGY_FLAG_NO_MEMATTRS);
        if (hwloc_topology_set_xmlbuffer(t2, buf, len) == 0 && hwloc_topology_load(t2) == 0) { hwloc_free_xmlbuffer(T, buf); hwloc_topology_destroy(T); T = t2; carriers++; hv_desc("  carrier: xml round trip\n");
          if (no_memattrs) { /* the standard attributes now exist, before the custom ones */
            memmove(&A[8], &A[0], NA * sizeof A[0]); memset(&A[0], 0, 8 * sizeof A[0]); NA += 8; no_memattrs = 0; hv_stat("carrier.xml_from_no_memattrs", 1);
            for (unsigned id = 0; id < 8; id++) { const char *nm = "?"; hwloc_memattr_get_name(T, id, &nm); snprintf(A[id].name, sizeof A[id].name, "%s", nm); hwloc_memattr_get_flags(T, id, &A[id].flags); A[id].conv = id < 2; } } }
        else { hwloc_free_xmlbuffer(T, buf); hwloc_topology_destroy(t2); hv_viol("carrier.xml_failed", "own XML export could not be reloaded"); }
      } }
    else { what = "refresh"; hv_ctxkey("op:refresh"); hwloc_topology_refresh(T); }
    seq = hv_hash_str(what, seq);
    if (!hv_viol_count()) check_model(what);
  }
  unsigned vals = 0, attrs_with = 0; for (unsigned a = 0; a < NA; a++) { unsigned v = 0; for (unsigned t = 0; t < A[a].nt; t++) v += NEEDI(&A[a]) ? A[a].tg[t].ni : 1; if (v) attrs_with++; vals += v; }
  hv_max("max_live_values", vals);
  if (!hv_viol_count() && vals >= 3 && attrs_with >= 1 && (carriers + restricts)) { hv_stat("nontrivial_histories", 1); hv_distinct(1, seq); }
  if (index < 6) hv_sample("%s", hv_desc_get());
  hv_ctxkey("destroy");
  model_free();
  hwloc_topology_destroy(T); T = NULL;
  hv_ctxkey("%s", "");
  hv_leak_check();
}
