/* C06: arbitrary XML never corrupts memory, hangs, leaks or yields a broken topology.
 * Structure-aware mutations of valid documents (corpus, generated exports in v3 and v2 format, diff documents),
 * byte mutations and unstructured bytes; both entry points (buffer / file); import back end fixed per worker. */
#include "hv.h"
#include "topo.h"
#include "hist.h"
#include <unistd.h>
#include <ctype.h>

const char *hv_property = "C06";
unsigned hv_batch = 8;
unsigned hv_cpu_limit_s = 20;
static struct hv_rng R;
static const char **corpus; static unsigned ncorpus;
static char tmp_path[4200];
static const char *backend;

/* regression witnesses (corpus/witness-xml): every file is run unmutated by both back ends (cases 2w and 2w+1 belong to workers of
 * different parity, hence different HWLOC_LIBXML_IMPORT), through the buffer and the file entry point */
static const char **wit, **witd; static unsigned nwit, nwitd;
static int force_reuse_mode = -1;   /* witnesses are reused in every way; random cases rotate */
static int try_topology(const char *doc, size_t len, int nul_inside, int byfile, int report, const char *keyprefix, char *wfkey, size_t wfn);
static void try_diff(const char *doc, size_t len);
static int witness_case(uint64_t index)
{
  uint64_t w = index / 2;
  if (w >= (uint64_t)nwit + nwitd) return 0;
  int isd = w >= nwit; const char *path = isd ? witd[w - nwit] : wit[w]; const char *nm = strrchr(path, '/') + 1;
  /* the memcheck stage keeps every allocation resident in its shadow memory: documents asking for multi-gigabyte matrices are left to the
   * ASan stage (which caps allocations), as for the generated inputs */
  if (getenv("VERIF_NO_HUGE_ALLOC") && strstr(nm, "huge")) { hv_stat("witness.skipped_huge_under_memcheck", 1); return 1; }
  size_t len = 0; char *doc = tl_read_file(path, &len);
  if (!doc) { doc = strdup(""); len = 0; }     /* an empty file is a witness too */
  hv_desc("witness %s (%zu bytes), unmutated, backend %s\n", nm, len, backend);
  hv_stat("witness.cases", 1);
  if (isd) try_diff(doc, len);
  else {
    char kp[260]; snprintf(kp, sizeof kp, "witness=%.150s/%s/", nm, backend);
    for (int byfile = 0; byfile < 2; byfile++) for (int nul = 1; nul >= 0; nul--) { if (byfile && !nul) continue;
      for (force_reuse_mode = 0; force_reuse_mode < 6; force_reuse_mode += force_reuse_mode ? 2 : 1) {      /* 0 (synthetic), 1, 3, 5 (documents) */
        int r = try_topology(doc, len, nul, byfile, 1, kp, NULL, 0);
        hv_stat(r == 0 ? "witness.rejected" : r == 1 ? "witness.loaded_wellformed" : "witness.loaded_illformed", 1);
        if (r) break; } }
    force_reuse_mode = -1;
  }
  hv_distinct(3, hv_hash_str(nm, hv_hash_str(backend, 7)));
  free(doc); unlink(tmp_path);
  hv_leak_check();
  return 1;
}

void hv_setup(void)
{
  ncorpus = tl_corpus(&corpus);
  nwit = tl_witness("witness-xml", ".xml", &wit); nwitd = tl_witness("witness-xml", ".diffxml", &witd);
  snprintf(tmp_path, sizeof tmp_path, "%s/c06-w%d.xml", HV.outdir, HV.worker);
  const char *e = getenv("HWLOC_LIBXML_IMPORT");
  backend = (e && atoi(e)) ? "libxml" : "nolibxml";
}

/* ------------------------------------------------------------------ tiny XML element index */
struct xnode { size_t s, e;          /* start tag [s,e) */
               size_t end;           /* offset just after the matching end tag (== e for self-closing / declarations) */
               int parent; char name[24]; int selfclose; };
struct xdoc { const char *txt; size_t len; struct xnode *n; unsigned nn; };

static void xparse(struct xdoc *d, const char *txt, size_t len)
{
  d->txt = txt; d->len = len; d->nn = 0; d->n = NULL;
  unsigned cap = 0; int stack[256]; int sp = 0;
  for (size_t i = 0; i < len; i++) {
    if (txt[i] != '<') continue;
    size_t j = i + 1; while (j < len && txt[j] != '>') { if (txt[j] == '"') { j++; while (j < len && txt[j] != '"') j++; } j++; }
    if (j >= len) break;
    if (txt[i + 1] == '?' || txt[i + 1] == '!') { i = j; continue; }
    if (txt[i + 1] == '/') { if (sp > 0) { d->n[stack[--sp]].end = j + 1; } i = j; continue; }
    if (d->nn == cap) { cap = cap ? cap * 2 : 256; d->n = realloc(d->n, cap * sizeof *d->n); }
    struct xnode *x = &d->n[d->nn];
    x->s = i; x->e = j + 1; x->end = j + 1; x->parent = sp ? stack[sp - 1] : -1; x->selfclose = txt[j - 1] == '/';
    size_t k = i + 1, q = 0; while (k < j && !isspace((unsigned char)txt[k]) && txt[k] != '/' && q < sizeof x->name - 1) x->name[q++] = txt[k++];
    x->name[q] = 0;
    if (!x->selfclose && sp < 255) stack[sp++] = (int)d->nn;
    d->nn++;
    i = j;
  }
}
static void xfree(struct xdoc *d) { free(d->n); d->n = NULL; d->nn = 0; }

struct xattr { size_t ns, ne, vs, ve; };      /* name [ns,ne), value [vs,ve) without quotes */
static unsigned xattrs(const struct xdoc *d, const struct xnode *x, struct xattr *a, unsigned max)
{
  unsigned n = 0; size_t i = x->s + 1 + strlen(x->name);
  while (i < x->e && n < max) {
    while (i < x->e && isspace((unsigned char)d->txt[i])) i++;
    size_t ns = i; while (i < x->e && d->txt[i] != '=' && d->txt[i] != '>' && d->txt[i] != '/' && !isspace((unsigned char)d->txt[i])) i++;
    if (i >= x->e || d->txt[i] != '=' || d->txt[i + 1] != '"') break;
    a[n].ns = ns; a[n].ne = i; i += 2; a[n].vs = i; while (i < x->e && d->txt[i] != '"') i++; a[n].ve = i; i++; n++;
  }
  return n;
}

/* ------------------------------------------------------------------ mutations */
struct mut { char op[16]; char elem[24]; char attr[24]; };
static void build(struct hv_str *out, const char *txt, size_t len, size_t cut_s, size_t cut_e, const char *ins, size_t inslen)
{ hv_str_addn(out, txt, cut_s); if (ins) hv_str_addn(out, ins, inslen); hv_str_addn(out, txt + cut_e, len - cut_e); }

static const char *garbage_value(const char *attr, char *tmp, size_t n)
{
  static const char *gen[] = { "0", "-1", "1", "4294967295", "4294967296", "18446744073709551615", "18446744073709551616", "", "abc", "0x", "0xf...f", "0x1,", "0xffffffff,0xffffffff,0xffffffff",
                               "0x00000000", "2147483648", "-2147483649", "1e99", " ", "0x0,0x0,0x1", "&amp;", "99999999999999999999999999999999", "0xf...f,0x0" };
  if (!strcmp(attr, "type")) { static const char *t[] = { "Machine", "PU", "NUMANode", "Package", "Core", "L1Cache", "L3iCache", "Group", "Misc", "Bridge", "PCIDev", "OSDev", "MemCache", "Die", "Cache", "Socket", "Node", "Foo", "", "L9Cache" }; return t[hv_below(&R, 20)]; }
  if (!strcmp(attr, "name") && hv_chance(&R, 2, 3)) { static const char *t[] = { "Capacity", "Locality", "Bandwidth", "Latency", "ReadBandwidth", "WriteLatency", "NVLinkBandwidth", "XGMIBandwidth", "XGMIHops", "NUMALatency", "MemoryTier", "CoreType", "FrequencyMaxMHz", "Backend", "hwlocVersion", "" }; return t[hv_below(&R, 16)]; }
  if (!strcmp(attr, "osdev_type")) { static const char *t[] = { "0", "1", "127", "128", "256", "4294967296", "18446744073709551615", "-1", "x" }; return t[hv_below(&R, 9)]; }
  if (!strcmp(attr, "version")) { static const char *t[] = { "1.0", "2.0", "2.1", "3.0", "3.1", "9.9", "0.0", "", "abc", "2", "3.0.0", "-3.0" }; return t[hv_below(&R, 12)]; }
  /* under memcheck a multi-GB malloc costs as much resident shadow memory: the valgrind stage keeps matrix sizes small (the ASan stage covers the huge ones) */
  if (!strcmp(attr, "nbobjs") && getenv("VERIF_NO_HUGE_ALLOC")) { static const char *t[] = { "0", "1", "2", "3", "5", "100", "-1", "", "x", "7-7" }; return t[hv_below(&R, 10)]; }
  if (!strcmp(attr, "length") || !strcmp(attr, "nbobjs") || !strcmp(attr, "depth") || !strcmp(attr, "cache_type") || !strcmp(attr, "bridge_type") || !strcmp(attr, "kind") || !strcmp(attr, "flags")) {
    static const char *t[] = { "0", "1", "2", "3", "5", "100", "1000000", "4294967295", "4294967297", "-1", "", "0-1", "1-0", "1-1", "7-7", "x" }; return t[hv_below(&R, 16)]; }
  if (hv_chance(&R, 1, 12)) { size_t l = 200 + (size_t)hv_below(&R, n - 201); memset(tmp, hv_chance(&R, 1, 2) ? '9' : 'f', l); tmp[l] = 0; return tmp; }
  return gen[hv_below(&R, sizeof gen / sizeof *gen)];
}

/* consistent renumbering: every gp_index and every reference to one (memattr targets / initiators, gp-indexed and heterogeneous
 * distances indexes) is shifted by the same constant, so a valid document stays valid but carries very large identifiers */
static char *gp_shift(const char *txt, size_t len, size_t *outlen, uint64_t K)
{
  struct xdoc d; xparse(&d, txt, len);
  struct hv_str out; hv_str_init(&out);
  size_t i = 0;
  while (i < len) {
    if ((i + 10 <= len && !memcmp(txt + i, "gp_index=\"", 10)) || (i + 8 <= len && !memcmp(txt + i, " id=\"obj", 8))) {
      size_t pl = txt[i] == ' ' ? 8 : 10;
      hv_str_addn(&out, txt + i, pl); i += pl;
      char *end; unsigned long long v = strtoull(txt + i, &end, 10);
      if (end != txt + i) { hv_str_add(&out, "%llu", (unsigned long long)(v + K)); i = (size_t)(end - txt); }
      continue;
    }
    /* an <indexes> element below gp-indexed or heterogeneous distances: rewrite the numbers and the length attribute */
    int handled = 0;
    for (unsigned k = 0; k < d.nn && !handled; k++) {
      struct xnode *x = &d.n[k];
      if (x->s != i || strcmp(x->name, "indexes") || x->selfclose || x->parent < 0) continue;
      struct xnode *pa = &d.n[x->parent]; int hetero = !strcmp(pa->name, "distances2hetero"), gp = 0;
      if (!hetero && !strcmp(pa->name, "distances2")) { struct xattr at[40]; unsigned na = xattrs(&d, pa, at, 40); for (unsigned a = 0; a < na; a++) if (at[a].ne - at[a].ns == 8 && !memcmp(txt + at[a].ns, "indexing", 8) && at[a].ve - at[a].vs == 2 && !memcmp(txt + at[a].vs, "gp", 2)) gp = 1; }
      if (!hetero && !gp) continue;
      size_t cs = x->e, ce = cs; while (ce < len && txt[ce] != '<') ce++;
      struct hv_str c; hv_str_init(&c);
      size_t p = cs;
      while (p < ce) {
        if (isdigit((unsigned char)txt[p]) && (p == cs || txt[p - 1] == ' ' || txt[p - 1] == ':' || txt[p - 1] == '\n')) { char *end; unsigned long long v = strtoull(txt + p, &end, 10); hv_str_add(&c, "%llu", (unsigned long long)(v + K)); p = (size_t)(end - txt); }
        else { hv_str_addn(&c, txt + p, 1); p++; }
      }
      hv_str_add(&out, "<indexes length=\"%zu\">", c.len);
      hv_str_addn(&out, c.s, c.len); hv_str_free(&c);
      i = ce; handled = 1;
    }
    if (handled) continue;
    hv_str_addn(&out, txt + i, 1); i++;
  }
  xfree(&d);
  *outlen = out.len;
  return out.s;
}

/* apply one random structure-aware mutation to txt; returns a new malloc'ed string (NUL-terminated), fills m */
static char *mutate_once(const char *txt, size_t len, size_t *outlen, struct mut *m)
{
  struct xdoc d; xparse(&d, txt, len);
  struct hv_str out; hv_str_init(&out);
  memset(m, 0, sizeof *m);
  char tmp[1024];
  unsigned op = (unsigned)hv_below(&R, 22);
  if (!d.nn) op = 19;
  struct xnode *x = d.nn ? &d.n[hv_below(&R, d.nn)] : NULL;
  /* prefer non-object elements half of the time (distances, memattr, cpukind, info, support, userdata, page_type ...) */
  if (d.nn && hv_chance(&R, 1, 2)) for (int tries = 0; tries < 12; tries++) { struct xnode *y = &d.n[hv_below(&R, d.nn)]; if (strcmp(y->name, "object") && strcmp(y->name, "info")) { x = y; break; } }
  struct xattr at[40]; unsigned na = x ? xattrs(&d, x, at, 40) : 0;
  if (op <= 8 && !na) op = 12;
  if (x) snprintf(m->elem, sizeof m->elem, "%s", x->name);
  if (op <= 5) { /* attr-replace */
    struct xattr *a = &at[hv_below(&R, na)];
    snprintf(m->op, sizeof m->op, "attr-replace"); snprintf(m->attr, sizeof m->attr, "%.*s", (int)(a->ne - a->ns), txt + a->ns);
    const char *v = garbage_value(m->attr, tmp, sizeof tmp);
    build(&out, txt, len, a->vs, a->ve, v, strlen(v));
  } else if (op == 6) { /* attr-tweak: numeric +-1 / bit flip in a hex mask */
    struct xattr *a = &at[hv_below(&R, na)];
    snprintf(m->op, sizeof m->op, "attr-tweak"); snprintf(m->attr, sizeof m->attr, "%.*s", (int)(a->ne - a->ns), txt + a->ns);
    size_t vl = a->ve - a->vs; if (vl >= sizeof tmp - 2) vl = sizeof tmp - 2;
    memcpy(tmp, txt + a->vs, vl); tmp[vl] = 0;
    if (vl) { size_t p = (size_t)hv_below(&R, vl); if (isxdigit((unsigned char)tmp[p])) tmp[p] = "0123456789abcdef"[hv_below(&R, 16)]; else tmp[p] = (char)('0' + hv_below(&R, 10)); }
    build(&out, txt, len, a->vs, a->ve, tmp, strlen(tmp));
  } else if (op == 7) { /* attr-drop */
    struct xattr *a = &at[hv_below(&R, na)];
    snprintf(m->op, sizeof m->op, "attr-drop"); snprintf(m->attr, sizeof m->attr, "%.*s", (int)(a->ne - a->ns), txt + a->ns);
    build(&out, txt, len, a->ns, a->ve + 1, NULL, 0);
  } else if (op == 8) { /* attr-dup (same name twice, other value) */
    struct xattr *a = &at[hv_below(&R, na)];
    snprintf(m->op, sizeof m->op, "attr-dup"); snprintf(m->attr, sizeof m->attr, "%.*s", (int)(a->ne - a->ns), txt + a->ns);
    int l = snprintf(tmp, sizeof tmp, " %.*s=\"%s\"", (int)(a->ne - a->ns), txt + a->ns, garbage_value(m->attr, tmp + 600, 300));
    build(&out, txt, len, a->ve + 1, a->ve + 1, tmp, (size_t)l);
  } else if (op == 9 || op == 10) { /* elem-drop */
    snprintf(m->op, sizeof m->op, "elem-drop");
    build(&out, txt, len, x->s, x->end, NULL, 0);
  } else if (op == 11) { /* elem-dup */
    snprintf(m->op, sizeof m->op, "elem-dup");
    build(&out, txt, len, x->end, x->end, txt + x->s, x->end - x->s);
  } else if (op == 12) { /* elem-move: re-parent the subtree after another element's start tag */
    snprintf(m->op, sizeof m->op, "elem-move");
    struct xnode *y = &d.n[hv_below(&R, d.nn)];
    if (y->s >= x->s && y->s < x->end) { build(&out, txt, len, x->s, x->end, NULL, 0); }
    else if (y->e <= x->s) { hv_str_addn(&out, txt, y->e); hv_str_addn(&out, txt + x->s, x->end - x->s); hv_str_addn(&out, txt + y->e, x->s - y->e); hv_str_addn(&out, txt + x->end, len - x->end); }
    else { hv_str_addn(&out, txt, x->s); hv_str_addn(&out, txt + x->end, y->e - x->end); hv_str_addn(&out, txt + x->s, x->end - x->s); hv_str_addn(&out, txt + y->e, len - y->e); }
  } else if (op == 13) { /* elem-rename */
    snprintf(m->op, sizeof m->op, "elem-rename");
    static const char *nm[] = { "object", "info", "distances2", "distances2hetero", "memattr", "memattr_value", "cpukind", "support", "userdata", "page_type", "indexes", "u64values", "topology", "topologydiff", "diff", "foo" };
    const char *v = nm[hv_below(&R, 16)];
    build(&out, txt, len, x->s + 1, x->s + 1 + strlen(x->name), v, strlen(v));
  } else if (op == 14) { /* truncate at an element boundary */
    snprintf(m->op, sizeof m->op, "truncate");
    size_t cut = hv_chance(&R, 1, 2) ? x->s : hv_chance(&R, 1, 2) ? x->e : x->end;
    hv_str_addn(&out, txt, cut);
  } else if (op == 15) { /* text content replaced (indexes / values / userdata) */
    snprintf(m->op, sizeof m->op, "content-replace");
    if (!x->selfclose && x->end > x->e) {
      size_t ce = x->e; while (ce < x->end && txt[ce] != '<') ce++;
      static const char *c[] = { "", "0 ", "1 2 3 4 5 6 7 8 9 10 11 12 13 14 15 16 17 18 19 20 ", "x y z", "-1 -1 ", "18446744073709551615 18446744073709551616 ", "NUMANode:1 PU:99999 ", "Foo:1 Bar:2 ", "====", "A" };
      const char *v = c[hv_below(&R, 10)];
      build(&out, txt, len, x->e, ce, v, strlen(v));
    } else build(&out, txt, len, 0, 0, NULL, 0);
  } else if (op <= 18) { /* byte-level */
    snprintf(m->op, sizeof m->op, "byte");
    size_t pos = len ? (size_t)hv_below(&R, len) : 0;
    /* attribute the byte to the element it falls in */
    for (unsigned i = 0; i < d.nn; i++) if (pos >= d.n[i].s && pos < d.n[i].e) { snprintf(m->elem, sizeof m->elem, "%s", d.n[i].name); struct xattr a2[40]; unsigned n2 = xattrs(&d, &d.n[i], a2, 40); for (unsigned k = 0; k < n2; k++) if (pos >= a2[k].ns && pos <= a2[k].ve) snprintf(m->attr, sizeof m->attr, "%.*s", (int)(a2[k].ne - a2[k].ns), txt + a2[k].ns); }
    char c = (char)(1 + hv_below(&R, 255));
    switch (hv_below(&R, 3)) { case 0: build(&out, txt, len, pos, pos + 1, &c, 1); break; case 1: build(&out, txt, len, pos, pos, &c, 1); break; default: build(&out, txt, len, pos, pos + 1 + (size_t)hv_below(&R, 8) > len ? len : pos + 1, NULL, 0); break; }
  } else if (op >= 20) { /* inject a side-structure element with a well-known name before </topology> */
    snprintf(m->op, sizeof m->op, "inject"); snprintf(m->elem, sizeof m->elem, "memattr");
    static const char *nm[] = { "Capacity", "Locality", "Bandwidth", "Latency", "ReadBandwidth", "WriteLatency", "custom", "" };
    static const char *fl[] = { "1", "2", "5", "6", "0", "3", "4294967295" };
    unsigned long long gp = 0; const char *o = strstr(txt, "type=\"NUMANode\""); if (o) { const char *g = strstr(o, "gp_index=\""); if (g) gp = strtoull(g + 10, NULL, 10); }
    if (hv_chance(&R, 1, 5)) gp = hv_below(&R, 1000);
    int l = snprintf(tmp, sizeof tmp, "  <memattr name=\"%s\" flags=\"%s\">\n    <memattr_value target_obj_gp_index=\"%llu\" target_obj_type=\"%s\" value=\"%llu\"%s/>\n  </memattr>\n",
                     nm[hv_below(&R, 8)], fl[hv_below(&R, 7)], gp, hv_chance(&R, 1, 6) ? "PU" : "NUMANode", (unsigned long long)hv_below(&R, 100000), hv_chance(&R, 1, 2) ? " initiator_cpuset=\"0x00000001\"" : hv_chance(&R, 1, 2) ? " initiator_obj_gp_index=\"1\" initiator_obj_type=\"Machine\"" : "");
    const char *endt = NULL; for (const char *q = txt; (q = strstr(q, "</topology>")) != NULL; q++) endt = q;
    size_t pos = endt ? (size_t)(endt - txt) : len;
    build(&out, txt, len, pos, pos, tmp, (size_t)l);
  } else { /* unstructured */
    snprintf(m->op, sizeof m->op, "random-bytes"); m->elem[0] = 0;
    static const char *frag[] = { "<?xml version=\"1.0\"?>", "<topology version=\"3.0\">", "<object type=\"Machine\" ", "cpuset=\"0x1\" ", "<", ">", "/>", "\"", "</topology>", "<object>", "<info name=\"a\" value=\"b\"/>", "<!DOCTYPE topology SYSTEM \"hwloc2.dtd\">", "&#x0;", "&lt;" };
    unsigned n = (unsigned)hv_below(&R, 12);
    for (unsigned k = 0; k < n; k++) { if (hv_chance(&R, 2, 3)) hv_str_add(&out, "%s", frag[hv_below(&R, 14)]); else { char c = (char)(1 + hv_below(&R, 255)); hv_str_addn(&out, &c, 1); } }
  }
  xfree(&d);
  *outlen = out.len;
  return out.s;
}

/* ------------------------------------------------------------------ base documents */
static char *base_document(size_t *lenp, int *is_diff, char *what, size_t wn)
{
  *is_diff = 0;
  unsigned k = (unsigned)hv_below(&R, 10);
  if (k < 4 && ncorpus) { const char *p = corpus[hv_below(&R, ncorpus)]; snprintf(what, wn, "corpus %s", strrchr(p, '/') + 1); return tl_read_file(p, lenp); }
  /* generated export */
  struct tg_synth_opts o; tg_synth_opts_default(&o); o.max_pus = 16; o.max_levels = 5;
  struct hv_str d; hv_str_init(&d); tg_synth_random(&R, &o, &d);
  struct tg_config c; tg_config_default(&c); c.filter[HWLOC_OBJ_MISC] = HWLOC_TYPE_FILTER_KEEP_ALL; c.filter[HWLOC_OBJ_MEMCACHE] = HWLOC_TYPE_FILTER_KEEP_ALL;
  int st; hwloc_topology_t t = tl_load_synthetic(d.s, &c, &st);
  if (!t) { hv_str_free(&d); const char *p = corpus[0]; snprintf(what, wn, "corpus %s", strrchr(p, '/') + 1); return tl_read_file(p, lenp); }
  struct hx h; hx_init(&h, t, &R); h.allow_bad_args = 0; h.allow_grouping = 0;
  hx_annotate(&h, 2 + (unsigned)hv_below(&R, 10));
  hv_desc_reset();
  char *buf = NULL; int len = 0; char *ret = NULL;
  if (k == 9) { /* a diff document */
    { hwloc_obj_t o0 = hwloc_get_obj_by_type(t, HWLOC_OBJ_PU, 0); if (!o0->name) o0->name = strdup("orig"); }
    hwloc_topology_t t2; hwloc_topology_dup(&t2, t);
    hwloc_obj_t o1 = hwloc_get_obj_by_type(t2, HWLOC_OBJ_PU, 0); free(o1->name); o1->name = strdup("renamed");
    { hwloc_obj_t n0 = hwloc_get_obj_by_type(t2, HWLOC_OBJ_NUMANODE, 0); n0->attr->numanode.local_memory += 4096; }
    hwloc_obj_add_info(hwloc_get_root_obj(t), "k", "v1"); hwloc_obj_add_info(hwloc_get_root_obj(t2), "k", "v2");
    hwloc_topology_diff_t df = NULL; hwloc_topology_diff_build(t, t2, 0, &df);
    if (df && hwloc_topology_diff_export_xmlbuffer(df, "ref", &buf, &len) == 0) { ret = malloc((size_t)len); memcpy(ret, buf, (size_t)len); *lenp = (size_t)len - 1; free(buf); *is_diff = 1; snprintf(what, wn, "generated diff document"); }
    if (df) hwloc_topology_diff_destroy(df);
    hwloc_topology_destroy(t2);
  }
  if (!ret) {
    unsigned long fl = k >= 7 ? HWLOC_TOPOLOGY_EXPORT_XML_FLAG_V2 : 0;
    if (hwloc_topology_export_xmlbuffer(t, &buf, &len, fl) == 0) { ret = malloc((size_t)len); memcpy(ret, buf, (size_t)len); *lenp = (size_t)len - 1; hwloc_free_xmlbuffer(t, buf); snprintf(what, wn, "%s export of \"%.200s\" + annotations", fl ? "v2-format" : "v3", d.s); }
  }
  hwloc_topology_destroy(t); hv_str_free(&d);
  return ret;
}

/* ------------------------------------------------------------------ oracles */
static void battery(hwloc_topology_t t)
{
  hv_ctxkey("battery:canon");
  struct hv_str s; hv_str_init(&s);
  canon_dump(t, CANON_ALL, &s);
  hv_str_free(&s);
  hv_ctxkey("battery:snprintf");
  struct tv_view vw; tv_view_build(t, &vw, 0);
  char b1[256], b2[1024];
  for (unsigned i = 0; i < vw.n; i++) { if (vw.n > 300 && !hv_chance(&R, 300, vw.n)) continue; hwloc_obj_type_snprintf(b1, sizeof b1, vw.v[i].o, hv_below(&R, 64)); hwloc_obj_attr_snprintf(b2, sizeof b2, vw.v[i].o, " ", hv_below(&R, 64)); }
  tv_view_free(&vw);
  hv_ctxkey("battery:export_xml");
  char *buf = NULL; int len = 0;
  if (hwloc_topology_export_xmlbuffer(t, &buf, &len, 0) == 0) hwloc_free_xmlbuffer(t, buf);
  if (hwloc_topology_export_xmlbuffer(t, &buf, &len, HWLOC_TOPOLOGY_EXPORT_XML_FLAG_V2) == 0) hwloc_free_xmlbuffer(t, buf);
  hv_ctxkey("battery:export_synthetic");
  char syn[4096]; hwloc_topology_export_synthetic(t, syn, sizeof syn, 0);
  hv_ctxkey("battery:dup");
  hwloc_topology_t t2 = NULL;
  if (hwloc_topology_dup(&t2, t) == 0) { hv_ctxkey("battery:destroy_dup"); hwloc_topology_destroy(t2); }
  hv_ctxkey("%s", "");
  hv_stat("battery.runs", 1);
}

/* returns 0 load failed cleanly, 1 loaded and WF-clean, 2 loaded and WF failed (violations recorded iff report) */
static int try_topology(const char *doc, size_t len, int nul_inside, int byfile, int report, const char *keyprefix, char *wfkey, size_t wfn)
{
  hwloc_topology_t t; hwloc_topology_init(&t);
  hwloc_topology_set_all_types_filter(t, HWLOC_TYPE_FILTER_KEEP_ALL);
  if (hv_chance(&R, 1, 3)) hwloc_topology_set_flags(t, HWLOC_TOPOLOGY_FLAG_INCLUDE_DISALLOWED | (hv_chance(&R, 1, 2) ? HWLOC_TOPOLOGY_FLAG_IMPORT_SUPPORT : 0));
  int rc;
  char *exact = NULL;
  hv_ctxkey("set_xml%s", byfile ? "" : "buffer");
  if (byfile) {
    FILE *f = fopen(tmp_path, "wb"); if (!f) hv_fail("cannot write %s", tmp_path);
    fwrite(doc, 1, len, f); fclose(f);
    rc = hwloc_topology_set_xml(t, tmp_path);
  } else {
    size_t sz = nul_inside ? len + 1 : (len ? len : 1);
    exact = malloc(sz); memcpy(exact, doc, len < sz ? len : sz); if (nul_inside) exact[len] = 0; else if (!len) exact[0] = 'x';
    rc = hwloc_topology_set_xmlbuffer(t, exact, (int)sz);
  }
  int result = 0;
  if (rc != 0 && rc != -1) hv_viol("retval.set", "set_xml%s returned %d", byfile ? "" : "buffer", rc);
  if (rc == 0) {
    hv_ctxkey("load");
    rc = hwloc_topology_load(t);
    if (rc != 0 && rc != -1) hv_viol("retval.load", "load returned %d", rc);
  }
  if (rc == 0) {
    hv_stat("loads.ok", 1);
    int before = hv_viol_count();
    if (hwloc_bitmap_last(hwloc_topology_get_complete_cpuset(t)) >= VS_W - 64 || hwloc_bitmap_weight(hwloc_topology_get_complete_cpuset(t)) < 0 ||
        hwloc_bitmap_last(hwloc_topology_get_complete_nodeset(t)) >= VS_W - 64 || hwloc_bitmap_weight(hwloc_topology_get_complete_nodeset(t)) < 0) {
      hv_stat("loads.ok_beyond_model_window", 1); result = 1;
    } else if (report) {
      int fails = wf_check(t, keyprefix);
      result = fails ? 2 : 1;
      (void)before;
    } else {
      /* silent probe: run WF in a way that does not record */
      result = 1;
    }
    if (result == 1 && report) { wf_builtin(t, "loaded_xml"); battery(t); }
    if (wfkey) wfkey[0] = 0;
    (void)wfn;
  } else {
    hv_stat("loads.failed", 1);
    /* the topology must be reusable after a failed load */
    hv_ctxkey("reuse_after_failure");
    static unsigned reuse_n; unsigned mode = force_reuse_mode >= 0 ? (unsigned)force_reuse_mode : ++reuse_n % 6;   /* 0,2,4: synthetic; 1,3,5: one of three documents */
    if (mode % 2 == 0) {
      if (hwloc_topology_set_synthetic(t, "pu:1") != 0 || hwloc_topology_load(t) != 0) hv_viol("reuse_after_failure", "after a failed XML load the topology cannot be configured and loaded again");
      else if (hwloc_get_nbobjs_by_type(t, HWLOC_OBJ_PU) != 1) hv_viol("reuse_after_failure", "reused topology has %d PUs instead of 1", hwloc_get_nbobjs_by_type(t, HWLOC_OBJ_PU));
    } else {
      /* reuse with a valid document that carries CPU kinds, memory attributes and distances: whatever the failed load had already
       * registered in these side structures must not survive into (or corrupt) the next load */
      static const char *good[] = { "tests/hwloc/xml/fakecpukinds.xml", "tests/hwloc/xml/8intel64-4n2t-memattrs.xml", "tests/hwloc/xml/fakeheterodistances.xml" };
      char path[4200]; snprintf(path, sizeof path, "%s/%s", HV.repo, good[(mode / 2) % 3]);
      hv_ctxkey("reuse_after_failure:xml");
      hv_stat("reuse_after_failure.xml", 1);
      if (hwloc_topology_set_xml(t, path) != 0 || hwloc_topology_load(t) != 0) hv_viol("reuse_after_failure.xml", "after a failed XML load the topology cannot load %s", path);
      else {
        hwloc_topology_t ref; hwloc_topology_init(&ref); hwloc_topology_set_all_types_filter(ref, HWLOC_TYPE_FILTER_KEEP_ALL); hwloc_topology_set_flags(ref, hwloc_topology_get_flags(t));
        if (hwloc_topology_set_xml(ref, path) == 0 && hwloc_topology_load(ref) == 0) {
          struct hv_str a, b; hv_str_init(&a); hv_str_init(&b); canon_dump(t, CANON_ALL, &a); canon_dump(ref, CANON_ALL, &b);
          if (strcmp(a.s, b.s)) { const char *x = a.s, *y = b.s; while (*x && *x == *y) { x++; y++; } while (x > a.s && x[-1] != '\n') { x--; y--; }
            hv_viol("reuse_after_failure.differs", "a topology reused after a failed load differs from a fresh load of %s: '%.120s' vs '%.120s'", path, x, y); }
          hv_str_free(&a); hv_str_free(&b);
        }
        hwloc_topology_destroy(ref);
      }
    }
  }
  hv_ctxkey("destroy");
  hwloc_topology_destroy(t);
  free(exact);
  hv_ctxkey("%s", "");
  return result;
}

static void try_diff(const char *doc, size_t len)
{
  char *exact = malloc(len + 1); memcpy(exact, doc, len); exact[len] = 0;
  hwloc_topology_diff_t df = NULL; char *ref = NULL;
  hv_ctxkey("diff_load_xmlbuffer");
  int rc = hwloc_topology_diff_load_xmlbuffer(exact, (int)len + 1, &df, &ref);
  if (rc != 0 && rc != -1) hv_viol("retval.diff_load", "diff_load_xmlbuffer returned %d", rc);
  hv_stat(rc == 0 ? "diff.loaded" : "diff.rejected", 1);
  if (rc == 0) {
    /* walk and re-export what was loaded */
    unsigned n = 0; for (hwloc_topology_diff_t d = df; d && n < 100000; d = d->generic.next) n++;
    char *b = NULL; int l = 0;
    hv_ctxkey("diff_export_xmlbuffer");
    if (df && hwloc_topology_diff_export_xmlbuffer(df, ref ? ref : "r", &b, &l) == 0) free(b);
    hv_ctxkey("diff_destroy");
    if (df) hwloc_topology_diff_destroy(df);
    free(ref);
  }
  free(exact);
  hv_ctxkey("%s", "");
}

/* metamorphic case: the order in which two adjacent sibling <object> elements (normal objects with non-empty cpusets) appear in a valid
 * document is irrelevant - the importer re-sorts children and says so in hwloc__xml_import_report_outoforder(). The swapped document must
 * load, be well formed and be observably identical to the original one. */
static int swappable(const struct xdoc *d, const struct xnode *x)
{
  if (strcmp(x->name, "object")) return 0;
  struct xattr a[40]; unsigned n = xattrs(d, x, a, 40); int ok = 0;
  for (unsigned i = 0; i < n; i++) { size_t nl = a[i].ne - a[i].ns, vl = a[i].ve - a[i].vs; const char *nm = d->txt + a[i].ns, *v = d->txt + a[i].vs;
    if (nl == 4 && !strncmp(nm, "type", 4)) { static const char *const no[] = { "NUMANode", "MemCache", "Bridge", "PCIDev", "OSDev", "Misc", "Machine" }; ok = 1; for (unsigned q = 0; q < 7; q++) if (vl == strlen(no[q]) && !strncmp(v, no[q], vl)) ok = 0; if (!ok) return 0; }
    if ((nl == 6 && !strncmp(nm, "cpuset", 6)) || (nl == 15 && !strncmp(nm, "complete_cpuset", 15))) {      /* objects without CPUs have no defined place among their siblings */
      char val[4096]; if (vl >= sizeof val) return 0; memcpy(val, v, vl); val[vl] = 0; hwloc_bitmap_t bm = hwloc_bitmap_alloc(); int z = hwloc_bitmap_sscanf(bm, val) != 0 || hwloc_bitmap_iszero(bm); hwloc_bitmap_free(bm); if (z) return 0; } }
  return ok;
}
static hwloc_topology_t load_keepall_buffer(const char *doc, size_t len, unsigned long flags)
{
  hwloc_topology_t t; hwloc_topology_init(&t); hwloc_topology_set_all_types_filter(t, HWLOC_TYPE_FILTER_KEEP_ALL); hwloc_topology_set_flags(t, flags);
  char *exact = malloc(len + 1); memcpy(exact, doc, len); exact[len] = 0;
  int rc = hwloc_topology_set_xmlbuffer(t, exact, (int)len + 1); if (rc == 0) rc = hwloc_topology_load(t);
  free(exact);
  if (rc != 0) { hwloc_topology_destroy(t); return NULL; }
  return t;
}
static void swap_case(void)
{
  size_t blen = 0; int is_diff = 0; char what[400];
  hv_ctxkey("base_document");
  char *base = base_document(&blen, &is_diff, what, sizeof what);
  if (!base || is_diff) { free(base); hv_stat("sibling_swap.no_document", 1); return; }
  hv_desc_reset();
  struct xdoc d; xparse(&d, base, blen);
  int pa[512], pb[512]; unsigned np = 0;
  for (unsigned i = 0; i < d.nn && np < 512; i++) { if (!swappable(&d, &d.n[i])) continue;
    for (unsigned j = i + 1; j < d.nn; j++) if (d.n[j].parent == d.n[i].parent && d.n[j].s >= d.n[i].end) { if (!strcmp(d.n[j].name, "object") && swappable(&d, &d.n[j])) { pa[np] = (int)i; pb[np] = (int)j; np++; } break; } }
  if (!np) { xfree(&d); free(base); hv_stat("sibling_swap.no_pair", 1); return; }
  unsigned k = (unsigned)hv_below(&R, np); const struct xnode *a = &d.n[pa[k]], *b = &d.n[pb[k]];
  struct hv_str x; hv_str_init(&x);
  hv_str_addn(&x, base, a->s); hv_str_addn(&x, base + b->s, b->end - b->s); hv_str_addn(&x, base + a->end, b->s - a->end); hv_str_addn(&x, base + a->s, a->end - a->s); hv_str_addn(&x, base + b->end, blen - b->end);
  /* always with INCLUDE_DISALLOWED: without it, objects whose CPUs are all disallowed lose their cpuset at load time and CPU-less siblings
   * have no defined order (they stay in document order) */
  unsigned long flags = HWLOC_TOPOLOGY_FLAG_INCLUDE_DISALLOWED | (hv_chance(&R, 1, 2) ? HWLOC_TOPOLOGY_FLAG_IMPORT_SUPPORT : 0);
  hv_desc("base: %s (%zu bytes); sibling <object> elements at offsets %zu and %zu swapped; flags %#lx; backend %s\n", what, blen, a->s, b->s, flags, backend);
  hv_ctxkey("sibling_swap:load_original");
  hwloc_topology_t t1 = load_keepall_buffer(base, blen, flags);
  if (!t1) hv_stat("sibling_swap.original_rejected", 1);
  else {
    hv_ctxkey("sibling_swap:load_swapped");
    hwloc_topology_t t2 = load_keepall_buffer(x.s, x.len, flags);
    char kp[120]; snprintf(kp, sizeof kp, "sibling_swap/%s/", backend);
    if (!t2) hv_viol("sibling_swap.rejected", "a valid document with two adjacent sibling objects swapped is rejected");
    else {
      if (wf_check(t2, kp) == 0) {
        wf_builtin(t2, "sibling_swap");
        /* CPU-less normal objects have no defined place among their siblings (a re-sort may permute them): such topologies are checked for
         * well-formedness only */
        int cpuless = 0; { int td = hwloc_topology_get_depth(t1); for (int dd = 0; dd < td && !cpuless; dd++) for (hwloc_obj_t o = NULL; (o = hwloc_get_next_obj_by_depth(t1, dd, o)) != NULL; ) if (hwloc_bitmap_iszero(o->cpuset)) { cpuless = 1; break; } }
        if (cpuless) { hv_stat("sibling_swap.cpuless_objects_wf_only", 1); goto swapped_done; }
        /* documents without gp_index attributes (hwloc 2.0 and older) get their gp_index values in document order: not compared then */
        unsigned cw = strstr(base, " gp_index=\"") ? CANON_ALL : CANON_ALL & ~(unsigned)CANON_GP;
        struct hv_str c1, c2; hv_str_init(&c1); hv_str_init(&c2); canon_dump(t1, cw, &c1); canon_dump(t2, cw, &c2);
        const char *df = canon_diff(&c1, &c2);
        if (df) hv_viol("sibling_swap.differs", "the document with two sibling objects swapped loads into a different topology: %s", df);
        hv_str_free(&c1); hv_str_free(&c2);
      }
      swapped_done:
      hv_stat("sibling_swap.compared", 1); hv_distinct(4, hv_hash_u64(a->s, hv_hash_str(what, flags)));
      hwloc_topology_destroy(t2);
    }
    hwloc_topology_destroy(t1);
  }
  hv_str_free(&x); xfree(&d); free(base);
  hv_ctxkey("%s", "");
  hv_leak_check();
}

void hv_case(uint64_t index)
{
  hv_rng_seed(&R, HV.seed, "c06", index);
  if (witness_case(index)) return;
  if ((index / 16) % 8 == 3) { swap_case(); return; }
  size_t blen = 0; int is_diff = 0; char what[400];
  hv_ctxkey("base_document");
  char *base = base_document(&blen, &is_diff, what, sizeof what);
  if (!base) { hv_stat("no_base_document", 1); return; }
  hv_desc_reset();
  /* mutations: 0 (valid as is) .. 3 */
  unsigned nm = hv_chance(&R, 1, 12) ? 0 : hv_chance(&R, 3, 4) ? 1 : 2 + (unsigned)hv_below(&R, 2);
  struct mut ms[4]; char *cur = base; size_t curlen = blen;
  int shifted = 0;
  if (!is_diff && hv_chance(&R, 1, 6)) { static const uint64_t Ks[] = { 1000000000000ULL, 4294967296ULL, 18446744073709000000ULL }; size_t nl; char *n2 = gp_shift(base, blen, &nl, Ks[hv_below(&R, 3)]); cur = n2; curlen = nl; shifted = 1; hv_stat("inputs.gp_indexes_shifted", 1); }
  for (unsigned k = 0; k < nm; k++) {
    size_t nl; char *n2 = mutate_once(cur, curlen, &nl, &ms[k]);
    if (cur != base) free(cur);
    cur = n2; curlen = nl;
  }
  char mkey[200] = ""; size_t mp = 0;
  for (unsigned k = 0; k < nm; k++) mp += (size_t)snprintf(mkey + mp, sizeof mkey - mp, "%s%s:%s.%s", k ? "+" : "", ms[k].op, ms[k].elem, ms[k].attr);
  if (!nm) snprintf(mkey, sizeof mkey, "none");
  if (shifted) { size_t l = strlen(mkey); snprintf(mkey + l, sizeof mkey - l, "+gpshift"); }
  int byfile = hv_chance(&R, 1, 5), nul_inside = !hv_chance(&R, 1, 6);
  hv_desc("base: %s (%zu bytes); mutations: %s; entry: %s%s; backend %s\n", what, blen, mkey, byfile ? "file" : "buffer", byfile ? "" : nul_inside ? " with final NUL" : " without NUL", backend);
  if (curlen < 3000) { hv_desc("document:\n"); for (size_t i = 0; i < curlen; i++) { unsigned char c = (unsigned char)cur[i]; if ((c >= 32 && c < 127) || c == '\n') hv_desc("%c", c); else hv_desc("\\x%02x", c); } hv_desc("\n"); }
  if (is_diff) { try_diff(cur, curlen); hv_distinct(2, hv_hash_str(mkey, 3)); }
  else {
    char prefix[300]; snprintf(prefix, sizeof prefix, "%s", "");
    /* first a recording-free pass is not possible with wf_check; record with a prefix that we complete afterwards */
    int before = hv_viol_count();
    char kp[260]; snprintf(kp, sizeof kp, "mut=%s/%s/", mkey, backend);
    int r = try_topology(cur, curlen, nul_inside, byfile, 1, kp, NULL, 0);
    (void)before;
    hv_distinct(1, hv_hash_u64((uint64_t)r, hv_hash_str(mkey, 1)));
    hv_stat(nm == 0 ? "inputs.unmutated" : nm == 1 ? "inputs.one_mutation" : "inputs.multi_mutation", 1);
    if (r == 2) hv_stat("loads.ok_but_not_wellformed", 1);
  }
  if (index < 10) hv_sample("base: %s; mutations: %s; backend %s", what, mkey, backend);
  if (cur != base) free(cur);
  free(base);
  unlink(tmp_path);
  hv_leak_check();
}
