/* C15: CPU kinds always partition the registered PUs and are ranked consistently. Per-PU coverage model. */
#include "hv.h"
#include "topo.h"
#include "hist.h"
#include <hwloc/cpukinds.h>

const char *hv_property = "C15";
unsigned hv_batch = 8;
unsigned hv_cpu_limit_s = 120;
static struct hv_rng R;
static const char **corpus; static unsigned ncorpus;

static char fakekinds[600];
void hv_setup(void) { ncorpus = tl_corpus(&corpus); const char *root = getenv("VERIF_REPO_ROOT"); snprintf(fakekinds, sizeof fakekinds, "%s/tests/hwloc/xml/fakecpukinds.xml", root ? root : "/repo"); }

#define UNIV 320          /* PU indexes modelled */
#define MAXREG 48
#define MAXPAIR 6
static int RANK_USES_FORCED = 1;
static int HWLIKE;      /* per case: 0 arbitrary info pairs, 1 frequency-first, 2 core-type-first registrations */
static const char *NAMES[] = { "FrequencyMaxMHz", "FrequencyBaseMHz", "CoreType", "CustomKind", "a<&\"b", "X" };
static const char *VALUES[] = { "1000", "2400", "3000", "IntelAtom", "IntelCore", "big", "", "v&<>\"'", "2400 " };
struct reg { int forced; int opaque_forced; unsigned np; char *n[MAXPAIR]; char *v[MAXPAIR]; };   /* a registration (or a kind found at load) */
static struct reg REG[MAXREG]; static unsigned NREG;
static uint64_t COV[UNIV];           /* per PU: which registrations covered it */
static int LASTREG[UNIV];            /* per PU: last registration that covered it (-1 none) */
static hwloc_topology_t T;

static void model_reset(void)
{
  for (unsigned r = 0; r < NREG; r++) for (unsigned p = 0; p < REG[r].np; p++) { free(REG[r].n[p]); free(REG[r].v[p]); }
  NREG = 0; memset(REG, 0, sizeof REG); memset(COV, 0, sizeof COV); for (unsigned i = 0; i < UNIV; i++) LASTREG[i] = -1;
}
static int reg_has_pair(const struct reg *r, const char *n, const char *v) { for (unsigned p = 0; p < r->np; p++) if (!strcmp(r->n[p], n) && !strcmp(r->v[p], v)) return 1; return 0; }

static void model_seed(void)
{
  model_reset();
  int nr = hwloc_cpukinds_get_nr(T, 0);
  for (int k = 0; k < nr && NREG < MAXREG; k++) {
    hwloc_bitmap_t cs = hwloc_bitmap_alloc(); struct hwloc_infos_s *infos = NULL; int eff;
    if (hwloc_cpukinds_get_info(T, (unsigned)k, cs, &eff, &infos, 0) != 0) { hwloc_bitmap_free(cs); continue; }
    struct reg *r = &REG[NREG]; r->opaque_forced = 1; r->forced = -1;
    for (unsigned p = 0; infos && p < infos->count && r->np < MAXPAIR; p++) { r->n[r->np] = strdup(infos->array[p].name); r->v[r->np] = strdup(infos->array[p].value); r->np++; }
    int id; hwloc_bitmap_foreach_begin(id, cs) if (id < UNIV) { COV[id] |= 1ULL << NREG; LASTREG[id] = (int)NREG; } hwloc_bitmap_foreach_end();
    NREG++; hwloc_bitmap_free(cs);
    hv_stat("seeded_kinds", 1);
  }
}

static void model_restrict(void)
{
  hwloc_const_bitmap_t root = hwloc_topology_get_topology_cpuset(T);
  for (unsigned i = 0; i < UNIV; i++) if (!hwloc_bitmap_isset(root, i)) { COV[i] = 0; LASTREG[i] = -1; }
}

static void check_model(const char *after)
{
  hv_ctxkey("check_model:%s", after);
  errno = 0;
  if (hwloc_cpukinds_get_nr(T, 1UL << hv_below(&R, 8)) != -1 || errno != EINVAL) hv_viol("get_nr.flags", "non-zero flags accepted by get_nr");
  int nr = hwloc_cpukinds_get_nr(T, 0);
  if (nr < 0) { hv_viol("get_nr.rc", "get_nr returned %d", nr); return; }
  hwloc_bitmap_t un = hwloc_bitmap_alloc(), want_un = hwloc_bitmap_alloc();
  for (unsigned i = 0; i < UNIV; i++) if (COV[i]) hwloc_bitmap_set(want_un, i);
  hwloc_bitmap_t *ks = calloc((size_t)nr + 1, sizeof *ks); int *eff = calloc((size_t)nr + 1, sizeof *eff);
  int all_forced_known = 1, forced_of[256];
  for (int k = 0; k < nr && !hv_viol_count(); k++) {
    ks[k] = hwloc_bitmap_alloc(); struct hwloc_infos_s *infos = NULL; eff[k] = -77;
    if (hwloc_cpukinds_get_info(T, (unsigned)k, ks[k], &eff[k], &infos, 0) != 0 || !infos) { hv_viol("get_info.rc", "get_info(%d) failed although get_nr is %d", k, nr); break; }
    hv_stat("kinds_checked", 1);
    if (hwloc_bitmap_iszero(ks[k])) hv_viol("partition.empty_kind", "kind %d of %d has an empty cpuset after %s", k, nr, after);
    if (hwloc_bitmap_intersects(un, ks[k])) hv_viol("partition.overlap", "kind %d overlaps an earlier kind after %s", k, after);
    hwloc_bitmap_or(un, un, ks[k]);
    /* infos: no exact duplicates */
    for (unsigned a = 0; a < infos->count && !hv_viol_count(); a++) for (unsigned b = a + 1; b < infos->count; b++) if (!strcmp(infos->array[a].name, infos->array[b].name) && !strcmp(infos->array[a].value, infos->array[b].value)) { hv_viol("infos.duplicate", "kind %d holds the pair (%s,%s) twice", k, infos->array[a].name, infos->array[a].value); break; }
    /* every pair of every registration that covered one of its PUs */
    uint64_t cov_any = 0; int id; int kforced = -2;
    hwloc_bitmap_foreach_begin(id, ks[k]) {
      if (id >= UNIV) continue;
      cov_any |= COV[id];
      for (unsigned r = 0; r < NREG && !hv_viol_count(); r++) if (COV[id] & (1ULL << r)) for (unsigned p = 0; p < REG[r].np; p++) {
        int have = 0; for (unsigned a = 0; a < infos->count; a++) if (!strcmp(infos->array[a].name, REG[r].n[p]) && !strcmp(infos->array[a].value, REG[r].v[p])) have = 1;
        if (!have) { hv_viol("infos.missing", "kind %d (contains PU %d) lacks the pair (%s,%s) of registration #%u that covered this PU", k, id, REG[r].n[p], REG[r].v[p], r); break; }
      }
      if (LASTREG[id] >= 0) { const struct reg *lr = &REG[LASTREG[id]]; int f = lr->opaque_forced ? -3 : lr->forced; if (kforced == -2) kforced = f; else if (kforced != f) kforced = -3; }
    } hwloc_bitmap_foreach_end();
    /* and nothing that no covering registration provided */
    for (unsigned a = 0; a < infos->count && !hv_viol_count(); a++) { int from = 0; for (unsigned r = 0; r < NREG; r++) if ((cov_any & (1ULL << r)) && reg_has_pair(&REG[r], infos->array[a].name, infos->array[a].value)) from = 1;
      if (!from) hv_viol("infos.invented", "kind %d holds the pair (%s,%s) that no registration covering its PUs provided", k, infos->array[a].name, infos->array[a].value); }
    if (k < 256) forced_of[k] = kforced;
    if (kforced < 0) all_forced_known = 0;
    /* optional output arguments */
    if (hwloc_cpukinds_get_info(T, (unsigned)k, NULL, NULL, NULL, 0) != 0) hv_viol("get_info.null_outputs", "get_info with NULL outputs failed");
  }
  if (!hv_viol_count()) {
    if (!hwloc_bitmap_isequal(un, want_un)) { char a[200], b[200]; hwloc_bitmap_list_snprintf(a, sizeof a, un); hwloc_bitmap_list_snprintf(b, sizeof b, want_un); hv_viol("partition.union", "after %s the kinds cover {%s}, the registered PUs are {%s}", after, a, b); }
    /* efficiencies: all -1, or the identity permutation */
    int unknown = 0, ident = 1; for (int k = 0; k < nr; k++) { if (eff[k] == -1) unknown++; if (eff[k] != k) ident = 0; }
    if (nr && !(unknown == nr || ident)) { char s[300]; int off = 0; for (int k = 0; k < nr && off < 280; k++) off += snprintf(s + off, sizeof s - (size_t)off, "%d ", eff[k]); hv_viol("ranking.not_identity", "after %s the efficiencies of the %d kinds are [%s], neither all -1 nor 0..nr-1 in kind order", after, nr, s); }
    if (nr >= 2 && nr <= 256 && all_forced_known && RANK_USES_FORCED) {
      int distinct = 1; for (int a = 0; a < nr; a++) for (int b = a + 1; b < nr; b++) if (forced_of[a] == forced_of[b]) distinct = 0;
      if (distinct) {
        hv_stat("ranking.forced_known_distinct", 1);
        if (unknown) hv_viol("ranking.forced_ignored", "all %d kinds have known distinct forced efficiencies but the efficiencies are unknown after %s", nr, after);
        else for (int k = 0; k + 1 < nr; k++) if (forced_of[k] > forced_of[k + 1]) { hv_viol("ranking.forced_order", "kind %d (forced efficiency %d) is ranked before kind %d (forced %d) after %s", k, forced_of[k], k + 1, forced_of[k + 1], after); break; }
      }
    }
    if (nr >= 2 && ident) hv_stat("ranking.ranked_multi_kind", 1);
    if (nr >= 2 && unknown == nr) hv_stat("ranking.unranked_multi_kind", 1);
  }
  /* get_by_cpuset against the reported partition */
  for (unsigned q = 0; q < 6 && !hv_viol_count(); q++) {
    hwloc_bitmap_t s = hwloc_bitmap_alloc(); unsigned mode = (unsigned)hv_below(&R, 7);
    if (mode == 0 && nr) { hwloc_bitmap_copy(s, ks[hv_below(&R, (uint64_t)nr)]); }
    else if (mode == 1 && nr) { hwloc_bitmap_copy(s, ks[hv_below(&R, (uint64_t)nr)]); hwloc_bitmap_singlify(s); }
    else if (mode == 2 && nr) { hwloc_bitmap_or(s, ks[hv_below(&R, (uint64_t)nr)], ks[hv_below(&R, (uint64_t)nr)]); }
    else if (mode == 3 && nr) { hwloc_bitmap_copy(s, ks[hv_below(&R, (uint64_t)nr)]); hwloc_bitmap_singlify(s); hwloc_bitmap_set(s, 300 + (unsigned)hv_below(&R, 10)); }
    else if (mode == 4) { hwloc_bitmap_set(s, 305 + (unsigned)hv_below(&R, 10)); }
    else if (mode == 5) { for (unsigned i = 0; i < 64; i++) if (hv_chance(&R, 1, 6)) hwloc_bitmap_set(s, i); }
    else { /* empty or NULL */ }
    int expect = -1, eerr = ENOENT, inside = -1, touched = 0;
    if (hwloc_bitmap_iszero(s)) eerr = EINVAL;
    else { for (int k = 0; k < nr; k++) { if (hwloc_bitmap_isincluded(s, ks[k])) inside = k; if (hwloc_bitmap_intersects(s, ks[k])) touched++; }
      if (inside >= 0) expect = inside; else if (touched) eerr = EXDEV; }
    int null_arg = hwloc_bitmap_iszero(s) && hv_chance(&R, 1, 2);
    errno = 0; int rc = hwloc_cpukinds_get_by_cpuset(T, null_arg ? NULL : s, 0);
    hv_stat("queries.get_by_cpuset", 1);
    if (rc != expect || (rc < 0 && errno != eerr)) { char a[200]; hwloc_bitmap_list_snprintf(a, sizeof a, s); hv_viol(expect >= 0 ? "get_by_cpuset.index" : eerr == EXDEV ? "get_by_cpuset.exdev" : eerr == ENOENT ? "get_by_cpuset.enoent" : "get_by_cpuset.einval", "get_by_cpuset({%s}) returned %d errno %d, the reported kinds give %d errno %d", a, rc, rc < 0 ? errno : 0, expect, expect < 0 ? eerr : 0); }
    else hv_stat(expect >= 0 ? "get_by_cpuset.index" : eerr == EXDEV ? "get_by_cpuset.exdev" : eerr == ENOENT ? "get_by_cpuset.enoent" : "get_by_cpuset.einval", 1);
    errno = 0; if (!hwloc_bitmap_iszero(s) && (hwloc_cpukinds_get_by_cpuset(T, s, 1UL << hv_below(&R, 6)) != -1 || errno != EINVAL)) hv_viol("get_by_cpuset.flags", "non-zero flags accepted");
    hwloc_bitmap_free(s);
  }
  { errno = 0; if (hwloc_cpukinds_get_info(T, (unsigned)nr + (unsigned)hv_below(&R, 3), NULL, NULL, NULL, 0) != -1 || errno != ENOENT) hv_viol("get_info.enoent", "get_info beyond get_nr did not fail with ENOENT");
    errno = 0; if (nr && (hwloc_cpukinds_get_info(T, 0, NULL, NULL, NULL, 2) != -1 || errno != EINVAL)) hv_viol("get_info.flags", "non-zero flags accepted by get_info"); }
  for (int k = 0; k < nr; k++) if (ks[k]) hwloc_bitmap_free(ks[k]);
  free(ks); free(eff); hwloc_bitmap_free(un); hwloc_bitmap_free(want_un);
  hv_max("max_kinds", (uint64_t)nr);
  hv_stat("model_checks", 1);
  hv_ctxkey("%s", "");
}

static void op_register(void)
{
  hwloc_const_bitmap_t root = hwloc_topology_get_topology_cpuset(T);
  hwloc_bitmap_t cs = hwloc_bitmap_alloc();
  unsigned mode = (unsigned)hv_below(&R, 12);
  struct hx h; hx_init(&h, T, &R);
  if (mode < 4) { hwloc_obj_t o = hx_pick_obj(&h, 1); hwloc_bitmap_copy(cs, o->cpuset); }
  else if (mode < 7) { int id; hwloc_bitmap_foreach_begin(id, root) if (hv_chance(&R, 1, 2)) hwloc_bitmap_set(cs, (unsigned)id); hwloc_bitmap_foreach_end(); }
  else if (mode == 7) hwloc_bitmap_copy(cs, root);
  else if (mode == 8) { int nr = hwloc_cpukinds_get_nr(T, 0); if (nr > 0) hwloc_cpukinds_get_info(T, (unsigned)hv_below(&R, (uint64_t)nr), cs, NULL, NULL, 0); if (hv_chance(&R, 1, 2) && hwloc_bitmap_weight(cs) > 1) hwloc_bitmap_clr(cs, (unsigned)hwloc_bitmap_first(cs)); }   /* an existing kind, or all but one of its PUs */
  else if (mode == 9) { hwloc_obj_t o = hx_pick_obj(&h, 1); hwloc_bitmap_copy(cs, o->cpuset); hwloc_bitmap_set_range(cs, 280, 280 + (int)hv_below(&R, 20)); }                                            /* PUs outside the topology */
  else if (mode == 10) { hwloc_obj_t o = hx_pick_obj(&h, 1); hwloc_bitmap_copy(cs, o->cpuset); hwloc_bitmap_singlify(cs); }
  else { /* empty */ }
  int null_set = mode == 11 && hv_chance(&R, 1, 2);
  unsigned long flags = hv_chance(&R, 1, 20) ? 1UL << hv_below(&R, 6) : 0;
  int forced = hv_chance(&R, 1, 3) ? -1 : hv_chance(&R, 1, 8) ? -5 : (int)hv_below(&R, 6);
  struct hwloc_infos_s infos; struct hwloc_info_s arr[MAXPAIR]; memset(&infos, 0, sizeof infos);
  unsigned np = (unsigned)hv_below(&R, 4); int null_infos = np == 0 && hv_chance(&R, 1, 2);
  struct reg r; memset(&r, 0, sizeof r); r.forced = forced < 0 ? -1 : forced;
  if (HWLIKE) np = 1 + (unsigned)hv_below(&R, 3), null_infos = 0;   /* every registration carries what the info-based strategies read */
  for (unsigned p = 0; p < np; p++) {
    const char *n = NAMES[hv_below(&R, 6)], *v = VALUES[hv_below(&R, 9)];
    if (HWLIKE) { static const char *FREQ[] = { "800", "1000", "1800", "2400", "3000", "3600", "5200" }, *CT[] = { "IntelAtom", "IntelCore" };
      if (p == 0) { n = HWLIKE == 2 ? "CoreType" : "FrequencyMaxMHz"; v = HWLIKE == 2 ? CT[hv_below(&R, 2)] : FREQ[hv_below(&R, 7)]; }
      else if (p == 1) { n = HWLIKE == 2 ? "FrequencyMaxMHz" : "FrequencyBaseMHz"; v = FREQ[hv_below(&R, 7)]; }
      else { n = hv_chance(&R, 1, 2) ? "CoreType" : "FrequencyBaseMHz"; v = n[0] == 'C' ? CT[hv_below(&R, 2)] : FREQ[hv_below(&R, 7)]; } }
    if (p && hv_chance(&R, 1, 5)) { n = arr[p - 1].name; v = arr[p - 1].value; }    /* the same pair twice in one call */
    arr[p].name = (char *)n; arr[p].value = (char *)v;
    if (!reg_has_pair(&r, n, v)) { r.n[r.np] = strdup(n); r.v[r.np] = strdup(v); r.np++; }
  }
  infos.array = arr; infos.count = np; infos.allocated = np;
  int before = hwloc_cpukinds_get_nr(T, 0);
  char sb[200]; hwloc_bitmap_list_snprintf(sb, sizeof sb, cs);
  errno = 0;
  int rc = hwloc_cpukinds_register(T, null_set ? NULL : cs, forced, null_infos ? NULL : &infos, flags);
  hv_desc("  register({%s}%s, forced=%d, %u infos, flags=%#lx) -> %d errno %d\n", sb, null_set ? " as NULL" : "", forced, np, flags, rc, rc ? errno : 0);
  int valid = !flags && !hwloc_bitmap_iszero(cs) && !null_set;
  if (!valid) {
    if (rc != -1 || errno != EINVAL) hv_viol("register.invalid_accepted", "register({%s}, flags %#lx) returned %d errno %d, expected EINVAL", sb, flags, rc, errno);
    else if (hwloc_cpukinds_get_nr(T, 0) != before) hv_viol("register.invalid_changed", "a rejected register changed the number of kinds");
    hv_stat("register.rejected", 1);
    for (unsigned p = 0; p < r.np; p++) { free(r.n[p]); free(r.v[p]); }
  } else if (rc != 0) { hv_viol("register.rejected_valid", "register({%s}) failed with errno %d", sb, errno); for (unsigned p = 0; p < r.np; p++) { free(r.n[p]); free(r.v[p]); } }
  else if (NREG >= MAXREG || hwloc_bitmap_last(cs) >= UNIV) hv_fail("model capacity");
  else { int id; hwloc_bitmap_foreach_begin(id, cs) { COV[id] |= 1ULL << NREG; LASTREG[id] = (int)NREG; } hwloc_bitmap_foreach_end(); REG[NREG++] = r; hv_stat("register.ok", 1); }
  hwloc_bitmap_free(cs);
}

/* HWLOC_CPUKINDS_RANKING selects the ranking strategy each time the kinds are ranked: the partition, info and "all -1 or 0..nr-1 in
 * kind order" clauses hold under every strategy, the forced-efficiency clause only where forced efficiencies are consulted first */
static const char *RANKINGS[] = { "default", "none", "coretype+frequency", "coretype+frequency_strict", "coretype", "frequency", "frequency_max", "frequency_base", "forced_efficiency", "no_forced_efficiency", "not-a-strategy" };

void hv_case(uint64_t index)
{
  hv_rng_seed(&R, HV.seed, "c15", index);
  { struct hv_rng er; hv_rng_seed(&er, HV.seed, "c15env", index);
    HWLIKE = hv_chance(&er, 1, 3) ? 1 + (int)hv_below(&er, 2) : 0; if (HWLIKE) { hv_stat("hwlike_histories", 1); hv_desc("hardware-like infos (%d)\n", HWLIKE); }
    if (hv_chance(&er, 1, 2)) { unsetenv("HWLOC_CPUKINDS_RANKING"); RANK_USES_FORCED = 1; hv_stat("ranking_env.unset", 1); }
    else { unsigned k = (unsigned)hv_below(&er, sizeof RANKINGS / sizeof *RANKINGS); setenv("HWLOC_CPUKINDS_RANKING", RANKINGS[k], 1);
      RANK_USES_FORCED = k == 0 || k == 8 || k == 10; hv_desc("HWLOC_CPUKINDS_RANKING=%s\n", RANKINGS[k]);
      char nm[64]; snprintf(nm, sizeof nm, "ranking_env.%s", RANKINGS[k]); hv_stat(nm, 1); } }
  struct tg_config c; tg_config_random(&R, &c, 0);
  c.flags &= (HWLOC_TOPOLOGY_FLAG_INCLUDE_DISALLOWED | HWLOC_TOPOLOGY_FLAG_NO_DISTANCES | HWLOC_TOPOLOGY_FLAG_NO_CPUKINDS | HWLOC_TOPOLOGY_FLAG_NO_MEMATTRS);
  struct hv_str cs; hv_str_init(&cs); tg_config_str(&c, &cs);
  int stage;
  hv_ctxkey("source_load");
  if (index % 4 == 1 && ncorpus) { const char *path = index % 16 == 1 ? fakekinds : corpus[(index / 4) % ncorpus]; hv_desc("source: xml %s config %s\n", path, cs.s); T = tl_load_xmlfile(path, &c, &stage); }
  else { struct tg_synth_opts o; tg_synth_opts_default(&o); o.max_pus = 40; struct hv_str d; hv_str_init(&d); tg_synth_random(&R, &o, &d); hv_desc("source: synthetic \"%s\" config %s\n", d.s, cs.s); T = tl_load_synthetic(d.s, &c, &stage); hv_str_free(&d); }
  hv_str_free(&cs);
  if (!T) { hv_stat("source_load_failed", 1); return; }
  if (hwloc_bitmap_last(hwloc_topology_get_complete_cpuset(T)) >= 256) { hv_stat("skipped_beyond_universe", 1); hwloc_topology_destroy(T); return; }
  hv_ctxkey("seed_model");
  model_seed();
  unsigned nops = 4 + (unsigned)hv_below(&R, 12), carriers = 0, restricts = 0, regs = 0; uint64_t seq = 5;
  check_model("load");
  for (unsigned k = 0; k < nops && !hv_viol_count() && NREG < MAXREG - 1; k++) {
    unsigned op = (unsigned)hv_below(&R, 20);
    const char *what;
    if (op < 11) { what = "register"; hv_ctxkey("op:register"); unsigned b = NREG; op_register(); regs += NREG - b; }
    else if (op < 15) { what = "restrict"; struct hx h; hx_init(&h, T, &R); h.allow_bad_args = 0; struct hx_result res; hx_random_op(&h, 1u << HX_RESTRICT, &res); hv_desc("  %s -> %d\n", res.desc, res.rc); if (res.rc == 0) { model_restrict(); restricts++; } }
    else if (op < 17) { what = "dup"; hv_ctxkey("carrier:dup"); hwloc_topology_t t2 = NULL; if (hwloc_topology_dup(&t2, T) == 0) { hwloc_topology_destroy(T); T = t2; carriers++; hv_desc("  carrier: dup\n"); } else hv_viol("carrier.dup_failed", "hwloc_topology_dup failed"); }
    else if (op < 19) { what = "xml"; hv_ctxkey("carrier:xml"); char *buf = NULL; int len = 0;
      if (tv_has_empty_normal_object(T)) { hv_viol("carrier.xml.empty_objects_left_by_restrict", "the topology holds a normal object with neither a PU nor a NUMA node below it (left by a restrict by nodeset); a reload drops it, the XML carrier cannot preserve what refers to it"); break; }
      
      if (hwloc_topology_export_xmlbuffer(T, &buf, &len, 0) == 0) {
        hwloc_topology_t t2; hwloc_topology_init(&t2); hwloc_topology_set_all_types_filter(t2, HWLOC_TYPE_FILTER_KEEP_ALL);
        hwloc_topology_set_flags(t2, hwloc_topology_get_flags(T) & ~(unsigned long)HWLOC_TOPOLOGY_FLAG_NO_CPUKINDS);
        if (hwloc_topology_set_xmlbuffer(t2, buf, len) == 0 && hwloc_topology_load(t2) == 0) { hwloc_free_xmlbuffer(T, buf); hwloc_topology_destroy(T); T = t2; carriers++; hv_desc("  carrier: xml round trip\n"); }
        else { hwloc_free_xmlbuffer(T, buf); hwloc_topology_destroy(t2); hv_viol("carrier.xml_failed", "own XML export could not be reloaded"); }
      } }
    else { what = "refresh"; hv_ctxkey("op:refresh"); hwloc_topology_refresh(T); }
    seq = hv_hash_str(what, seq);
    if (!hv_viol_count()) check_model(what);
  }
  int nr = T ? hwloc_cpukinds_get_nr(T, 0) : 0;
  if (!hv_viol_count() && nr >= 2 && regs >= 2 && (carriers + restricts)) { hv_stat("nontrivial_histories", 1); hv_distinct(1, hv_hash_u64((uint64_t)nr, seq)); }
  if (index < 6) hv_sample("%s", hv_desc_get());
  hv_ctxkey("destroy");
  model_reset();
  hwloc_topology_destroy(T); T = NULL;
  hv_ctxkey("%s", "");
  hv_leak_check();
}
