/* C19: shared-memory topologies: length suffices, adopted copy is equal and read-only. */
#define _GNU_SOURCE
#include "hv.h"
#include "topo.h"
#include "hist.h"
#include <hwloc/shmem.h>
#include <hwloc/diff.h>
#include <sys/mman.h>
#include <sys/wait.h>
#include <unistd.h>
#include <fcntl.h>

const char *hv_property = "C19";
unsigned hv_batch = 4;
unsigned hv_cpu_limit_s = 120;
static struct hv_rng R;
static const char **corpus; static unsigned ncorpus;

void hv_setup(void) { ncorpus = tl_corpus(&corpus); }

#define GUARD (64UL << 20)
#define PAGE 4096UL

static int range_mapped(void *addr, size_t len)
{
  FILE *f = fopen("/proc/self/maps", "r"); if (!f) return -1;
  char line[512]; int hit = 0; uintptr_t a = (uintptr_t)addr, b = a + len;
  while (fgets(line, sizeof line, f)) { unsigned long s, e; char perms[8]; if (sscanf(line, "%lx-%lx %7s", &s, &e, perms) == 3 && s < b && e > a && strcmp(perms, "---p")) hit = 1; }
  fclose(f); return hit;
}

/* [base, base+len) left free, followed by a PROT_NONE guard: anything written past len faults.
 * The addresses are far away from where the kernel places ordinary mappings (top-down from 0x7f...), so that neither the sanitizer
 * allocator nor libc ever takes the hole between our reservation and hwloc's own mmap(hint). */
#if defined(__SANITIZE_ADDRESS__)
void __asan_unpoison_memory_region(void const volatile *addr, size_t size);
#endif
static uintptr_t next_base = 0x200000000000UL;
static void *reserve(size_t len, void **whole, size_t *whole_len)
{
  for (int tries = 0; tries < 16; tries++) {
    uintptr_t base = next_base; next_base += ((len + GUARD + (1UL << 30)) & ~(PAGE - 1));
    void *g = mmap((void *)(base + len), GUARD, PROT_NONE, MAP_PRIVATE | MAP_ANONYMOUS | MAP_NORESERVE | MAP_FIXED_NOREPLACE, -1, 0);
    if (g == MAP_FAILED) continue;
    if ((uintptr_t)g != base + len) { munmap(g, GUARD); continue; }
#if defined(__SANITIZE_ADDRESS__)
    __asan_unpoison_memory_region((void *)base, len);
#endif
    *whole = (void *)base; *whole_len = len + GUARD;
    return (void *)base;
  }
  hv_fail("cannot reserve an address range: %s", strerror(errno));
}

static int xml_of(hwloc_topology_t t, struct hv_str *out)
{
  char *b = NULL; int l = 0; if (hwloc_topology_export_xmlbuffer(t, &b, &l, 0) != 0) return -1;
  hv_str_addn(out, b, (size_t)l); hwloc_free_xmlbuffer(t, b); return 0;
}

/* run fn in a sub-fork: 0 = returned, otherwise the wait status */
static int in_subfork(void (*fn)(hwloc_topology_t), hwloc_topology_t t, int *result)
{
  int pfd[2]; if (pipe(pfd)) return -1;
  fflush(NULL);
  pid_t p = fork();
  if (p == 0) { close(pfd[0]); int dn = open("/dev/null", O_WRONLY); if (dn >= 0) dup2(dn, 2); fn(t); int r = errno; if (write(pfd[1], &r, sizeof r) < 0) {} _exit(0); }
  close(pfd[1]); int st = 0; *result = -1; if (read(pfd[0], result, sizeof *result) < 0) {} close(pfd[0]); waitpid(p, &st, 0);
  return WIFEXITED(st) && WEXITSTATUS(st) == 0 ? 0 : st ? st : -1;
}
static int sub_rc;
static void f_add_info(hwloc_topology_t t) { sub_rc = hwloc_obj_add_info(hwloc_get_root_obj(t), "Adopted", "1"); errno = sub_rc ? errno : 0; }
static void f_set_subtype(hwloc_topology_t t) { sub_rc = hwloc_obj_set_subtype(t, hwloc_get_root_obj(t), "Adopted"); errno = sub_rc ? errno : 0; }

static void refused(const char *what, int failed, int err, struct hv_str *before, hwloc_topology_t a)
{
  char key[96];
  if (!failed) { snprintf(key, sizeof key, "adopted.%s.accepted", what); hv_viol(key, "%s succeeded on an adopted (read-only) topology", what); return; }
  if (err == EPERM) hv_stat("adopted.refused_eperm", 1); else hv_stat("adopted.refused_other_errno", 1);
  struct hv_str after; hv_str_init(&after); canon_dump(a, CANON_EQUIV, &after);
  const char *d = canon_diff(before, &after);
  if (d) { snprintf(key, sizeof key, "adopted.%s.changed", what); hv_viol(key, "the refused %s changed the adopted topology: %s", what, d); }
  hv_str_free(&after);
}

void hv_case(uint64_t index)
{
  hv_rng_seed(&R, HV.seed, "c19", index);
  struct tg_config c; tg_config_random(&R, &c, 0);
  c.flags &= (HWLOC_TOPOLOGY_FLAG_INCLUDE_DISALLOWED | HWLOC_TOPOLOGY_FLAG_NO_DISTANCES | HWLOC_TOPOLOGY_FLAG_NO_CPUKINDS | HWLOC_TOPOLOGY_FLAG_NO_MEMATTRS | HWLOC_TOPOLOGY_FLAG_IMPORT_SUPPORT);
  if (hv_chance(&R, 2, 3)) c.flags &= (HWLOC_TOPOLOGY_FLAG_INCLUDE_DISALLOWED | HWLOC_TOPOLOGY_FLAG_IMPORT_SUPPORT);
  if (hv_chance(&R, 1, 2)) c.flags |= HWLOC_TOPOLOGY_FLAG_INCLUDE_DISALLOWED;
  if (hv_chance(&R, 1, 2)) { c.filter[HWLOC_OBJ_MISC] = HWLOC_TYPE_FILTER_KEEP_ALL; c.filter[HWLOC_OBJ_BRIDGE] = c.filter[HWLOC_OBJ_PCI_DEVICE] = c.filter[HWLOC_OBJ_OS_DEVICE] = HWLOC_TYPE_FILTER_KEEP_ALL; }
  struct hv_str cs; hv_str_init(&cs); tg_config_str(&c, &cs);
  hwloc_topology_t T; int stage;
  hv_ctxkey("source_load");
  if (index % 3 == 1 && ncorpus) { const char *path = corpus[(index / 3) % ncorpus]; hv_desc("source: xml %s config %s\n", path, cs.s); T = tl_load_xmlfile(path, &c, &stage); }
  else { struct tg_synth_opts o; tg_synth_opts_default(&o); o.max_pus = 96; struct hv_str d; hv_str_init(&d); tg_synth_random(&R, &o, &d); hv_desc("source: synthetic \"%s\" config %s\n", d.s, cs.s); T = tl_load_synthetic(d.s, &c, &stage); hv_str_free(&d); }
  hv_str_free(&cs);
  if (!T) { hv_stat("source_load_failed", 1); return; }
  if (hwloc_bitmap_last(hwloc_topology_get_complete_cpuset(T)) >= 1700 || hwloc_bitmap_last(hwloc_topology_get_complete_nodeset(T)) >= 1700) { hv_stat("skipped_beyond_window", 1); hwloc_topology_destroy(T); return; }
  { struct hx h; hx_init(&h, T, &R); h.allow_bad_args = 0; h.allow_grouping = 0; h.no_fragile_groups = 1;
    unsigned pre = (unsigned)hv_below(&R, 10);
    for (unsigned k = 0; k < pre; k++) { struct hx_result res; hx_random_op(&h, HX_ANNOTATE | (1u << HX_RESTRICT), &res); hv_desc("  pre: %s -> %d\n", res.desc, res.rc); } }
  /* in a third of the cases nothing consults the source between its last modification and get_length/write, so that write() itself has to
   * bring the distances / memattr caches up to date before copying them */
  int blind = hv_chance(&R, 1, 3);
  if (blind) hv_stat("writes_without_prior_query", 1);
  if (!blind && wf_check(T, "source.") != 0) { hwloc_topology_destroy(T); return; }
  unsigned feat = blind ? 0 : hx_features(T);
  int disallowed_flag = (hwloc_topology_get_flags(T) & HWLOC_TOPOLOGY_FLAG_INCLUDE_DISALLOWED) != 0;

  /* 1. length */
  hv_ctxkey("get_length");
  size_t len = 0; errno = 0;
  if (hwloc_shmem_topology_get_length(T, &len, 1UL << hv_below(&R, 6)) != -1 || errno != EINVAL) hv_viol("get_length.flags", "non-zero flags accepted by get_length");
  if (hwloc_shmem_topology_get_length(T, &len, 0) != 0 || !len) { hv_viol("get_length.failed", "get_length failed, errno %d", errno); hwloc_topology_destroy(T); return; }
  if (len % PAGE) hv_viol("get_length.not_page_multiple", "length %zu is not a multiple of the page size", len);
  hv_max("max_length", len);
  struct hv_str tcanon, txml; hv_str_init(&tcanon); hv_str_init(&txml);
  if (!blind) { canon_dump(T, CANON_EQUIV, &tcanon); xml_of(T, &txml); }

  /* 2. write at a page-aligned offset, guard region right after the mapping */
  uint64_t off = PAGE * hv_below(&R, 9); if (hv_chance(&R, 1, 2)) off = 0;
  int fd = memfd_create("hv-c19", 0); if (fd < 0) hv_fail("memfd_create: %s", strerror(errno));
  if (off) { char z[64] = "not a header"; if (pwrite(fd, z, sizeof z, 0) < 0) {} }
  /* what the file already holds is part of the input: empty, a short header, exactly the bytes in front of the offset (e.g. another
   * topology stored before this one), more than `length` but less than offset+length bytes, already large enough, larger */
  { uint64_t sizes[] = { 0, 64, off, off + len / 2, len, off + len - 1, off + len, off + len + PAGE, len + PAGE }; unsigned k = (unsigned)hv_below(&R, sizeof sizes / sizeof *sizes);
    if (hv_chance(&R, 2, 3)) { if (ftruncate(fd, (off_t)sizes[k]) != 0) hv_fail("ftruncate: %s", strerror(errno)); hv_desc("  file pre-sized to %llu bytes\n", (unsigned long long)sizes[k]);
      hv_stat(sizes[k] >= len && sizes[k] < off + len ? "writes.file_holds_length_but_not_offset_plus_length" : sizes[k] >= off + len ? "writes.file_already_large_enough" : "writes.file_shorter_than_length", 1); } }
  void *whole; size_t whole_len; void *base = reserve(len, &whole, &whole_len);
  hv_desc("  length %zu offset %llu address %p\n", len, (unsigned long long)off, base);
  /* cross-process adopter (1/3): a process forked BEFORE the write. Its heap holds nothing that write() allocates afterwards, so every
   * pointer of the stored topology that does not point into the mapping dangles there, as it would in an unrelated process */
  int xp = hv_chance(&R, 1, 3), xgo[2] = { -1, -1 }, xres[2] = { -1, -1 }; pid_t xpid = -1;
  if (xp && pipe(xgo) == 0 && pipe(xres) == 0) {
    fflush(NULL);
    xpid = fork();
    if (xpid == 0) {
      close(xgo[1]); close(xres[0]); char go = 0;
      if (read(xgo[0], &go, 1) != 1 || go != 'g') _exit(0);
      hv_ctxkey("cross_process_adopt");
      hwloc_topology_t X = NULL; uint64_t out[3] = { 0, 0, 0 };
      if (hwloc_shmem_topology_adopt(&X, fd, off, base, len, 0) != 0 || !X) { out[0] = 1; out[1] = (uint64_t)errno; }
      else { struct hv_str cx, xx; hv_str_init(&cx); hv_str_init(&xx); canon_dump(X, CANON_EQUIV, &cx); xml_of(X, &xx);
        out[1] = hv_hash_bytes(cx.s, cx.len, 5); out[2] = hv_hash_bytes(xx.s, xx.len, 6);
        /* names reachable only through pointers: distances, memory attributes */
        unsigned nr = 0; hwloc_distances_get(X, &nr, NULL, 0, 0); struct hwloc_distances_s **dd = calloc(nr + 1, sizeof *dd); unsigned n2 = nr; hwloc_distances_get(X, &n2, dd, 0, 0);
        for (unsigned i = 0; i < n2 && i < nr; i++) { const char *nm = hwloc_distances_get_name(X, dd[i]); if (nm) out[2] = hv_hash_str(nm, out[2]); hwloc_distances_release(X, dd[i]); }
        free(dd); hv_str_free(&cx); hv_str_free(&xx); hwloc_topology_destroy(X); }
      if (write(xres[1], out, sizeof out) < 0) {}
      _exit(0);
    }
    close(xgo[0]); close(xres[1]);
  } else xp = 0;
  hv_ctxkey("write");
  errno = 0;
  if (hwloc_shmem_topology_write(T, fd, off, base, len, 1UL << hv_below(&R, 6)) != -1 || errno != EINVAL) hv_viol("write.flags", "non-zero flags accepted by write");
  errno = 0;
  int wr = hwloc_shmem_topology_write(T, fd, off, base, len, 0);
  hv_stat("writes", 1);
  if (wr != 0) { hv_viol("write.failed", "write with the length of get_length failed, errno %d (%s)", errno, strerror(errno)); goto out; }
  if (range_mapped(base, len) == 1) hv_viol("write.left_mapped", "the range is still mapped after write returned");
  { struct stat st; if (fstat(fd, &st) == 0 && (uint64_t)st.st_size < off + len) hv_viol("write.file_short", "file is %lld bytes, offset+length is %llu", (long long)st.st_size, (unsigned long long)(off + len)); }
  if (blind) { hv_ctxkey("source_after_blind_write"); if (wf_check(T, "source.") != 0) goto out; feat = hx_features(T); canon_dump(T, CANON_EQUIV, &tcanon); xml_of(T, &txml); }
  /* the source is not changed by being written */
  if (!blind) { struct hv_str again; hv_str_init(&again); canon_dump(T, CANON_EQUIV, &again); const char *d = canon_diff(&tcanon, &again); if (d) hv_viol("write.changed_source", "write changed the source topology: %s", d); hv_str_free(&again); }

  /* 3. mismatching arguments */
  hv_ctxkey("adopt_invalid");
  { hwloc_topology_t X = NULL; errno = 0;
    if (hwloc_shmem_topology_adopt(&X, fd, off, (char *)base + PAGE, len, 0) != -1 || errno != EINVAL) hv_viol("adopt.wrong_address", "adopt at another address returned errno %d, expected EINVAL", errno);
    errno = 0; if (hwloc_shmem_topology_adopt(&X, fd, off, base, len + PAGE, 0) != -1 || errno != EINVAL) hv_viol("adopt.wrong_length", "adopt with another length returned errno %d, expected EINVAL", errno);
    if (len > PAGE) { errno = 0; if (hwloc_shmem_topology_adopt(&X, fd, off + PAGE, base, len, 0) != -1 || errno != EINVAL) hv_viol("adopt.wrong_offset", "adopt at another offset returned errno %d, expected EINVAL", errno); }
    errno = 0; if (hwloc_shmem_topology_adopt(&X, fd, off, base, len, 1UL << hv_below(&R, 6)) != -1 || errno != EINVAL) hv_viol("adopt.flags", "non-zero flags accepted by adopt");
    /* incompatible ABI / header version: a corrupted copy of the file */
    if (hv_chance(&R, 1, 2)) {
      int fd2 = memfd_create("hv-c19-bad", 0); char *tmp = malloc(len);
      if (fd2 >= 0 && tmp && pread(fd, tmp, len, (off_t)off) == (ssize_t)len) {
        int which = (int)hv_below(&R, 2);
        if (which == 0) tmp[24] ^= 0x5a;          /* topology_abi, first field after the 24-byte header */
        else tmp[0] ^= 0x02;                      /* header_version */
        if (pwrite(fd2, tmp, len, 0) == (ssize_t)len) { errno = 0; X = NULL;
          if (hwloc_shmem_topology_adopt(&X, fd2, 0, base, len, 0) != -1 || errno != EINVAL) hv_viol(which ? "adopt.bad_header_version" : "adopt.bad_abi", "adopt of a file with a corrupted %s returned %s errno %d, expected EINVAL", which ? "header version" : "topology ABI", X ? "a topology" : "-1", errno);
          if (range_mapped(base, len) == 1) hv_viol("adopt.failed_left_mapped", "a failed adopt left the range mapped");
          hv_stat("adopt.corrupted_files", 1); }
      }
      free(tmp); if (fd2 >= 0) close(fd2);
    }
  }
  if (hv_viol_count()) goto out;

  /* 4. adopt */
  hv_ctxkey("adopt");
  hwloc_topology_t A = NULL; errno = 0;
  if (hwloc_shmem_topology_adopt(&A, fd, off, base, len, 0) != 0 || !A) { hv_viol("adopt.failed", "adopt with the arguments of write failed, errno %d (%s)", errno, strerror(errno)); goto out; }
  hv_stat("adopts", 1);
  if (xp && xpid > 0) {
    uint64_t got[3] = { 0, 0, 0 }; int st = 0; char go = 'g';
    if (write(xgo[1], &go, 1) < 0) {}
    ssize_t rn = read(xres[0], got, sizeof got); waitpid(xpid, &st, 0); xpid = -1; close(xgo[1]); close(xres[0]); xgo[1] = xres[0] = -1;
    hv_stat("adopts.cross_process", 1);
    if (rn != (ssize_t)sizeof got || !WIFEXITED(st) || WEXITSTATUS(st)) hv_viol("adopt.cross_process.crashed", "a process forked before write() died while adopting and reading the stored topology (wait status %#x, %s)", st, WIFSIGNALED(st) ? strsignal(WTERMSIG(st)) : "sanitizer report or abort");
    else if (got[0]) hv_viol("adopt.cross_process.failed", "adopt in a process forked before write() failed with errno %llu", (unsigned long long)got[1]);
    else { struct hv_str cx, xx; hv_str_init(&cx); hv_str_init(&xx); canon_dump(A, CANON_EQUIV, &cx); xml_of(A, &xx);
      uint64_t h1 = hv_hash_bytes(cx.s, cx.len, 5), h2 = hv_hash_bytes(xx.s, xx.len, 6);
      unsigned nr = 0; hwloc_distances_get(A, &nr, NULL, 0, 0); struct hwloc_distances_s **dd = calloc(nr + 1, sizeof *dd); unsigned n2 = nr; hwloc_distances_get(A, &n2, dd, 0, 0);
      for (unsigned i = 0; i < n2 && i < nr; i++) { const char *nm = hwloc_distances_get_name(A, dd[i]); if (nm) h2 = hv_hash_str(nm, h2); hwloc_distances_release(A, dd[i]); }
      free(dd); hv_str_free(&cx); hv_str_free(&xx);
      if (h1 != got[1] || h2 != got[2]) hv_viol("adopt.cross_process.differs", "the topology adopted by a process forked before write() differs from the one adopted by the writer (%s)", h1 != got[1] ? "canonical dump" : "XML export or distances names"); }
  }
  { hwloc_topology_t X = NULL; errno = 0; hv_ctxkey("adopt_busy");
    if (hwloc_shmem_topology_adopt(&X, fd, off, base, len, 0) != -1 || errno != EBUSY) hv_viol("adopt.busy", "adopt over an occupied address range returned %s errno %d, expected EBUSY", X ? "a topology" : "-1", errno); }
  hv_ctxkey("adopted:wellformed");
  if (wf_check(A, "adopted.") == 0) wf_builtin(A, "adopted");
  hv_ctxkey("adopted:canon");
  struct hv_str acanon, axml; hv_str_init(&acanon); hv_str_init(&axml);
  canon_dump(A, CANON_EQUIV, &acanon);
  { const char *d = canon_diff(&tcanon, &acanon); if (d) hv_viol("adopted.differs", "the adopted topology differs from the original: %s", d); }
  hv_ctxkey("adopted:xml_export");
  if (xml_of(A, &axml) != 0) hv_viol("adopted.xml_export_failed", "XML export of the adopted topology failed");
  else if (axml.len != txml.len || memcmp(axml.s, txml.s, axml.len)) { size_t k = 0; while (k < axml.len && k < txml.len && axml.s[k] == txml.s[k]) k++; size_t from = k > 80 ? k - 80 : 0; hv_viol("adopted.xml_differs", "XML exports differ at byte %zu: <%.160s> vs <%.160s>", k, txml.s + from, axml.s + from); }
  hv_ctxkey("adopted:synthetic_export");
  { char syn[4096]; hwloc_topology_export_synthetic(A, syn, sizeof syn, 0); }
  hv_ctxkey("adopted:dup");
  { hwloc_topology_t D = NULL; if (hwloc_topology_dup(&D, A) == 0) { struct hv_str dc; hv_str_init(&dc); canon_dump(D, CANON_EQUIV, &dc); const char *d = canon_diff(&acanon, &dc); if (d) hv_viol("adopted.dup_differs", "dup of the adopted topology differs: %s", d); hv_str_free(&dc); hwloc_topology_destroy(D); } else hv_viol("adopted.dup_failed", "dup of the adopted topology failed"); }

  /* 5. structure-modifying calls are refused and leave everything untouched */
  if (!hv_viol_count()) {
    hwloc_bitmap_t half = hwloc_bitmap_dup(hwloc_topology_get_topology_cpuset(A)); if (hwloc_bitmap_weight(half) > 1) hwloc_bitmap_clr(half, (unsigned)hwloc_bitmap_last(half));
    hv_ctxkey("adopted:restrict"); errno = 0; { int rc = hwloc_topology_restrict(A, half, 0); refused("restrict", rc != 0, errno, &acanon, A); }
    hv_ctxkey("adopted:insert_misc"); errno = 0; { hwloc_obj_t m = hwloc_topology_insert_misc_object(A, hwloc_get_root_obj(A), "adopted"); refused("insert_misc", m == NULL, errno, &acanon, A); }
    hv_ctxkey("adopted:alloc_group"); errno = 0; { hwloc_obj_t g = hwloc_topology_alloc_group_object(A); refused("alloc_group", g == NULL, errno, &acanon, A);
      if (g) { hwloc_bitmap_t s = hwloc_bitmap_dup(half); g->cpuset = s; hv_ctxkey("adopted:insert_group"); errno = 0; hwloc_obj_t r = hwloc_topology_insert_group_object(A, g); refused("insert_group", r == NULL, errno, &acanon, A); } }
    hv_ctxkey("adopted:distances_add"); errno = 0; { hwloc_distances_add_handle_t hd = hwloc_distances_add_create(A, "x", HWLOC_DISTANCES_KIND_FROM_USER | HWLOC_DISTANCES_KIND_VALUE_LATENCY, 0); refused("distances_add_create", hd == NULL, errno, &acanon, A); }
    hv_ctxkey("adopted:distances_remove"); errno = 0; { int rc = hwloc_distances_remove(A); refused("distances_remove", rc != 0, errno, &acanon, A); }
    hv_ctxkey("adopted:distances_remove_by_depth"); errno = 0; { int rc = hwloc_distances_remove_by_depth(A, hwloc_topology_get_depth(A) - 1); refused("distances_remove_by_depth", rc != 0, errno, &acanon, A); }
    { unsigned nr = 1; struct hwloc_distances_s *d = NULL; if (hwloc_distances_get(A, &nr, &d, 0, 0) == 0 && nr && d) { hv_ctxkey("adopted:distances_release_remove"); errno = 0; int rc = hwloc_distances_release_remove(A, d); int e = errno; if (rc != 0) hwloc_distances_release(A, d); refused("distances_release_remove", rc != 0, e, &acanon, A); hv_stat("adopted.release_remove_tried", 1); } }
    { hv_ctxkey("adopted:diff_apply"); hwloc_topology_diff_t df = calloc(1, sizeof *df); df->obj_attr.type = HWLOC_TOPOLOGY_DIFF_OBJ_ATTR; df->obj_attr.obj_depth = HWLOC_TYPE_DEPTH_NUMANODE; df->obj_attr.obj_index = 0;
      hwloc_obj_t n0 = hwloc_get_obj_by_type(A, HWLOC_OBJ_NUMANODE, 0); df->obj_attr.diff.uint64.type = HWLOC_TOPOLOGY_DIFF_OBJ_ATTR_SIZE; df->obj_attr.diff.uint64.oldvalue = n0->attr->numanode.local_memory; df->obj_attr.diff.uint64.newvalue = n0->attr->numanode.local_memory + 1;
      errno = 0; int rc = hwloc_topology_diff_apply(A, df, 0); refused("diff_apply", rc != 0, errno, &acanon, A); hwloc_topology_diff_destroy(df); }
    hv_ctxkey("adopted:memattr_register"); errno = 0; { hwloc_memattr_id_t id; int rc = hwloc_memattr_register(A, "adoptedattr", HWLOC_MEMATTR_FLAG_HIGHER_FIRST, &id); refused("memattr_register", rc != 0, errno, &acanon, A); }
    hv_ctxkey("adopted:memattr_set_value"); errno = 0; { struct hwloc_location loc; loc.type = HWLOC_LOCATION_TYPE_CPUSET; loc.location.cpuset = half; hwloc_memattr_id_t id;
      if (hwloc_memattr_get_by_name(A, "Bandwidth", &id) == 0) { int rc = hwloc_memattr_set_value(A, id, hwloc_get_obj_by_type(A, HWLOC_OBJ_NUMANODE, 0), &loc, 0, 77); refused("memattr_set_value", rc != 0, errno, &acanon, A); } }
    hv_ctxkey("adopted:cpukinds_register"); errno = 0; { struct hwloc_infos_s i = { NULL, 0, 0 }; int rc = hwloc_cpukinds_register(A, half, 1, &i, 0); refused("cpukinds_register", rc != 0, errno, &acanon, A); }
    hv_ctxkey("adopted:refresh"); { int rc = hwloc_topology_refresh(A); struct hv_str x; hv_str_init(&x); canon_dump(A, CANON_EQUIV, &x); const char *d = canon_diff(&acanon, &x); if (d) hv_viol("adopted.refresh.changed", "refresh (returned %d) changed the adopted topology: %s", rc, d); hv_str_free(&x); }
    hwloc_bitmap_free(half);
    hv_stat("adopted.modifying_batteries", 1);
  }
  /* other modifying calls: recorded only, each in a sub-fork */
  if (!hv_viol_count() && hv_chance(&R, 1, 4)) {
    static void (*fns[])(hwloc_topology_t) = { f_add_info, f_set_subtype };
    static const char *names[] = { "add_info", "set_subtype" };
    for (unsigned k = 0; k < 2; k++) { int err = 0; hv_ctxkey("adopted:recorded_only:%s", names[k]); int st = in_subfork(fns[k], A, &err); char sn[72]; snprintf(sn, sizeof sn, "recorded_only.%s.%s", names[k], st ? "crashed" : err ? "refused" : "performed"); hv_stat(sn, 1); }
  }
  /* 6. allow() is the documented exception */
  if (!hv_viol_count() && disallowed_flag) {
    hv_ctxkey("adopted:allow_all"); errno = 0;
    if (hwloc_topology_allow(A, NULL, NULL, HWLOC_ALLOW_FLAG_ALL) != 0) hv_viol("adopted.allow_all_failed", "hwloc_topology_allow(ALL) failed on an adopted INCLUDE_DISALLOWED topology, errno %d", errno);
    else if (!hwloc_bitmap_isequal(hwloc_topology_get_allowed_cpuset(A), hwloc_topology_get_topology_cpuset(A)) || !hwloc_bitmap_isequal(hwloc_topology_get_allowed_nodeset(A), hwloc_topology_get_topology_nodeset(A))) hv_viol("adopted.allow_all_result", "allowed sets differ from the topology sets after allow(ALL)");
    hv_ctxkey("adopted:allow_custom");
    hwloc_bitmap_t one = hwloc_bitmap_dup(hwloc_topology_get_topology_cpuset(A)); hwloc_bitmap_singlify(one); errno = 0;
    if (hwloc_topology_allow(A, one, NULL, HWLOC_ALLOW_FLAG_CUSTOM) != 0) hv_viol("adopted.allow_custom_failed", "hwloc_topology_allow(CUSTOM) failed on an adopted topology, errno %d", errno);
    else if (!hwloc_bitmap_isequal(hwloc_topology_get_allowed_cpuset(A), one)) hv_viol("adopted.allow_custom_result", "allowed cpuset is not the custom set");
    hwloc_bitmap_free(one);
    hv_ctxkey("adopted:after_allow"); if (!hv_viol_count() && wf_check(A, "adopted_after_allow.") == 0) { struct hv_str x; hv_str_init(&x); canon_dump(A, CANON_EQUIV, &x); hv_str_free(&x); }
    hv_stat("adopted.allow_tested", 1);
  } else if (!hv_viol_count()) {
    hv_ctxkey("adopted:allow_without_flag"); errno = 0;
    if (hwloc_topology_allow(A, NULL, NULL, HWLOC_ALLOW_FLAG_ALL) != -1 || errno != EINVAL) hv_viol("adopted.allow_without_flag", "allow() without INCLUDE_DISALLOWED did not fail with EINVAL");
  }
  /* the original is not affected by what happened to the adopted one */
  { struct hv_str again; hv_str_init(&again); canon_dump(T, CANON_EQUIV, &again); const char *d = canon_diff(&tcanon, &again); if (d) hv_viol("adopted.changed_source", "calls on the adopted topology changed the source: %s", d); hv_str_free(&again); }
  /* 7. destroy unmaps */
  hv_ctxkey("adopted:destroy");
  hwloc_topology_destroy(A);
  if (range_mapped(base, len) == 1) hv_viol("destroy.left_mapped", "the range is still mapped after destroying the adopted topology");
  hv_str_free(&acanon); hv_str_free(&axml);
  if (!hv_viol_count() && (hx_popcount(feat & (HXF_DISTANCES | HXF_MEMATTR_VALUES | HXF_CPUKINDS | HXF_INFOS | HXF_SPECIAL_OBJS)) >= 2 || off)) { hv_stat("nontrivial_shares", 1); hv_distinct(1, hv_hash_u64(feat, hv_hash_u64(off, tv_shape_hash(T)))); }
out:
  if (xpid > 0) { char no = 'n'; if (xgo[1] >= 0 && write(xgo[1], &no, 1) < 0) {} int st; waitpid(xpid, &st, 0); }
  if (xgo[1] >= 0) close(xgo[1]); if (xres[0] >= 0) close(xres[0]);
  hv_ctxkey("cleanup");
  munmap(whole, whole_len);
  close(fd);
  hv_str_free(&tcanon); hv_str_free(&txml);
  if (index < 6) hv_sample("%s", hv_desc_get());
  hwloc_topology_destroy(T);
  hv_ctxkey("%s", "");
  hv_leak_check();
}
