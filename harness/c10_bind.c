/* C10: binding calls validate arguments, hand only legal sets to the OS, and round-trip.
 * The executable defines the OS entry points hwloc uses for binding; the statically linked library resolves to them.
 * They log every call and either emulate a kernel (fake mode: foreign topologies forced to IS_THISSYSTEM) or forward to libc. */
#define _GNU_SOURCE
#include "hv.h"
#include "topo.h"
#include "hist.h"
#include <dlfcn.h>
#include <sched.h>
#include <pthread.h>
#include <stdarg.h>
#include <sys/syscall.h>
#include <sys/mman.h>
#include <unistd.h>

const char *hv_property = "C10";
unsigned hv_batch = 6;
unsigned hv_cpu_limit_s = 120;
static struct hv_rng R;
static const char **corpus; static unsigned ncorpus;

/* ------------------------------------------------------------------ OS boundary */
enum { OS_SETAFF, OS_GETAFF, OS_PT_SETAFF, OS_PT_GETAFF, OS_MBIND, OS_SET_MEMPOLICY, OS_GET_MEMPOLICY, OS_MIGRATE_PAGES, OS_MOVE_PAGES, OS_NKINDS };
static const char *const OSN[] = { "sched_setaffinity", "sched_getaffinity", "pthread_setaffinity_np", "pthread_getaffinity_np", "mbind", "set_mempolicy", "get_mempolicy", "migrate_pages", "move_pages" };
struct oscall { int kind; int mode; int has_mask; unsigned nbits; unsigned long mask[64]; };   /* masks up to 4096 bits */
static struct oscall LOG[512]; static unsigned NLOG, NLOG_DROPPED;
static int logging, fake_kernel;
static unsigned fake_ncpus = 64, fake_nnodes = 64;
static unsigned long fake_aff[64]; static int fake_aff_set;
static int fake_mode; static unsigned long fake_nodemask[64];

static void log_call(int kind, int mode, const void *mask, size_t bytes)
{
  if (!logging) return;
  if (NLOG >= 512) { NLOG_DROPPED++; return; }
  struct oscall *c = &LOG[NLOG++]; memset(c, 0, sizeof *c); c->kind = kind; c->mode = mode;
  if (mask) { c->has_mask = 1; if (bytes > sizeof c->mask) bytes = sizeof c->mask; memcpy(c->mask, mask, bytes); c->nbits = (unsigned)bytes * 8; }
}
static void *real(const char *name) { void *p = dlsym(RTLD_NEXT, name); if (!p) { fprintf(stderr, "cannot resolve %s\n", name); _exit(97); } return p; }

int sched_setaffinity(pid_t pid, size_t sz, const cpu_set_t *mask)
{
  log_call(OS_SETAFF, 0, mask, sz);
  if (fake_kernel) { memset(fake_aff, 0, sizeof fake_aff); memcpy(fake_aff, mask, sz < sizeof fake_aff ? sz : sizeof fake_aff); fake_aff_set = 1; return 0; }
  static int (*fn)(pid_t, size_t, const cpu_set_t *); if (!fn) fn = (int (*)(pid_t, size_t, const cpu_set_t *))real("sched_setaffinity");
  return fn(pid, sz, mask);
}
static int fake_get(size_t sz, void *mask)
{
  if (sz * 8 < fake_ncpus) return EINVAL;       /* like a kernel whose nr_cpu_ids is fake_ncpus */
  memset(mask, 0, sz);
  if (fake_aff_set) memcpy(mask, fake_aff, sz < sizeof fake_aff ? sz : sizeof fake_aff);
  else for (unsigned i = 0; i < fake_ncpus; i++) ((unsigned long *)mask)[i / 64] |= 1UL << (i % 64);
  return 0;
}
int sched_getaffinity(pid_t pid, size_t sz, cpu_set_t *mask)
{
  log_call(OS_GETAFF, 0, NULL, 0);
  if (fake_kernel) { int e = fake_get(sz, mask); if (e) { errno = e; return -1; } return 0; }
  static int (*fn)(pid_t, size_t, cpu_set_t *); if (!fn) fn = (int (*)(pid_t, size_t, cpu_set_t *))real("sched_getaffinity");
  return fn(pid, sz, mask);
}
int pthread_setaffinity_np(pthread_t th, size_t sz, const cpu_set_t *mask)
{
  log_call(OS_PT_SETAFF, 0, mask, sz);
  if (fake_kernel) { memset(fake_aff, 0, sizeof fake_aff); memcpy(fake_aff, mask, sz < sizeof fake_aff ? sz : sizeof fake_aff); fake_aff_set = 1; return 0; }
  static int (*fn)(pthread_t, size_t, const cpu_set_t *); if (!fn) fn = (int (*)(pthread_t, size_t, const cpu_set_t *))real("pthread_setaffinity_np");
  return fn(th, sz, mask);
}
int pthread_getaffinity_np(pthread_t th, size_t sz, cpu_set_t *mask)
{
  log_call(OS_PT_GETAFF, 0, NULL, 0);
  if (fake_kernel) return fake_get(sz, mask);
  static int (*fn)(pthread_t, size_t, cpu_set_t *); if (!fn) fn = (int (*)(pthread_t, size_t, cpu_set_t *))real("pthread_getaffinity_np");
  return fn(th, sz, mask);
}
long syscall(long nr, ...)
{
  va_list ap; va_start(ap, nr); long a[6]; for (int i = 0; i < 6; i++) a[i] = va_arg(ap, long); va_end(ap);
  static long (*fn)(long, ...); if (!fn) fn = (long (*)(long, ...))real("syscall");
  int kind = nr == __NR_mbind ? OS_MBIND : nr == __NR_set_mempolicy ? OS_SET_MEMPOLICY : nr == __NR_get_mempolicy ? OS_GET_MEMPOLICY : nr == __NR_migrate_pages ? OS_MIGRATE_PAGES : nr == __NR_move_pages ? OS_MOVE_PAGES : -1;
  if (kind < 0) return fn(nr, a[0], a[1], a[2], a[3], a[4], a[5]);
  if (kind == OS_MBIND) { unsigned long maxnode = (unsigned long)a[4]; log_call(kind, (int)a[2], (void *)a[3], a[3] && maxnode > 1 ? (maxnode - 1 + 7) / 8 : 0); }
  else if (kind == OS_SET_MEMPOLICY) { unsigned long maxnode = (unsigned long)a[2]; log_call(kind, (int)a[0], (void *)a[1], a[1] && maxnode > 1 ? (maxnode - 1 + 7) / 8 : 0); }
  else if (kind == OS_MIGRATE_PAGES) { unsigned long maxnode = (unsigned long)a[1]; log_call(kind, 0, (void *)a[3], a[3] && maxnode > 1 ? (maxnode - 1 + 7) / 8 : 0); }
  else log_call(kind, 0, NULL, 0);
  if (!fake_kernel) return fn(nr, a[0], a[1], a[2], a[3], a[4], a[5]);
  if (kind == OS_SET_MEMPOLICY) { fake_mode = (int)a[0]; memset(fake_nodemask, 0, sizeof fake_nodemask); unsigned long maxnode = (unsigned long)a[2]; if (a[1] && maxnode > 1) { size_t b = (maxnode - 1 + 7) / 8; memcpy(fake_nodemask, (void *)a[1], b < sizeof fake_nodemask ? b : sizeof fake_nodemask); } return 0; }
  if (kind == OS_GET_MEMPOLICY) { unsigned long maxnode = (unsigned long)a[2];
    if (a[1] && maxnode < fake_nnodes) { errno = EINVAL; return -1; }
    if (a[0]) *(int *)a[0] = fake_mode;
    if (a[1] && maxnode > 1) { size_t b = (maxnode - 1 + 7) / 8; memset((void *)a[1], 0, b); memcpy((void *)a[1], fake_nodemask, b < sizeof fake_nodemask ? b : sizeof fake_nodemask); }
    return 0; }
  if (kind == OS_MOVE_PAGES) { unsigned long count = (unsigned long)a[1]; int *status = (int *)a[4]; if (status) for (unsigned long i = 0; i < count; i++) status[i] = 0; return 0; }
  return 0;   /* mbind, migrate_pages */
}

/* ------------------------------------------------------------------ helpers */
void hv_setup(void) { ncorpus = tl_corpus(&corpus); }

static hwloc_bitmap_t mask_to_bitmap(const struct oscall *c, unsigned nbits_limit)
{
  hwloc_bitmap_t b = hwloc_bitmap_alloc();
  unsigned n = c->nbits < nbits_limit ? c->nbits : nbits_limit;
  for (unsigned i = 0; i < n; i++) if (c->mask[i / 64] & (1UL << (i % 64))) hwloc_bitmap_set(b, i);
  return b;
}
static void bm_str(hwloc_const_bitmap_t b, char *buf, size_t n) { if (!b) snprintf(buf, n, "NULL"); else hwloc_bitmap_list_snprintf(buf, n, b); }

enum { SC_SUBSET, SC_TOPOLOGY, SC_SUPERSET, SC_COMPLETE, SC_ONLY_OFFLINE, SC_EMPTY, SC_OUTSIDE, SC_INFINITE, SC_N };
static const char *const SCN[] = { "subset", "topology_set", "superset", "complete", "only_offline", "empty", "outside_complete", "infinite" };
/* builds a set of the class (may fall back to SUBSET when the class does not exist for this topology); returns the class really built */
static int make_set(hwloc_const_bitmap_t topo, hwloc_const_bitmap_t complete, int cls, hwloc_bitmap_t out)
{
  hwloc_bitmap_zero(out);
  hwloc_bitmap_t off = hwloc_bitmap_alloc(); hwloc_bitmap_andnot(off, complete, topo);
  if ((cls == SC_SUPERSET || cls == SC_ONLY_OFFLINE) && hwloc_bitmap_iszero(off)) cls = SC_SUBSET;
  if (cls == SC_SUBSET && hwloc_bitmap_weight(topo) < 2) cls = SC_TOPOLOGY;
  switch (cls) {
  case SC_SUBSET: { int id; do { hwloc_bitmap_zero(out); hwloc_bitmap_foreach_begin(id, topo) if (hv_chance(&R, 1, 2)) hwloc_bitmap_set(out, (unsigned)id); hwloc_bitmap_foreach_end(); } while (hwloc_bitmap_iszero(out) || hwloc_bitmap_isequal(out, topo)); break; }
  case SC_TOPOLOGY: hwloc_bitmap_copy(out, topo); break;
  case SC_SUPERSET: hwloc_bitmap_copy(out, topo); hwloc_bitmap_set(out, (unsigned)hwloc_bitmap_first(off)); break;
  case SC_COMPLETE: hwloc_bitmap_copy(out, complete); break;
  case SC_ONLY_OFFLINE: hwloc_bitmap_set(out, (unsigned)hwloc_bitmap_first(off)); break;
  case SC_EMPTY: break;
  case SC_OUTSIDE: hwloc_bitmap_copy(out, topo); hwloc_bitmap_singlify(out); hwloc_bitmap_set(out, (unsigned)hwloc_bitmap_last(complete) + 1 + (unsigned)hv_below(&R, 70)); break;
  case SC_INFINITE: hwloc_bitmap_fill(out); if (hv_chance(&R, 1, 2)) hwloc_bitmap_clr(out, 0); break;
  }
  hwloc_bitmap_free(off);
  return cls;
}

static unsigned os_count(int kind) { unsigned n = 0; for (unsigned i = 0; i < NLOG; i++) if (LOG[i].kind == kind) n++; return n; }
static unsigned os_binding_calls(void) { unsigned n = 0; for (unsigned i = 0; i < NLOG; i++) if (LOG[i].kind != OS_GETAFF && LOG[i].kind != OS_PT_GETAFF && LOG[i].kind != OS_GET_MEMPOLICY) n++; return n; }

/* ------------------------------------------------------------------ T1: validation and what reaches the OS */
static void t1_case(uint64_t index)
{
  struct tg_config c; tg_config_random(&R, &c, 0);
  c.flags &= HWLOC_TOPOLOGY_FLAG_INCLUDE_DISALLOWED;
  int thissystem = hv_chance(&R, 1, 2);
  if (thissystem) c.flags |= HWLOC_TOPOLOGY_FLAG_IS_THISSYSTEM;
  hwloc_topology_t t; int stage; const char *kind;
  fake_kernel = 1; fake_aff_set = 0; fake_mode = 0; memset(fake_nodemask, 0, sizeof fake_nodemask);
  hv_ctxkey("t1:load");
  if (index % 3 == 1 && ncorpus) { const char *path = corpus[(index / 3) % ncorpus]; kind = "xml"; hv_desc("validation: xml %s thissystem=%d\n", path, thissystem); t = tl_load_xmlfile(path, &c, &stage); }
  else { struct tg_synth_opts o; tg_synth_opts_default(&o); o.max_pus = 200; struct hv_str d; hv_str_init(&d); tg_synth_random(&R, &o, &d); kind = "synthetic"; hv_desc("validation: synthetic \"%s\" thissystem=%d\n", d.s, thissystem); t = tl_load_synthetic(d.s, &c, &stage); hv_str_free(&d); }
  if (!t) { hv_stat("source_load_failed", 1); fake_kernel = 0; return; }
  if (hv_chance(&R, 1, 3)) {   /* a duplicate is the same kind of topology: it must validate and (not) reach the OS exactly like its original */
    hwloc_topology_t t2 = NULL; hv_ctxkey("t1:dup");
    if (hwloc_topology_dup(&t2, t) == 0) { hwloc_topology_destroy(t); t = t2; hv_desc("  (calls are made on a hwloc_topology_dup() of it)\n"); hv_stat("t1.on_duplicate", 1);
      if (!!hwloc_topology_is_thissystem(t) != thissystem) hv_viol("dup.thissystem_differs", "is_thissystem of the duplicate is %d, of the original %d", hwloc_topology_is_thissystem(t), thissystem); }
  }
  if (!!hwloc_topology_is_thissystem(t) != thissystem) { hv_stat("thissystem_flag_not_honoured", 1); thissystem = hwloc_topology_is_thissystem(t); }
  hwloc_const_bitmap_t tcs = hwloc_topology_get_topology_cpuset(t), ccs = hwloc_topology_get_complete_cpuset(t), tns = hwloc_topology_get_topology_nodeset(t), cns = hwloc_topology_get_complete_nodeset(t);
  if (hwloc_bitmap_last(ccs) >= 4000 || hwloc_bitmap_last(cns) >= 4000) { hwloc_topology_destroy(t); fake_kernel = 0; return; }
  fake_ncpus = (unsigned)hwloc_bitmap_last(ccs) + 1; if (hv_chance(&R, 1, 2)) fake_ncpus = 1u << (6 + hv_below(&R, 7)); if (fake_ncpus > 4096) fake_ncpus = 4096;
  fake_nnodes = 64u << hv_below(&R, 5);
  hwloc_bitmap_t set = hwloc_bitmap_alloc(), got = hwloc_bitmap_alloc();
  unsigned reached = 0;
  for (unsigned q = 0; q < 24 && !hv_viol_count(); q++) {
    unsigned ep = (unsigned)hv_below(&R, 17);
    int is_mem = ep >= 8, is_set = (ep <= 2) || (ep >= 8 && ep <= 11);
    int flags, badflags = hv_chance(&R, 1, 6);
    if (!is_mem) { flags = (int)hv_below(&R, 16) & (hv_chance(&R, 1, 2) ? 0xc : 0xf); if (hv_chance(&R, 1, 2)) flags &= ~3; if (badflags) flags |= 16 << hv_below(&R, 10); }
    else { flags = (int)hv_below(&R, 64) & ~(int)HWLOC_MEMBIND_MIGRATE; if (hv_chance(&R, 1, 4)) flags |= HWLOC_MEMBIND_MIGRATE; if (hv_chance(&R, 2, 3)) flags &= ~3; if (badflags) flags |= 64 << hv_below(&R, 10); }
    int bynodeset = is_mem && (flags & HWLOC_MEMBIND_BYNODESET);
    int cls = (int)hv_below(&R, SC_N); if (hv_chance(&R, 1, 2)) cls = (int)hv_below(&R, 4);
    if (is_mem && !bynodeset && cls == SC_ONLY_OFFLINE) cls = SC_SUBSET;   /* offline CPUs have no NUMA node: the derived nodeset would be empty */
    cls = make_set(bynodeset ? tns : tcs, bynodeset ? cns : ccs, cls, set);
    static const int pols[] = { HWLOC_MEMBIND_DEFAULT, HWLOC_MEMBIND_FIRSTTOUCH, HWLOC_MEMBIND_BIND, HWLOC_MEMBIND_INTERLEAVE, HWLOC_MEMBIND_WEIGHTED_INTERLEAVE, HWLOC_MEMBIND_NEXTTOUCH, HWLOC_MEMBIND_MIXED, 77 };
    int pol = pols[hv_chance(&R, 1, 5) ? 6 + hv_below(&R, 2) : hv_below(&R, 6)], badpol = is_mem && is_set && (pol == HWLOC_MEMBIND_MIXED || pol == 77);
    int badset = is_set && (cls == SC_EMPTY || cls == SC_OUTSIDE || cls == SC_INFINITE);
    if (ep == 11 && (flags & HWLOC_MEMBIND_MIGRATE)) badset = 1;   /* nothing to migrate in a new allocation: treated like an invalid set (EINVAL when STRICT, plain allocation otherwise) */
    if (is_mem && is_set && !bynodeset && !badset && !hwloc_bitmap_isincluded(tcs, set)) {   /* CPUs whose NUMA node is not part of the topology: the nodeset derived from the cpuset is empty */
      hwloc_bitmap_t dn = hwloc_bitmap_alloc(); hwloc_cpuset_to_nodeset(t, set, dn); int e = hwloc_bitmap_iszero(dn); hwloc_bitmap_free(dn); if (e) { hv_stat("t1.skipped_cpuset_without_node", 1); continue; } }
    static char area[8192]; void *alloc = NULL; hwloc_membind_policy_t gpol = (hwloc_membind_policy_t)1234;
    static const char *const EPN[] = { "set_cpubind", "set_proc_cpubind", "set_thread_cpubind", "get_cpubind", "get_proc_cpubind", "get_thread_cpubind", "get_last_cpu_location", "get_proc_last_cpu_location",
      "set_membind", "set_proc_membind", "set_area_membind", "alloc_membind", "get_membind", "get_proc_membind", "get_area_membind", "get_area_memlocation", "set_area_membind_len0" };
    NLOG = 0; logging = 1; errno = 0; int rc;
    hv_ctxkey("t1:%s", EPN[ep]);
    hwloc_bitmap_fill(got);
    switch (ep) {
    case 0: rc = hwloc_set_cpubind(t, set, flags); break;
    case 1: rc = hwloc_set_proc_cpubind(t, getpid(), set, flags); break;
    case 2: rc = hwloc_set_thread_cpubind(t, pthread_self(), set, flags); break;
    case 3: rc = hwloc_get_cpubind(t, got, flags); break;
    case 4: rc = hwloc_get_proc_cpubind(t, getpid(), got, flags); break;
    case 5: rc = hwloc_get_thread_cpubind(t, pthread_self(), got, flags); break;
    case 6: rc = hwloc_get_last_cpu_location(t, got, flags); break;
    case 7: rc = hwloc_get_proc_last_cpu_location(t, getpid(), got, flags); break;
    case 8: rc = hwloc_set_membind(t, set, (hwloc_membind_policy_t)pol, flags); break;
    case 9: rc = hwloc_set_proc_membind(t, getpid(), set, (hwloc_membind_policy_t)pol, flags); break;
    case 10: rc = hwloc_set_area_membind(t, area, sizeof area, set, (hwloc_membind_policy_t)pol, flags); break;
    case 11: alloc = hwloc_alloc_membind(t, 8192, set, (hwloc_membind_policy_t)pol, flags); rc = alloc ? 0 : -1; break;
    case 12: rc = hwloc_get_membind(t, got, &gpol, flags); break;
    case 13: rc = hwloc_get_proc_membind(t, getpid(), got, &gpol, flags); break;
    case 14: rc = hwloc_get_area_membind(t, area, sizeof area, got, &gpol, flags); break;
    case 15: rc = hwloc_get_area_memlocation(t, area, sizeof area, got, flags); break;
    default: rc = hwloc_set_area_membind(t, area, 0, set, (hwloc_membind_policy_t)pol, flags); is_set = 0; break;
    }
    int err = errno; logging = 0;
    if (alloc) { int e2 = errno; hwloc_free(t, alloc, 8192); errno = e2; }
    char ss[200]; bm_str(set, ss, sizeof ss);
    hv_desc("  %s(%s{%s} flags=%#x pol=%d) -> %d errno %d, %u OS calls\n", EPN[ep], is_set ? SCN[cls] : "-", is_set ? ss : "", flags, is_mem && is_set ? pol : 0, rc, rc ? err : 0, NLOG);
    hv_stat("t1.calls", 1);
    char key[96];
    int must_reject = badflags || (is_set && (badpol || badset));
    /* alloc_membind without STRICT falls back to a plain allocation for an invalid set (documented); unknown flags / policies are still refused */
    int alloc_fallback = ep == 11 && !badflags && !badpol && badset && !(flags & HWLOC_MEMBIND_STRICT);
    if (ep == 16) { /* len 0: nothing to do, only flags / policy are validated */
      if ((badflags || (pol == HWLOC_MEMBIND_MIXED || pol == 77)) ? !(rc == -1 && err == EINVAL) : !(rc == 0 || (rc == -1 && err == EINVAL && (cls == SC_EMPTY || cls == SC_OUTSIDE || cls == SC_INFINITE)))) { hv_viol("validation.area_len0", "set_area_membind(len 0, flags %#x, policy %d, %s) returned %d errno %d", flags, pol, SCN[cls], rc, err); }
      if (os_binding_calls()) hv_viol("validation.area_len0.reached_os", "set_area_membind with len 0 reached the OS");
      continue;
    }
    if (must_reject && !alloc_fallback) {
      if (rc != -1 || err != EINVAL) { snprintf(key, sizeof key, "validation.%s.%s", EPN[ep], badflags ? "unknown_flags" : badpol ? "invalid_policy" : SCN[cls]); hv_viol(key, "%s with %s returned %d errno %d, expected -1/EINVAL", EPN[ep], badflags ? "unknown flag bits" : badpol ? "an invalid policy" : SCN[cls], rc, err); }
      if (os_binding_calls()) { snprintf(key, sizeof key, "validation.%s.reached_os", EPN[ep]); hv_viol(key, "%s with invalid arguments reached %s before being rejected", EPN[ep], OSN[LOG[0].kind]); }
      hv_stat("t1.rejected", 1);
      continue;
    }
    if (alloc_fallback) { if (rc != 0) hv_viol("validation.alloc_membind.no_fallback", "non-strict alloc_membind with an invalid set did not fall back to a plain allocation"); for (unsigned i = 0; i < NLOG; i++) if (LOG[i].kind == OS_MBIND) hv_viol("validation.alloc_membind.reached_os", "alloc_membind with an invalid set called mbind"); continue; }
    if (!thissystem) {
      /* foreign topology: set-calls succeed without any system effect, get-calls report the whole machine */
      if (rc != 0) { snprintf(key, sizeof key, "foreign.%s.failed", EPN[ep]); hv_viol(key, "%s on a topology that is not this system returned %d errno %d", EPN[ep], rc, err); }
      if (NLOG) { snprintf(key, sizeof key, "foreign.%s.reached_os", EPN[ep]); hv_viol(key, "%s on a topology that is not this system called %s", EPN[ep], OSN[LOG[0].kind]); }
      if (!is_set && rc == 0 && ep != 16) {
        int bn = is_mem && (flags & HWLOC_MEMBIND_BYNODESET);
        hwloc_bitmap_t whole = hwloc_bitmap_alloc(); if (!is_mem) hwloc_bitmap_copy(whole, ccs); else if (bn) hwloc_bitmap_copy(whole, cns); else hwloc_cpuset_from_nodeset(t, whole, cns);
        if (!hwloc_bitmap_isequal(got, whole)) { char a[200], b[200]; bm_str(got, a, sizeof a); bm_str(whole, b, sizeof b); snprintf(key, sizeof key, "foreign.%s.not_whole_machine", EPN[ep]); hv_viol(key, "%s on a foreign topology reported {%s}, the whole machine is {%s}", EPN[ep], a, b); }
        if (is_mem && ep != 15 && gpol != HWLOC_MEMBIND_MIXED) { snprintf(key, sizeof key, "foreign.%s.policy", EPN[ep]); hv_viol(key, "%s on a foreign topology reported policy %d, expected MIXED", EPN[ep], (int)gpol); }
        hwloc_bitmap_free(whole);
      }
      hv_stat("t1.foreign_ok", 1);
      continue;
    }
    /* this-system hooks over the fake kernel */
    int nohook = (ep == 9 || ep == 13) || ((ep == 8 || ep == 12) && (flags & HWLOC_MEMBIND_PROCESS));
    if (nohook) { if (rc != -1 || err != ENOSYS) { snprintf(key, sizeof key, "nohook.%s", EPN[ep]); hv_viol(key, "%s has no Linux hook: returned %d errno %d, expected -1/ENOSYS", EPN[ep], rc, err); } if (os_binding_calls()) hv_viol("nohook.reached_os", "%s without hook reached the OS", EPN[ep]); hv_stat("t1.enosys", 1); continue; }
    if (!is_set) { for (unsigned i = 0; i < NLOG; i++) if (LOG[i].kind == OS_SETAFF || LOG[i].kind == OS_PT_SETAFF || LOG[i].kind == OS_MBIND || LOG[i].kind == OS_SET_MEMPOLICY || LOG[i].kind == OS_MIGRATE_PAGES) { snprintf(key, sizeof key, "get.%s.modifies", EPN[ep]); hv_viol(key, "%s called %s", EPN[ep], OSN[LOG[i].kind]); break; } continue; }
    /* masks handed to the OS */
    hwloc_const_bitmap_t cset = (is_mem ? cns : ccs), tset = (is_mem && bynodeset) ? tns : (is_mem ? NULL : tcs);
    int covers = is_mem && !bynodeset ? hwloc_bitmap_isincluded(tcs, set) : hwloc_bitmap_isincluded(tset, set);
    for (unsigned i = 0; i < NLOG && !hv_viol_count(); i++) {
      const struct oscall *oc = &LOG[i];
      if (oc->kind == OS_GETAFF || oc->kind == OS_PT_GETAFF || oc->kind == OS_GET_MEMPOLICY || oc->kind == OS_MOVE_PAGES) continue;
      if (!oc->has_mask) continue;       /* MPOL_DEFAULT / LOCAL without mask */
      /* the kernel only looks at maxnode-1 bits of a node mask */
      hwloc_bitmap_t m = mask_to_bitmap(oc, oc->kind >= OS_MBIND ? (oc->nbits ? oc->nbits : 0) : 4096);
      char a[200], b[200]; bm_str(m, a, sizeof a); bm_str(cset, b, sizeof b);
      if (hwloc_bitmap_iszero(m)) { snprintf(key, sizeof key, "os.%s.empty_mask", OSN[oc->kind]); hv_viol(key, "%s(%s) handed an empty mask to %s", EPN[ep], SCN[cls], OSN[oc->kind]); }
      else if (!hwloc_bitmap_isincluded(m, cset)) { snprintf(key, sizeof key, "os.%s.outside_complete", OSN[oc->kind]); hv_viol(key, "%s(%s) handed {%s} to %s, the complete set is {%s}", EPN[ep], SCN[cls], a, OSN[oc->kind], b); }
      else if (covers && !hwloc_bitmap_isequal(m, cset)) { snprintf(key, sizeof key, "os.%s.whole_not_complete", OSN[oc->kind]); hv_viol(key, "%s with a set covering the whole topology handed {%s} to %s instead of the complete set {%s}", EPN[ep], a, OSN[oc->kind], b); }
      else if (!covers && (!is_mem || bynodeset) && !hwloc_bitmap_isequal(m, set)) { snprintf(key, sizeof key, "os.%s.other_set", OSN[oc->kind]); hv_viol(key, "%s({%s}) handed {%s} to %s", EPN[ep], ss, a, OSN[oc->kind]); }
      hwloc_bitmap_free(m);
      reached++; hv_stat("t1.masks_checked_at_os", 1);
      if (!covers) { hv_stat("t1.proper_subset_reached_os", 1); hv_distinct(1, hv_hash_u64((uint64_t)ep * 4096 + (uint64_t)(flags & 63) * 64 + (uint64_t)cls * 4 + (kind[0] == 'x'), 10)); }
    }
    if (!is_mem && rc == 0 && !os_count(OS_SETAFF) && !os_count(OS_PT_SETAFF)) { snprintf(key, sizeof key, "os.%s.not_reached", EPN[ep]); hv_viol(key, "%s returned 0 on a this-system topology without calling the OS", EPN[ep]); }
  }
  (void)reached;
  hwloc_bitmap_free(set); hwloc_bitmap_free(got);
  hv_ctxkey("t1:destroy");
  hwloc_topology_destroy(t);
  fake_kernel = 0;
}

/* ------------------------------------------------------------------ T2/T3: the running system */
static int real_getaff(hwloc_bitmap_t out) { cpu_set_t s; CPU_ZERO(&s); if (sched_getaffinity(0, sizeof s, &s) != 0) return -1; hwloc_bitmap_zero(out); for (int i = 0; i < CPU_SETSIZE; i++) if (CPU_ISSET(i, &s)) hwloc_bitmap_set(out, (unsigned)i); return 0; }
static int real_setaff(hwloc_const_bitmap_t in) { cpu_set_t s; CPU_ZERO(&s); int id; hwloc_bitmap_foreach_begin(id, in) CPU_SET(id, &s); hwloc_bitmap_foreach_end(); return sched_setaffinity(0, sizeof s, &s); }

/* a second thread of the process, bound elsewhere while the topology is loaded: the process binding (what RESTRICT_TO_CPUBINDING reads)
 * then differs from the loading thread's own binding, which is the one that must be found unchanged afterwards */
static volatile int helper_stop; static cpu_set_t helper_mask; static volatile int helper_bound;
static void *helper_main(void *arg) { (void)arg; if (sched_setaffinity(0, sizeof helper_mask, &helper_mask) == 0) helper_bound = 1; else helper_bound = -1; while (!helper_stop) usleep(200); return NULL; }

static void live_case(uint64_t index)
{
  fake_kernel = 0;
  hwloc_bitmap_t orig = hwloc_bitmap_alloc(), sub = hwloc_bitmap_alloc(), got = hwloc_bitmap_alloc(), before = hwloc_bitmap_alloc(), after = hwloc_bitmap_alloc();
  if (real_getaff(orig) != 0 || hwloc_bitmap_iszero(orig)) hv_fail("cannot read the affinity of the harness thread");
  /* T3: load leaves the caller's binding as it found it */
  static const char *const comps[] = { NULL, "linux,stop", "x86,stop", "linux,x86,stop", "-x86", "-linux" };
  unsigned ci = (unsigned)hv_below(&R, 6);
  unsigned long flags = 0; if (hv_chance(&R, 1, 3)) flags |= HWLOC_TOPOLOGY_FLAG_DONT_CHANGE_BINDING; if (hv_chance(&R, 1, 3)) flags |= HWLOC_TOPOLOGY_FLAG_INCLUDE_DISALLOWED; if (hv_chance(&R, 1, 4)) flags |= HWLOC_TOPOLOGY_FLAG_THISSYSTEM_ALLOWED_RESOURCES;
  /* pre-bind to a random non-empty subset so that restoring matters */
  { int id; do { hwloc_bitmap_zero(sub); hwloc_bitmap_foreach_begin(id, orig) if (hv_chance(&R, 1, 3)) hwloc_bitmap_set(sub, (unsigned)id); hwloc_bitmap_foreach_end(); } while (hwloc_bitmap_iszero(sub)); }
  if (index % 8 == 7) hwloc_bitmap_copy(sub, orig);
  if (real_setaff(sub) != 0) { hv_stat("live.setaffinity_not_permitted", 1); goto out; }
  pthread_t helper; int have_helper = 0;
  if (hv_chance(&R, 1, 2)) {
    int id; CPU_ZERO(&helper_mask); unsigned n = 0; hwloc_bitmap_foreach_begin(id, orig) if (hv_chance(&R, 1, 2)) { CPU_SET(id, &helper_mask); n++; } hwloc_bitmap_foreach_end();
    if (!n) CPU_SET(hwloc_bitmap_last(orig), &helper_mask);
    helper_stop = 0; helper_bound = 0;
    if (pthread_create(&helper, NULL, helper_main, NULL) == 0) { have_helper = 1; while (!helper_bound) usleep(100); hv_stat("live.loads_with_second_thread", 1);
      if (hv_chance(&R, 1, 2)) { flags |= HWLOC_TOPOLOGY_FLAG_RESTRICT_TO_CPUBINDING | HWLOC_TOPOLOGY_FLAG_IS_THISSYSTEM; /* the flag is only legal together with IS_THISSYSTEM */ } }
  }
  real_getaff(before);
  if (comps[ci]) setenv("HWLOC_COMPONENTS", comps[ci], 1); else unsetenv("HWLOC_COMPONENTS");
  hwloc_topology_t t; hwloc_topology_init(&t);
  if (hwloc_topology_set_flags(t, flags) != 0) { hv_stat("live.flag_combination_refused", 1); flags &= ~(unsigned long)HWLOC_TOPOLOGY_FLAG_RESTRICT_TO_CPUBINDING; hwloc_topology_set_flags(t, flags); }
  flags = hwloc_topology_get_flags(t);      /* what the load will really use */
  if (flags & HWLOC_TOPOLOGY_FLAG_RESTRICT_TO_CPUBINDING) hv_stat("live.loads_restrict_to_cpubinding", 1);
  if (hv_chance(&R, 1, 2)) hwloc_topology_set_io_types_filter(t, HWLOC_TYPE_FILTER_KEEP_ALL);
  char bs[200]; bm_str(before, bs, sizeof bs);
  hv_desc("live: components=%s flags=%#lx pre-bound to {%s}\n", comps[ci] ? comps[ci] : "(default)", flags, bs);
  hv_ctxkey("live:load");
  NLOG = 0; logging = 1;
  int lrc = hwloc_topology_load(t);
  logging = 0;
  unsetenv("HWLOC_COMPONENTS");
  real_getaff(after);
  if (have_helper) { helper_stop = 1; pthread_join(helper, NULL); }
  hv_stat("live.loads", 1);
  if (os_count(OS_SETAFF) + os_count(OS_PT_SETAFF)) hv_stat("live.loads_that_rebound_the_thread", 1);
  if (!hwloc_bitmap_isequal(before, after)) { char as[200]; bm_str(after, as, sizeof as); hv_viol("live.load_changed_binding", "hwloc_topology_load (components %s, flags %#lx, rc %d) left the thread bound to {%s}, it was bound to {%s}", comps[ci] ? comps[ci] : "(default)", flags, lrc, as, bs); }
  if ((flags & HWLOC_TOPOLOGY_FLAG_DONT_CHANGE_BINDING) && (os_count(OS_SETAFF) + os_count(OS_PT_SETAFF))) hv_viol("live.dont_change_binding_ignored", "load with DONT_CHANGE_BINDING called sched_setaffinity %u times", os_count(OS_SETAFF) + os_count(OS_PT_SETAFF));
  if (lrc != 0) { hwloc_topology_destroy(t); real_setaff(orig); goto out; }
  /* T2: live round trip on subsets of the allowed cpuset */
  real_setaff(orig);
  if (hwloc_topology_is_thissystem(t)) {
    hwloc_bitmap_t allowed = hwloc_bitmap_dup(hwloc_topology_get_allowed_cpuset(t)); hwloc_bitmap_and(allowed, allowed, orig);
    hv_ctxkey("live:roundtrip");
    for (unsigned k = 0; k < 12 && !hv_viol_count() && !hwloc_bitmap_iszero(allowed); k++) {
      int id; hwloc_bitmap_zero(sub);
      if (k < 2) { unsigned w = (unsigned)hwloc_bitmap_weight(allowed), pick = (unsigned)hv_below(&R, w), n = 0; hwloc_bitmap_foreach_begin(id, allowed) if (n++ == pick) hwloc_bitmap_set(sub, (unsigned)id); hwloc_bitmap_foreach_end(); }
      else if (k == 2) hwloc_bitmap_copy(sub, allowed);
      else do { hwloc_bitmap_zero(sub); hwloc_bitmap_foreach_begin(id, allowed) if (hv_chance(&R, 1, 2)) hwloc_bitmap_set(sub, (unsigned)id); hwloc_bitmap_foreach_end(); } while (hwloc_bitmap_iszero(sub));
      int fl = HWLOC_CPUBIND_THREAD | (hv_chance(&R, 1, 2) ? HWLOC_CPUBIND_STRICT : 0);
      char ss[200]; bm_str(sub, ss, sizeof ss);
      errno = 0;
      if (hwloc_set_cpubind(t, sub, fl) != 0) { hv_viol("live.set_cpubind_failed", "set_cpubind(THREAD, {%s}) failed with errno %d", ss, errno); break; }
      if (hwloc_get_cpubind(t, got, HWLOC_CPUBIND_THREAD) != 0) { hv_viol("live.get_cpubind_failed", "get_cpubind(THREAD) failed with errno %d", errno); break; }
      /* a set covering the whole topology is bound as the complete set */
      hwloc_bitmap_t expect = hwloc_bitmap_dup(sub); if (hwloc_bitmap_isincluded(hwloc_topology_get_topology_cpuset(t), sub)) { hwloc_bitmap_copy(expect, hwloc_topology_get_complete_cpuset(t)); hwloc_bitmap_and(expect, expect, orig); hwloc_bitmap_or(expect, expect, sub); }
      if (!hwloc_bitmap_isequal(got, sub) && !hwloc_bitmap_isequal(got, expect)) { char gs[200]; bm_str(got, gs, sizeof gs); hv_viol("live.roundtrip_differs", "bound the thread to {%s}, get_cpubind reports {%s}", ss, gs); }
      hwloc_bitmap_free(expect);
      real_getaff(after); if (!hwloc_bitmap_isequal(after, got)) { char as[200], gs[200]; bm_str(after, as, sizeof as); bm_str(got, gs, sizeof gs); hv_viol("live.get_differs_from_kernel", "get_cpubind reports {%s}, sched_getaffinity {%s}", gs, as); }
      sched_yield();
      if (hwloc_get_last_cpu_location(t, got, HWLOC_CPUBIND_THREAD) == 0) { if (!hwloc_bitmap_isincluded(got, sub) || hwloc_bitmap_iszero(got)) { char gs[200]; bm_str(got, gs, sizeof gs); hv_viol("live.last_cpu_location_outside", "thread bound to {%s}, get_last_cpu_location reports {%s}", ss, gs); } hv_stat("live.last_cpu_location_checked", 1); }
      hv_stat("live.roundtrips", 1);
      if (hwloc_bitmap_weight(sub) < hwloc_bitmap_weight(allowed)) hv_distinct(2, hv_hash_bytes(ss, strlen(ss), 11));
    }
    hwloc_bitmap_free(allowed);
  } else hv_stat("live.not_thissystem", 1);
  real_setaff(orig);
  hv_ctxkey("live:destroy");
  hwloc_topology_destroy(t);
out:
  real_setaff(orig);
  hwloc_bitmap_free(orig); hwloc_bitmap_free(sub); hwloc_bitmap_free(got); hwloc_bitmap_free(before); hwloc_bitmap_free(after);
}

void hv_case(uint64_t index)
{
  hv_rng_seed(&R, HV.seed, "c10", index);
  if (index % 4 == 3) live_case(index); else t1_case(index);
  logging = 0; fake_kernel = 0;
  if (index < 8) hv_sample("%s", hv_desc_get());
  hv_ctxkey("%s", "");
  hv_leak_check();
}
