/* History executor: random modifying-API operations on a loaded topology (DESIGN 3.5). */
#ifndef HV_HIST_H
#define HV_HIST_H
#include "topo.h"

enum hx_kind { HX_RESTRICT, HX_MISC, HX_GROUP, HX_ALLOW, HX_DIST_ADD, HX_DIST_REMOVE, HX_MEMATTR_REG, HX_MEMATTR_SET, HX_CPUKIND,
               HX_INFO, HX_SUBTYPE, HX_REFRESH, HX_NKINDS };
#define HX_ALL ((1u << HX_NKINDS) - 1)
#define HX_STRUCTURAL ((1u << HX_RESTRICT) | (1u << HX_MISC) | (1u << HX_GROUP) | (1u << HX_DIST_ADD) | (1u << HX_DIST_REMOVE))
#define HX_ANNOTATE ((1u << HX_MISC) | (1u << HX_DIST_ADD) | (1u << HX_MEMATTR_REG) | (1u << HX_MEMATTR_SET) | (1u << HX_CPUKIND) | (1u << HX_INFO) | (1u << HX_SUBTYPE))

struct hx_result {
  enum hx_kind kind;
  int rc;                 /* 0 success, -1 failure (NULL returns are mapped to -1) */
  int err;                /* errno after a failure */
  int must_be_unchanged;  /* the call is documented to leave the topology untouched for this outcome */
  int fragile;            /* Group insertion shape with known open findings (dont_merge over an identical object, nodeset only,
                             CPU-less members): histories end after such a call so that its consequences stay attributable */
  char desc[600];         /* textual form of the call, for replay files */
  char cls[64];           /* outcome class for distinct counting, e.g. "restrict:ok" */
};

struct hx {
  hwloc_topology_t t;
  struct hv_rng *r;
  unsigned memattr_serial, misc_serial;
  int allow_grouping;     /* distances add with GROUP flags */
  int allow_bad_args;     /* invalid flag words / empty sets / NULL entries */
  int no_fragile_groups;  /* do not insert Group shapes covered by the open Group-insertion findings (they are freed instead) */
};

void hx_init(struct hx *h, hwloc_topology_t t, struct hv_rng *r);
/* performs one random operation among the kinds in mask */
void hx_random_op(struct hx *h, unsigned mask, struct hx_result *res);
/* pick a random object (any kind) / a random object with sets / of a type */
hwloc_obj_t hx_pick_obj(struct hx *h, int need_sets);
/* random printable string with XML-hostile characters */
void hx_rand_string(struct hv_rng *r, char *buf, size_t maxlen, int allow_empty);
extern int hx_whitespace_controls;   /* opt-in: TAB/LF/CR inside generated names and info values */

/* apply `nops` successful-or-not annotating operations (Misc, infos, subtypes, distances, memattrs, cpukinds): used to derive
 * feature-rich topologies for the carrier properties (C05, C12, C19) */
unsigned hx_annotate(struct hx *h, unsigned nops);
/* feature bits of a topology (evidence / non-triviality rules) */
#define HXF_COMPLETE_DIFFERS 1u
#define HXF_ESCAPED_CHARS    2u
#define HXF_USERDATA         4u
#define HXF_DISTANCES        8u
#define HXF_MEMATTR_VALUES  16u
#define HXF_CPUKINDS        32u
#define HXF_SPECIAL_OBJS    64u
#define HXF_PAGE_TYPES     128u
#define HXF_INFOS          256u
unsigned hx_features(hwloc_topology_t t);
static inline unsigned hx_popcount(unsigned v) { unsigned n = 0; while (v) { n += v & 1; v >>= 1; } return n; }
#endif
