/* WF: well-formedness oracle for the C01 conditions, written against the public accessors
 * and the SET model only (no hwloc_bitmap_and/or/isincluded..., no private headers). */
#include "topo.h"
#include <assert.h>

#define MAX_OBJS 400000

void tv_observe(hwloc_const_bitmap_t b, vset *o)
{
  vs_zero(o);
  for (unsigned i = 0; i < VS_W; i++) if (hwloc_bitmap_isset(b, i)) vs_set(o, i);
  o->tail = hwloc_bitmap_isset(b, VS_W + 997) != 0;
}

hwloc_bitmap_t tv_to_bitmap(const vset *s)
{
  hwloc_bitmap_t b = hwloc_bitmap_alloc();
  if (!b) hv_fail("bitmap alloc");
  for (unsigned i = 0; i < VS_W; i++) if (VS_BIT(s, i)) hwloc_bitmap_set(b, i);
  if (s->tail) hwloc_bitmap_set_range(b, VS_W, -1);
  return b;
}

/* ------------------------------------------------------------------ view */
static void view_push(struct tv_view *vw, hwloc_obj_t o, int parent, int with_sets)
{
  if (vw->n >= MAX_OBJS) { vw->truncated = 1; return; }
  if (vw->n == vw->cap) {
    vw->cap = vw->cap ? vw->cap * 2 : 256;
    vw->v = realloc(vw->v, vw->cap * sizeof *vw->v);
    if (!vw->v) hv_fail("out of memory in view");
  }
  struct tv_obj *e = &vw->v[vw->n++];
  e->o = o; e->parent = parent; e->kind = tk_kind(o->type);
  e->has_sets = o->cpuset != NULL;
  if (with_sets) {
    if (o->cpuset) tv_observe(o->cpuset, &e->cs); else vs_zero(&e->cs);
    if (o->complete_cpuset) tv_observe(o->complete_cpuset, &e->ccs); else vs_zero(&e->ccs);
    if (o->nodeset) tv_observe(o->nodeset, &e->ns); else vs_zero(&e->ns);
    if (o->complete_nodeset) tv_observe(o->complete_nodeset, &e->cns); else vs_zero(&e->cns);
  }
}
static void view_walk(struct tv_view *vw, hwloc_obj_t o, int parent, int with_sets, unsigned depth)
{
  if (vw->truncated) return;
  if (depth > 4096) { vw->truncated = 1; return; }
  int me = (int)vw->n;
  view_push(vw, o, parent, with_sets);
  hwloc_obj_t c;
  for (c = o->memory_first_child; c && !vw->truncated; c = c->next_sibling) view_walk(vw, c, me, with_sets, depth + 1);
  for (c = o->first_child; c && !vw->truncated; c = c->next_sibling) view_walk(vw, c, me, with_sets, depth + 1);
  for (c = o->io_first_child; c && !vw->truncated; c = c->next_sibling) view_walk(vw, c, me, with_sets, depth + 1);
  for (c = o->misc_first_child; c && !vw->truncated; c = c->next_sibling) view_walk(vw, c, me, with_sets, depth + 1);
}
void tv_view_build(hwloc_topology_t t, struct tv_view *vw, int with_sets)
{
  memset(vw, 0, sizeof *vw);
  hwloc_obj_t root = hwloc_get_root_obj(t);
  if (root) view_walk(vw, root, -1, with_sets, 0);
}
void tv_view_free(struct tv_view *vw) { free(vw->v); free(vw->sorted); memset(vw, 0, sizeof *vw); }
static int cmp_ptr(const void *a, const void *b)
{
  uintptr_t x = (uintptr_t)*(hwloc_obj_t const *)a, y = (uintptr_t)*(hwloc_obj_t const *)b;
  return x < y ? -1 : x > y;
}
int tv_view_find(const struct tv_view *cvw, hwloc_obj_t o)
{
  struct tv_view *vw = (struct tv_view *)cvw;
  if (!vw->n) return -1;
  if (!vw->sorted) {
    vw->sorted = malloc(vw->n * sizeof *vw->sorted);
    for (unsigned i = 0; i < vw->n; i++) { vw->sorted[i].o = vw->v[i].o; vw->sorted[i].idx = (int)i; }
    qsort(vw->sorted, vw->n, sizeof *vw->sorted, cmp_ptr);
  }
  unsigned lo = 0, hi = vw->n;
  while (lo < hi) {
    unsigned mid = (lo + hi) / 2;
    if ((uintptr_t)vw->sorted[mid].o < (uintptr_t)o) lo = mid + 1; else hi = mid;
  }
  return (lo < vw->n && vw->sorted[lo].o == o) ? vw->sorted[lo].idx : -1;
}

uint64_t tv_shape_hash(hwloc_topology_t t)
{
  uint64_t h = 99;
  int depth = hwloc_topology_get_depth(t);
  for (int d = 0; d < depth; d++) {
    h = hv_hash_u64((uint64_t)hwloc_get_depth_type(t, d) << 32 | hwloc_get_nbobjs_by_depth(t, d), h);
  }
  static const int sd[] = { HWLOC_TYPE_DEPTH_NUMANODE, HWLOC_TYPE_DEPTH_BRIDGE, HWLOC_TYPE_DEPTH_PCI_DEVICE, HWLOC_TYPE_DEPTH_OS_DEVICE, HWLOC_TYPE_DEPTH_MISC, HWLOC_TYPE_DEPTH_MEMCACHE };
  for (unsigned k = 0; k < 6; k++) h = hv_hash_u64(hwloc_get_nbobjs_by_depth(t, sd[k]), h);
  /* where memory hangs */
  hwloc_obj_t n = NULL;
  while ((n = hwloc_get_next_obj_by_type(t, HWLOC_OBJ_NUMANODE, n)) != NULL) {
    hwloc_obj_t p = n->parent; while (p && tk_kind(p->type) == TK_MEMORY) p = p->parent;
    h = hv_hash_u64(p ? (uint64_t)p->depth : 777, h);
  }
  return h;
}

/* ------------------------------------------------------------------ WF */
struct wf { const char *prefix; int fails; hwloc_topology_t t; struct tv_view vw; };

static const char *oname(hwloc_obj_t o, char *buf, size_t n)
{
  snprintf(buf, n, "%s#%u(gp%llu,L%u,d%d)", hwloc_obj_type_string(o->type), o->os_index, (unsigned long long)o->gp_index, o->logical_index, o->depth);
  return buf;
}
#define WFAIL(w, cond, ...) do { char k_[160]; snprintf(k_, sizeof k_, "%swf.%s", (w)->prefix, cond); hv_viol(k_, __VA_ARGS__); (w)->fails++; } while (0)

/* one child list: walk first->next_sibling, compare with arity / ranks / parent / array */
static unsigned wf_list(struct wf *w, hwloc_obj_t parent, const char *lname, hwloc_obj_t first, unsigned arity,
                        hwloc_obj_t *array, hwloc_obj_t last, enum tk_kind kind)
{
  char a[96], b[96];
  unsigned n = 0; hwloc_obj_t prev = NULL, c;
  if (!!first != !!arity) WFAIL(w, "list.arity", "%s of %s: arity %u but first child %s", lname, oname(parent, a, sizeof a), arity, first ? "set" : "NULL");
  for (c = first; c && n <= arity + 1 && n < MAX_OBJS; prev = c, c = c->next_sibling, n++) {
    if (c->parent != parent) WFAIL(w, "list.parent", "%s child %u %s of %s has another parent", lname, n, oname(c, a, sizeof a), oname(parent, b, sizeof b));
    if (c->sibling_rank != n) WFAIL(w, "list.sibling_rank", "%s child %s of %s: sibling_rank %u at position %u", lname, oname(c, a, sizeof a), oname(parent, b, sizeof b), c->sibling_rank, n);
    if (c->prev_sibling != prev) WFAIL(w, "list.prev_sibling", "%s child %u of %s: prev_sibling mismatch", lname, n, oname(parent, a, sizeof a));
    if (array && n < arity && array[n] != c) WFAIL(w, "list.children_array", "children[%u] of %s is not the %u-th sibling", n, oname(parent, a, sizeof a), n);
    if (prev && prev->depth == c->depth && prev->logical_index >= c->logical_index)
      WFAIL(w, "list.level_order", "%s children %s and %s of %s are siblings in this order but have logical_index %u >= %u in their common level", lname, oname(prev, a, sizeof a), hwloc_obj_type_string(c->type), oname(parent, b, sizeof b), prev->logical_index, c->logical_index);
    if (kind == TK_MISC ? c->type != HWLOC_OBJ_MISC : tk_kind(c->type) != kind)
      WFAIL(w, "list.kind", "%s list of %s contains %s", lname, oname(parent, a, sizeof a), oname(c, b, sizeof b));
  }
  if (n != arity) WFAIL(w, "list.arity", "%s of %s: arity %u but %u siblings in the list", lname, oname(parent, a, sizeof a), arity, n);
  if (array && arity && n == arity) {
    if (parent->first_child != array[0]) WFAIL(w, "list.first_child", "first_child of %s != children[0]", oname(parent, a, sizeof a));
    if (last != array[arity - 1] || last != prev) WFAIL(w, "list.last_child", "last_child of %s != children[arity-1]", oname(parent, a, sizeof a));
  }
  if (array && !arity && (parent->last_child || parent->first_child)) WFAIL(w, "list.last_child", "%s has no normal child but first/last_child set", oname(parent, a, sizeof a));
  return n;
}

static void wf_level(struct wf *w, int depth, hwloc_obj_type_t want_type, int is_virtual, unsigned *countp)
{
  hwloc_topology_t t = w->t;
  unsigned n = hwloc_get_nbobjs_by_depth(t, depth);
  hwloc_obj_t prev = NULL;
  char a[96];
  for (unsigned i = 0; i < n; i++) {
    hwloc_obj_t o = hwloc_get_obj_by_depth(t, depth, i);
    if (!o) { WFAIL(w, "level.lookup", "get_obj_by_depth(%d,%u) is NULL, nbobjs=%u", depth, i, n); return; }
    if (o->depth != depth) WFAIL(w, "level.depth", "%s found at depth %d", oname(o, a, sizeof a), depth);
    if (o->logical_index != i) WFAIL(w, "level.logical_index", "%s found at index %u of depth %d", oname(o, a, sizeof a), i, depth);
    if (prev && o->type != prev->type) WFAIL(w, "level.type", "depth %d mixes %s and %s", depth, hwloc_obj_type_string(prev->type), hwloc_obj_type_string(o->type));
    if (o->prev_cousin != prev) WFAIL(w, "level.prev_cousin", "%s prev_cousin mismatch at depth %d", oname(o, a, sizeof a), depth);
    if (prev && prev->next_cousin != o) WFAIL(w, "level.next_cousin", "%s next_cousin mismatch at depth %d", oname(prev, a, sizeof a), depth);
    if (is_virtual && o->type != want_type) WFAIL(w, "level.type", "virtual depth %d holds %s", depth, oname(o, a, sizeof a));
    if (tv_view_find(&w->vw, o) < 0) WFAIL(w, "level.not_in_tree", "%s is in level %d but not reachable from the root", oname(o, a, sizeof a), depth);
    prev = o;
    if (w->fails > 12) return;
  }
  if (prev && prev->next_cousin) WFAIL(w, "level.next_cousin", "last object of depth %d has a next_cousin", depth);
  if (hwloc_get_obj_by_depth(t, depth, n) != NULL) WFAIL(w, "level.lookup", "get_obj_by_depth(%d, nbobjs=%u) is not NULL", depth, n);
  if (n) {
    hwloc_obj_t o = hwloc_get_obj_by_depth(t, depth, 0);
    hwloc_obj_type_t lt = hwloc_get_depth_type(t, depth);
    if (lt != o->type) WFAIL(w, "level.depth_type", "get_depth_type(%d)=%d but objects are %s", depth, (int)lt, hwloc_obj_type_string(o->type));
    int td = hwloc_get_type_depth(t, o->type);
    if (td != depth) {
      if (td != HWLOC_TYPE_DEPTH_MULTIPLE) WFAIL(w, "level.type_depth", "get_type_depth(%s)=%d, objects are at depth %d", hwloc_obj_type_string(o->type), td, depth);
      else {
        int levels = 0, tdep = hwloc_topology_get_depth(t);
        for (int d = 0; d < tdep; d++) if (hwloc_get_depth_type(t, d) == o->type) levels++;
        if (levels < 2) WFAIL(w, "level.type_depth", "get_type_depth(%s)=MULTIPLE but only %d level(s)", hwloc_obj_type_string(o->type), levels);
      }
    }
  } else if (is_virtual) {
    if (hwloc_get_depth_type(t, depth) != want_type) WFAIL(w, "level.depth_type", "get_depth_type(%d) != %s", depth, hwloc_obj_type_string(want_type));
  }
  *countp += n;
}

static int cmp_u64(const void *a, const void *b) { uint64_t x = *(const uint64_t *)a, y = *(const uint64_t *)b; return x < y ? -1 : x > y; }

/* nodeset recursion: inh = nodes inherited from ancestors (their local nodes) */
static void wf_nodesets(struct wf *w, unsigned idx, const vset *inh)
{
  struct tv_obj *e = &w->vw.v[idx];
  hwloc_obj_t o = e->o;
  char a[96], s1[256], s2[256];
  if (e->kind != TK_NORMAL) return;
  vset local, acc, tmp;
  vs_zero(&local);
  /* locally attached: NUMA nodes in the memory subtree (children are contiguous after idx in pre-order; use parent links) */
  for (unsigned k = idx + 1; k < w->vw.n; k++) {
    struct tv_obj *m = &w->vw.v[k];
    if (m->parent < (int)idx) break;           /* left the subtree */
    if (m->o->type != HWLOC_OBJ_NUMANODE) continue;
    /* memory subtree of o: climb while memory */
    int p = m->parent; while (p >= 0 && w->vw.v[p].kind == TK_MEMORY) p = w->vw.v[p].parent;
    if (p != (int)idx) continue;
    if (m->o->os_index < VS_W) {
      if (vs_isset(&local, m->o->os_index)) WFAIL(w, "nodeset.local_disjoint", "two NUMA nodes #%u attached to %s", m->o->os_index, oname(o, a, sizeof a));
      vs_set(&local, m->o->os_index);
    }
  }
  if (vs_intersects(&local, inh)) WFAIL(w, "nodeset.local_vs_inherited", "%s: local nodes {%s} intersect inherited {%s}", oname(o, a, sizeof a), vs_str(&local, s1, sizeof s1), vs_str(inh, s2, sizeof s2));
  vset down; vs_or(&down, inh, &local);
  acc = down;
  for (hwloc_obj_t c = o->first_child; c; c = c->next_sibling) {
    int ci = tv_view_find(&w->vw, c);
    if (ci < 0) continue;
    wf_nodesets(w, (unsigned)ci, &down);
    vs_andnot(&tmp, &w->vw.v[ci].ns, &down);          /* the child's own contribution */
    vset inter; vs_and(&inter, &tmp, &acc);
    if (!vs_iszero(&inter)) WFAIL(w, "nodeset.children_disjoint", "%s: child %s contributes nodes {%s} already counted", oname(o, a, sizeof a), hwloc_obj_type_string(c->type), vs_str(&inter, s1, sizeof s1));
    vs_or(&acc, &acc, &tmp);
    if (w->fails > 12) return;
  }
  if (!vs_isequal(&acc, &e->ns))
    WFAIL(w, "nodeset.union", "%s: nodeset {%s} != inherited+local+children {%s}", oname(o, a, sizeof a), vs_str(&e->ns, s1, sizeof s1), vs_str(&acc, s2, sizeof s2));
}

int wf_check(hwloc_topology_t t, const char *keyprefix)
{
  struct wf W, *w = &W;
  char a[96], b[96], s1[300], s2[300];
  memset(w, 0, sizeof *w);
  w->prefix = keyprefix ? keyprefix : ""; w->t = t;
  hv_stat("wf.checks", 1);

  hwloc_obj_t root = hwloc_get_root_obj(t);
  if (!root) { WFAIL(w, "root.null", "no root object"); return w->fails; }
  if (root->type != HWLOC_OBJ_MACHINE) WFAIL(w, "root.type", "root is %s", hwloc_obj_type_string(root->type));
  if (root->parent) WFAIL(w, "root.parent", "root has a parent");
  if (root->depth != 0 || root->logical_index != 0) WFAIL(w, "root.depth", "root depth %d logical_index %u", root->depth, root->logical_index);
  if (root->next_sibling || root->prev_sibling || root->next_cousin || root->prev_cousin) WFAIL(w, "root.links", "root has siblings or cousins");

  /* the SET model is exact only while every index stays inside its window */
  {
    int lastc = hwloc_bitmap_last(hwloc_topology_get_complete_cpuset(t)), lastn = hwloc_bitmap_last(hwloc_topology_get_complete_nodeset(t));
    if (lastc >= VS_W - 64 || lastn >= VS_W - 64) { hv_stat("wf.skipped_beyond_model_window", 1); return 0; }
  }
  tv_view_build(t, &w->vw, 1);
  if (w->vw.truncated) { WFAIL(w, "walk.unbounded", "tree walk did not terminate within %u objects / 4096 levels", MAX_OBJS); tv_view_free(&w->vw); return w->fails; }
  struct tv_view *vw = &w->vw;
  hv_stat("wf.objects", vw->n);

  int depth = hwloc_topology_get_depth(t);
  if (depth < 2) WFAIL(w, "levels.depth", "topology depth %d", depth);

  /* 3. child lists + per-object rules */
  unsigned nnuma = 0, npu = 0;
  for (unsigned i = 0; i < vw->n && w->fails <= 12; i++) {
    struct tv_obj *e = &vw->v[i];
    hwloc_obj_t o = e->o;
    if ((unsigned)o->type >= HWLOC_OBJ_TYPE_MAX) { WFAIL(w, "obj.type", "object with type %d", (int)o->type); continue; }
    wf_list(w, o, "normal", o->first_child, o->arity, o->children, o->last_child, TK_NORMAL);
    wf_list(w, o, "memory", o->memory_first_child, o->memory_arity, NULL, NULL, TK_MEMORY);
    wf_list(w, o, "io", o->io_first_child, o->io_arity, NULL, NULL, TK_IO);
    wf_list(w, o, "misc", o->misc_first_child, o->misc_arity, NULL, NULL, TK_MISC);
    if (o->type == HWLOC_OBJ_PU) { npu++; if (o->arity || o->memory_arity) WFAIL(w, "kind.pu_children", "%s has normal or memory children", oname(o, a, sizeof a)); }
    if (o->type == HWLOC_OBJ_NUMANODE) { nnuma++; if (o->memory_arity) WFAIL(w, "kind.numa_children", "%s has memory children", oname(o, a, sizeof a)); }
    if (e->kind == TK_MEMORY && o->arity) WFAIL(w, "kind.memory_children", "%s has normal children", oname(o, a, sizeof a));
    if (e->kind == TK_IO && (o->arity || o->memory_arity)) WFAIL(w, "kind.io_children", "%s has normal or memory children", oname(o, a, sizeof a));
    if (e->kind == TK_MISC && (o->arity || o->memory_arity || o->io_arity)) WFAIL(w, "kind.misc_children", "%s has non-Misc children", oname(o, a, sizeof a));
    if (e->kind == TK_NORMAL && e->parent >= 0) {
      if (vw->v[e->parent].kind != TK_NORMAL) WFAIL(w, "kind.normal_parent", "%s below a non-normal parent", oname(o, a, sizeof a));
      else if (o->depth <= vw->v[e->parent].o->depth) WFAIL(w, "levels.child_depth", "%s depth %d not below parent depth %d", oname(o, a, sizeof a), o->depth, vw->v[e->parent].o->depth);
    }
    if (o->type == HWLOC_OBJ_MACHINE && i != 0) WFAIL(w, "root.single_machine", "a second Machine object %s", oname(o, a, sizeof a));
    if (o->type == HWLOC_OBJ_PU && o->depth != depth - 1) WFAIL(w, "levels.pu_deepest", "%s is not at the deepest level %d", oname(o, a, sizeof a), depth - 1);

    /* 4. sets */
    int want_sets = e->kind == TK_NORMAL || e->kind == TK_MEMORY;
    int nsets = !!o->cpuset + !!o->complete_cpuset + !!o->nodeset + !!o->complete_nodeset;
    if (want_sets && nsets != 4) { WFAIL(w, "sets.missing", "%s has %d of 4 sets", oname(o, a, sizeof a), nsets); continue; }
    if (!want_sets && nsets != 0) { WFAIL(w, "sets.on_special", "%s (I/O or Misc) has %d sets", oname(o, a, sizeof a), nsets); continue; }
    if (want_sets) {
      if (!vs_isincluded(&e->cs, &e->ccs)) WFAIL(w, "sets.cpuset_in_complete", "%s cpuset {%s} not in complete_cpuset {%s}", oname(o, a, sizeof a), vs_str(&e->cs, s1, sizeof s1), vs_str(&e->ccs, s2, sizeof s2));
      if (!vs_isincluded(&e->ns, &e->cns)) WFAIL(w, "sets.nodeset_in_complete", "%s nodeset {%s} not in complete_nodeset {%s}", oname(o, a, sizeof a), vs_str(&e->ns, s1, sizeof s1), vs_str(&e->cns, s2, sizeof s2));
      if (e->parent >= 0 && vw->v[e->parent].has_sets) {
        struct tv_obj *p = &vw->v[e->parent];
        if (!vs_isincluded(&e->cs, &p->cs)) WFAIL(w, "sets.cpuset_in_parent", "%s cpuset {%s} not in parent's {%s}", oname(o, a, sizeof a), vs_str(&e->cs, s1, sizeof s1), vs_str(&p->cs, s2, sizeof s2));
        if (!vs_isincluded(&e->ccs, &p->ccs)) WFAIL(w, e->kind == TK_MEMORY ? "sets.memory_child_complete_cpuset_in_parent" : "sets.complete_cpuset_in_parent", "%s complete_cpuset {%s} not in parent's {%s}", oname(o, a, sizeof a), vs_str(&e->ccs, s1, sizeof s1), vs_str(&p->ccs, s2, sizeof s2));
        if (!vs_isincluded(&e->ns, &p->ns)) WFAIL(w, "sets.nodeset_in_parent", "%s nodeset {%s} not in parent's {%s}", oname(o, a, sizeof a), vs_str(&e->ns, s1, sizeof s1), vs_str(&p->ns, s2, sizeof s2));
        if (!vs_isincluded(&e->cns, &p->cns)) WFAIL(w, "sets.complete_nodeset_in_parent", "%s complete_nodeset {%s} not in parent's {%s}", oname(o, a, sizeof a), vs_str(&e->cns, s1, sizeof s1), vs_str(&p->cns, s2, sizeof s2));
        if (e->kind == TK_MEMORY && !vs_isequal(&e->cs, &p->cs)) WFAIL(w, "sets.memory_child_cpuset", "%s cpuset {%s} differs from its parent's {%s}", oname(o, a, sizeof a), vs_str(&e->cs, s1, sizeof s1), vs_str(&p->cs, s2, sizeof s2));
      }
      if (o->type == HWLOC_OBJ_PU) {
        vset one; vs_zero(&one); vs_set(&one, o->os_index);
        if (o->os_index >= VS_W) hv_stat("wf.os_index_beyond_window", 1);
        else {
          if (!vs_isequal(&e->cs, &one)) WFAIL(w, "sets.pu_singleton", "%s cpuset is {%s}", oname(o, a, sizeof a), vs_str(&e->cs, s1, sizeof s1));
          if (!vs_isequal(&e->ccs, &one)) WFAIL(w, "sets.pu_complete_singleton", "%s complete_cpuset is {%s}", oname(o, a, sizeof a), vs_str(&e->ccs, s1, sizeof s1));
        }
      } else if (e->kind == TK_NORMAL) {
        vset u, inter; vs_zero(&u);
        for (hwloc_obj_t c = o->first_child; c; c = c->next_sibling) {
          int ci = tv_view_find(vw, c);
          if (ci < 0 || !vw->v[ci].has_sets) continue;
          vs_and(&inter, &u, &vw->v[ci].cs);
          if (!vs_iszero(&inter)) WFAIL(w, "sets.children_disjoint", "children of %s overlap on {%s}", oname(o, a, sizeof a), vs_str(&inter, s1, sizeof s1));
          vs_or(&u, &u, &vw->v[ci].cs);
        }
        if (!vs_isequal(&u, &e->cs)) WFAIL(w, "sets.cpuset_union", "%s cpuset {%s} != union of normal children {%s}", oname(o, a, sizeof a), vs_str(&e->cs, s1, sizeof s1), vs_str(&u, s2, sizeof s2));
      }
      if (o->type == HWLOC_OBJ_NUMANODE && o->os_index < VS_W) {
        vset one; vs_zero(&one); vs_set(&one, o->os_index);
        if (!vs_isequal(&e->ns, &one)) WFAIL(w, "sets.numa_singleton", "%s nodeset is {%s}", oname(o, a, sizeof a), vs_str(&e->ns, s1, sizeof s1));
        if (!vs_isequal(&e->cns, &one)) WFAIL(w, "sets.numa_complete_singleton", "%s complete_nodeset is {%s}", oname(o, a, sizeof a), vs_str(&e->cns, s1, sizeof s1));
      }
    }
    /* 7. total memory */
    {
      uint64_t tm = 0;
      if (o->type == HWLOC_OBJ_NUMANODE && o->attr) tm += o->attr->numanode.local_memory;
      for (hwloc_obj_t c = o->first_child; c; c = c->next_sibling) tm += c->total_memory;
      for (hwloc_obj_t c = o->memory_first_child; c; c = c->next_sibling) tm += c->total_memory;
      if (tm != o->total_memory) WFAIL(w, "total_memory", "%s total_memory %llu != local + children %llu", oname(o, a, sizeof a), (unsigned long long)o->total_memory, (unsigned long long)tm);
    }
    /* 8. attributes vs type */
    if (tk_is_cache(o->type)) {
      if (!o->attr) WFAIL(w, "attr.cache", "%s has no attr", oname(o, a, sizeof a));
      else {
        unsigned wd = tk_is_icache(o->type) ? (unsigned)(o->type - HWLOC_OBJ_L1ICACHE + 1) : (unsigned)(o->type - HWLOC_OBJ_L1CACHE + 1);
        int okt = tk_is_icache(o->type) ? o->attr->cache.type == HWLOC_OBJ_CACHE_INSTRUCTION
                                        : (o->attr->cache.type == HWLOC_OBJ_CACHE_UNIFIED || o->attr->cache.type == HWLOC_OBJ_CACHE_DATA);
        if (o->attr->cache.depth != wd || !okt) WFAIL(w, "attr.cache", "%s has cache depth %u type %d", oname(o, a, sizeof a), o->attr->cache.depth, (int)o->attr->cache.type);
      }
    }
    if (o->type == HWLOC_OBJ_GROUP && (!o->attr || o->attr->group.depth == (unsigned)-1)) WFAIL(w, "attr.group_depth", "%s has group depth -1", oname(o, a, sizeof a));
    /* 9. filters */
    enum hwloc_type_filter_e f = HWLOC_TYPE_FILTER_KEEP_ALL;
    if (hwloc_topology_get_type_filter(t, o->type, &f) == 0 && f == HWLOC_TYPE_FILTER_KEEP_NONE)
      WFAIL(w, "filter.keep_none", "%s present although its type filter is KEEP_NONE", oname(o, a, sizeof a));
    (void)b;
  }
  if (!nnuma) WFAIL(w, "numa.none", "no NUMA node in the topology");
  if (!npu) WFAIL(w, "levels.no_pu", "no PU in the topology");

  /* 2. levels */
  if (w->fails <= 12) {
    unsigned count = 0;
    for (int d = 0; d < depth; d++) {
      hwloc_obj_type_t lt = hwloc_get_depth_type(t, d);
      if (tk_kind(lt) != TK_NORMAL) WFAIL(w, "levels.special_in_normal", "normal depth %d has type %d", d, (int)lt);
      if (d == 0 && lt != HWLOC_OBJ_MACHINE) WFAIL(w, "levels.machine_top", "depth 0 is %d", (int)lt);
      if (d > 0 && lt == HWLOC_OBJ_MACHINE) WFAIL(w, "levels.machine_top", "Machine level at depth %d", d);
      if (d == depth - 1 && lt != HWLOC_OBJ_PU) WFAIL(w, "levels.pu_deepest", "deepest level is %d", (int)lt);
      if (d < depth - 1 && lt == HWLOC_OBJ_PU) WFAIL(w, "levels.pu_deepest", "PU level at depth %d of %d", d, depth);
      wf_level(w, d, lt, 0, &count);
    }
    if (hwloc_get_nbobjs_by_depth(t, 0) != 1) WFAIL(w, "root.single_machine", "%u objects at depth 0", hwloc_get_nbobjs_by_depth(t, 0));
    static const struct { int d; hwloc_obj_type_t ty; } sl[] = {
      { HWLOC_TYPE_DEPTH_NUMANODE, HWLOC_OBJ_NUMANODE }, { HWLOC_TYPE_DEPTH_BRIDGE, HWLOC_OBJ_BRIDGE }, { HWLOC_TYPE_DEPTH_PCI_DEVICE, HWLOC_OBJ_PCI_DEVICE },
      { HWLOC_TYPE_DEPTH_OS_DEVICE, HWLOC_OBJ_OS_DEVICE }, { HWLOC_TYPE_DEPTH_MISC, HWLOC_OBJ_MISC }, { HWLOC_TYPE_DEPTH_MEMCACHE, HWLOC_OBJ_MEMCACHE } };
    for (unsigned k = 0; k < 6; k++) {
      wf_level(w, sl[k].d, sl[k].ty, 1, &count);
      if (hwloc_get_type_depth(t, sl[k].ty) != sl[k].d) WFAIL(w, "level.type_depth", "get_type_depth(%s) = %d", hwloc_obj_type_string(sl[k].ty), hwloc_get_type_depth(t, sl[k].ty));
    }
    if (count != vw->n) WFAIL(w, "level.count", "%u objects reachable from the root, %u through the levels", vw->n, count);
    /* every tree object is found at (depth, logical_index) */
    for (unsigned i = 0; i < vw->n && w->fails <= 12; i++) {
      hwloc_obj_t o = vw->v[i].o;
      if (hwloc_get_obj_by_depth(t, o->depth, o->logical_index) != o) WFAIL(w, "level.tree_obj_lookup", "%s is not get_obj_by_depth(depth, logical_index)", oname(o, a, sizeof a));
    }
    /* types without any object must say UNKNOWN */
    for (int ty = 0; ty < HWLOC_OBJ_TYPE_MAX; ty++) {
      if (tk_kind((hwloc_obj_type_t)ty) != TK_NORMAL) continue;
      int td = hwloc_get_type_depth(t, (hwloc_obj_type_t)ty), have = 0;
      for (int d = 0; d < depth; d++) if (hwloc_get_depth_type(t, d) == (hwloc_obj_type_t)ty) have++;
      if (!have && td != HWLOC_TYPE_DEPTH_UNKNOWN) WFAIL(w, "level.type_depth", "no %s level but get_type_depth says %d", hwloc_obj_type_string((hwloc_obj_type_t)ty), td);
      if (have == 1 && (td < 0 || hwloc_get_depth_type(t, td) != (hwloc_obj_type_t)ty)) WFAIL(w, "level.type_depth", "one %s level but get_type_depth says %d", hwloc_obj_type_string((hwloc_obj_type_t)ty), td);
    }
  }

  /* nodesets */
  if (w->fails <= 12) { vset inh; vs_zero(&inh); wf_nodesets(w, 0, &inh); }

  /* 5. topology-level sets */
  if (w->fails <= 12 && root->cpuset && root->nodeset) {
    vset ac, an, tc, tn, cc, cn;
    tv_observe(hwloc_topology_get_allowed_cpuset(t), &ac); tv_observe(hwloc_topology_get_allowed_nodeset(t), &an);
    tv_observe(hwloc_topology_get_topology_cpuset(t), &tc); tv_observe(hwloc_topology_get_topology_nodeset(t), &tn);
    tv_observe(hwloc_topology_get_complete_cpuset(t), &cc); tv_observe(hwloc_topology_get_complete_nodeset(t), &cn);
    struct tv_obj *r = &vw->v[0];
    if (!vs_isequal(&tc, &r->cs) || !vs_isequal(&tn, &r->ns) || !vs_isequal(&cc, &r->ccs) || !vs_isequal(&cn, &r->cns))
      WFAIL(w, "topology_sets.root", "hwloc_topology_get_{topology,complete}_{cpuset,nodeset} differ from the root object's sets");
    unsigned long fl = hwloc_topology_get_flags(t);
    if (!vs_isincluded(&ac, &r->cs)) WFAIL(w, "allowed.cpuset_in_root", "allowed cpuset {%s} not in root cpuset {%s}", vs_str(&ac, s1, sizeof s1), vs_str(&r->cs, s2, sizeof s2));
    if (!vs_isincluded(&an, &r->ns)) WFAIL(w, "allowed.nodeset_in_root", "allowed nodeset {%s} not in root nodeset {%s}", vs_str(&an, s1, sizeof s1), vs_str(&r->ns, s2, sizeof s2));
    if (!(fl & HWLOC_TOPOLOGY_FLAG_INCLUDE_DISALLOWED)) {
      if (!vs_isequal(&ac, &r->cs)) WFAIL(w, "allowed.cpuset_equal", "allowed cpuset {%s} != root cpuset {%s} without INCLUDE_DISALLOWED", vs_str(&ac, s1, sizeof s1), vs_str(&r->cs, s2, sizeof s2));
      if (!vs_isequal(&an, &r->ns)) WFAIL(w, "allowed.nodeset_equal", "allowed nodeset {%s} != root nodeset {%s} without INCLUDE_DISALLOWED", vs_str(&an, s1, sizeof s1), vs_str(&r->ns, s2, sizeof s2));
    }
  }

  /* 6. uniqueness */
  if (w->fails <= 12) {
    uint64_t *gp = malloc(vw->n * sizeof *gp), *pu = malloc((vw->n + 1) * sizeof *pu), *nu = malloc((vw->n + 1) * sizeof *nu);
    unsigned np = 0, nn = 0;
    for (unsigned i = 0; i < vw->n; i++) {
      gp[i] = vw->v[i].o->gp_index;
      if (vw->v[i].o->type == HWLOC_OBJ_PU) pu[np++] = vw->v[i].o->os_index;
      if (vw->v[i].o->type == HWLOC_OBJ_NUMANODE) nu[nn++] = vw->v[i].o->os_index;
    }
    qsort(gp, vw->n, sizeof *gp, cmp_u64); qsort(pu, np, sizeof *pu, cmp_u64); qsort(nu, nn, sizeof *nu, cmp_u64);
    for (unsigned i = 1; i < vw->n; i++) if (gp[i] == gp[i - 1]) { WFAIL(w, "unique.gp_index", "gp_index %llu used twice", (unsigned long long)gp[i]); break; }
    for (unsigned i = 1; i < np; i++) if (pu[i] == pu[i - 1]) { WFAIL(w, "unique.pu_os_index", "PU os_index %llu used twice", (unsigned long long)pu[i]); break; }
    for (unsigned i = 1; i < nn; i++) if (nu[i] == nu[i - 1]) { WFAIL(w, "unique.numa_os_index", "NUMA os_index %llu used twice", (unsigned long long)nu[i]); break; }
    free(gp); free(pu); free(nu);
  }
  tv_view_free(&w->vw);
  if (!w->fails) hv_stat("wf.clean", 1);
  return w->fails;
}

void wf_builtin(hwloc_topology_t t, const char *ctx)
{
  hv_ctxkey("builtin_check:%s", ctx ? ctx : "");
  hwloc_topology_check(t);
  hv_ctxkey("%s", "");
  hv_stat("wf.builtin_checks", 1);
}
