/* Generators: configurations (filters + flags), synthetic descriptions, loading helpers, corpus. */
#include "topo.h"
#include <dirent.h>
#include <sys/stat.h>

/* ------------------------------------------------------------------ configurations */
void tg_config_default(struct tg_config *c)
{
  for (int i = 0; i < TG_NTYPES; i++) c->filter[i] = -1;
  c->flags = 0; c->corner = 0;
}

static int filter_legal(int type, int f)
{
  if (type == HWLOC_OBJ_PU || type == HWLOC_OBJ_NUMANODE || type == HWLOC_OBJ_MACHINE) return f == HWLOC_TYPE_FILTER_KEEP_ALL;
  if (type >= HWLOC_OBJ_BRIDGE) return f != HWLOC_TYPE_FILTER_KEEP_STRUCTURE;   /* I/O, Misc */
  if (type == HWLOC_OBJ_GROUP) return f != HWLOC_TYPE_FILTER_KEEP_ALL && f != HWLOC_TYPE_FILTER_KEEP_IMPORTANT;
  return 1;
}

void tg_config_random(struct hv_rng *r, struct tg_config *c, int thissystem_source)
{
  tg_config_default(c);
  unsigned corner = (unsigned)hv_below(r, 10);
  c->corner = (int)corner;
  for (int t = 0; t < TG_NTYPES; t++) {
    int f = -1;
    switch (corner) {
    case 0: break;                                   /* library defaults */
    case 1: f = HWLOC_TYPE_FILTER_KEEP_ALL; break;
    case 2: f = HWLOC_TYPE_FILTER_KEEP_NONE; break;
    case 3: f = HWLOC_TYPE_FILTER_KEEP_STRUCTURE; break;
    case 4: f = HWLOC_TYPE_FILTER_KEEP_IMPORTANT; break;
    default: f = hv_chance(r, 1, 4) ? -1 : (int)hv_below(r, 4); break;
    }
    if (f >= 0 && !filter_legal(t, f)) {
      /* corner vectors fall back to the closest legal value */
      if (t == HWLOC_OBJ_GROUP) f = HWLOC_TYPE_FILTER_KEEP_STRUCTURE;
      else if (t == HWLOC_OBJ_PU || t == HWLOC_OBJ_NUMANODE || t == HWLOC_OBJ_MACHINE) f = -1;
      else f = HWLOC_TYPE_FILTER_KEEP_ALL;
    }
    c->filter[t] = f;
  }
  unsigned long fl = 0;
  if (hv_chance(r, 1, 3)) fl |= HWLOC_TOPOLOGY_FLAG_INCLUDE_DISALLOWED;
  if (hv_chance(r, 1, 6)) fl |= HWLOC_TOPOLOGY_FLAG_NO_DISTANCES;
  if (hv_chance(r, 1, 6)) fl |= HWLOC_TOPOLOGY_FLAG_NO_MEMATTRS;
  if (hv_chance(r, 1, 6)) fl |= HWLOC_TOPOLOGY_FLAG_NO_CPUKINDS;
  if (hv_chance(r, 1, 5)) fl |= HWLOC_TOPOLOGY_FLAG_IMPORT_SUPPORT;
  if (hv_chance(r, 1, 6)) fl |= HWLOC_TOPOLOGY_FLAG_DONT_CHANGE_BINDING;
  if (thissystem_source ? hv_chance(r, 1, 3) : hv_chance(r, 1, 10)) {
    fl |= HWLOC_TOPOLOGY_FLAG_IS_THISSYSTEM;
    if (hv_chance(r, 1, 3)) fl |= HWLOC_TOPOLOGY_FLAG_THISSYSTEM_ALLOWED_RESOURCES;
    if (hv_chance(r, 1, 4)) fl |= HWLOC_TOPOLOGY_FLAG_RESTRICT_TO_CPUBINDING;
    if (hv_chance(r, 1, 4)) fl |= HWLOC_TOPOLOGY_FLAG_RESTRICT_TO_MEMBINDING;
  } else if (hv_chance(r, 1, 8)) fl |= HWLOC_TOPOLOGY_FLAG_THISSYSTEM_ALLOWED_RESOURCES;
  c->flags = fl;
}

int tg_config_apply(hwloc_topology_t t, const struct tg_config *c)
{
  int bad = 0;
  for (int ty = 0; ty < TG_NTYPES; ty++)
    if (c->filter[ty] >= 0 && hwloc_topology_set_type_filter(t, (hwloc_obj_type_t)ty, (enum hwloc_type_filter_e)c->filter[ty]) < 0) bad++;
  if (hwloc_topology_set_flags(t, c->flags) < 0) bad++;
  return bad;
}

uint64_t tg_config_hash(const struct tg_config *c)
{
  uint64_t h = hv_hash_u64(c->flags, 17);
  for (int i = 0; i < TG_NTYPES; i++) h = hv_hash_u64((uint64_t)(c->filter[i] + 1), h);
  return h;
}

void tg_config_str(const struct tg_config *c, struct hv_str *out)
{
  hv_str_add(out, "flags=%#lx filters=", c->flags);
  for (int i = 0; i < TG_NTYPES; i++) hv_str_add(out, "%c", c->filter[i] < 0 ? '-' : (char)('0' + c->filter[i]));
}

/* ------------------------------------------------------------------ synthetic */
void tg_synth_opts_default(struct tg_synth_opts *o)
{
  o->max_pus = 256; o->max_levels = 7; o->allow_attached = 1; o->allow_indexes = 1; o->allow_sizes = 1;
}

struct slevel { const char *name; int group; int isnuma; unsigned arity; unsigned long width; };

static const char *pick_name(struct hv_rng *r, const char *const *v, unsigned n) { return v[hv_below(r, n)]; }

static void memsize(struct hv_rng *r, struct hv_str *out, const char *key)
{
  static const char *unit[] = { "", "kB", "KiB", "MB", "MiB", "GB", "GiB" };
  unsigned u = (unsigned)hv_below(r, 7);
  unsigned long v = 1 + (unsigned long)hv_below(r, u == 0 ? 1u << 26 : u < 3 ? 100000 : u < 5 ? 4096 : 64);
  hv_str_add(out, "%s=%lu%s", key, v, unit[u]);
}

static void perm_indexes(struct hv_rng *r, struct hv_str *out, unsigned long total)
{
  unsigned *p = malloc(total * sizeof *p);
  for (unsigned long i = 0; i < total; i++) p[i] = (unsigned)i;
  for (unsigned long i = total - 1; i > 0; i--) { unsigned long j = hv_below(r, i + 1); unsigned t = p[i]; p[i] = p[j]; p[j] = t; }
  hv_str_add(out, "indexes=");
  for (unsigned long i = 0; i < total; i++) hv_str_add(out, "%s%u", i ? "," : "", p[i]);
  free(p);
}

uint64_t tg_synth_random(struct hv_rng *r, const struct tg_synth_opts *o, struct hv_str *out)
{
  static const char *const n_pack[] = { "Package", "pack", "package", "pa" };
  static const char *const n_die[] = { "Die", "die" };
  static const char *const n_core[] = { "Core", "core", "co" };
  static const char *const n_pu[] = { "PU", "pu", "Pu" };
  static const char *const n_numa[] = { "NUMANode", "numa", "node", "NUMA" };
  static const char *const n_group[] = { "Group", "group", "gr" };
  static const char *const n_l3[] = { "L3Cache", "l3", "L3", "l3u" };
  static const char *const n_l2[] = { "L2Cache", "l2", "L2", "l2u" };
  static const char *const n_l1[] = { "L1dCache", "l1", "L1d", "l1d", "L1Cache" };
  static const char *const n_l1i[] = { "L1iCache", "l1i", "L1i" };
  static const char *const n_l4[] = { "L4Cache", "l4" };
  static const char *const n_l2i[] = { "L2iCache", "l2i" };
  struct slevel lv[40]; unsigned nl = 0;
  uint64_t shape = 5;
  int typed = !hv_chance(r, 1, 6);
  int numa_level = 0, attached_any = 0;
  unsigned maxl = (unsigned)o->max_levels;

  if (typed) {
    /* canonical nesting order with random omissions; sometimes an unusual order */
    int want_numa_level = hv_chance(r, 1, 3);
#define ADD(namev, grp, isn) do { if (nl < maxl - 1) { lv[nl].name = pick_name(r, namev, sizeof namev / sizeof *namev); lv[nl].group = grp; lv[nl].isnuma = isn; nl++; } } while (0)
    if (hv_chance(r, 1, 4)) ADD(n_group, 1, 0);
    if (want_numa_level && hv_chance(r, 1, 3)) { ADD(n_numa, 0, 1); numa_level = 1; }
    if (hv_chance(r, 3, 4)) ADD(n_pack, 0, 0);
    if (hv_chance(r, 1, 5)) ADD(n_group, 1, 0);
    if (want_numa_level && !numa_level && hv_chance(r, 1, 2)) { ADD(n_numa, 0, 1); numa_level = 1; }
    if (hv_chance(r, 1, 4)) ADD(n_die, 0, 0);
    if (want_numa_level && !numa_level) { ADD(n_numa, 0, 1); numa_level = 1; }
    if (hv_chance(r, 1, 8)) ADD(n_l4, 0, 0);
    if (hv_chance(r, 1, 2)) ADD(n_l3, 0, 0);
    if (hv_chance(r, 1, 6)) ADD(n_group, 1, 0);
    if (hv_chance(r, 1, 2)) ADD(n_l2, 0, 0);
    if (hv_chance(r, 1, 10)) ADD(n_l2i, 0, 0);
    if (hv_chance(r, 1, 3)) ADD(n_l1, 0, 0);
    if (hv_chance(r, 1, 4)) ADD(n_l1i, 0, 0);
    if (hv_chance(r, 3, 4)) ADD(n_core, 0, 0);
#undef ADD
    if (nl > 1 && hv_chance(r, 1, 12)) { /* unusual order: swap two adjacent levels */
      unsigned i = (unsigned)hv_below(r, nl - 1); struct slevel t = lv[i]; lv[i] = lv[i + 1]; lv[i + 1] = t;
      shape = hv_hash_u64(0xabc, shape);
    }
    lv[nl].name = hv_chance(r, 1, 8) ? "" : pick_name(r, n_pu, 3); lv[nl].group = 0; lv[nl].isnuma = 0; nl++;
  } else {
    nl = 1 + (unsigned)hv_below(r, maxl < 9 ? maxl : 9);
    for (unsigned i = 0; i < nl; i++) { lv[i].name = ""; lv[i].group = 0; lv[i].isnuma = 0; }
  }
  /* arities under the PU budget */
  unsigned long width = 1;
  for (unsigned i = 0; i < nl; i++) {
    unsigned long room = (unsigned long)o->max_pus / width;
    unsigned a = 1;
    if (room >= 2) {
      unsigned cap = room > 8 ? 8 : (unsigned)room;
      switch (hv_below(r, 6)) { case 0: a = 1; break; case 1: case 2: a = 2; break; case 3: a = 1 + (unsigned)hv_below(r, cap); break; case 4: a = cap >= 4 ? 4 : cap; break; default: a = 1 + (unsigned)hv_below(r, cap > 3 ? 3 : cap); }
      if (a > cap) a = cap;
    }
    lv[i].arity = a; width *= a; lv[i].width = width;
    shape = hv_hash_u64(((uint64_t)a << 8) | (uint64_t)(lv[i].name[0] ? (unsigned char)lv[i].name[0] | 0x20 : 0) | (uint64_t)lv[i].group << 20 | (uint64_t)lv[i].isnuma << 21, shape);
  }
  /* root attributes */
  if (o->allow_sizes && hv_chance(r, 1, 12)) { hv_str_add(out, "("); memsize(r, out, "memory"); hv_str_add(out, ")"); }
  unsigned long prev_width = 1, numa_total = 0;
  for (unsigned i = 0; i < nl; i++) {
    /* NUMA nodes attached to the objects of the previous level (Machine for i == 0) */
    if (o->allow_attached && !numa_level && typed && hv_chance(r, 1, attached_any ? 4 : 3)) {
      unsigned k = 1 + (unsigned)hv_below(r, hv_chance(r, 1, 4) ? 3 : 1);
      if (numa_total + k * prev_width > 512) k = 0;      /* keep NUMA os_index values inside the SET window */
      numa_total += k * prev_width;
      for (unsigned q = 0; q < k; q++) {
        hv_str_add(out, "%s[%s", out->len ? " " : "", pick_name(r, n_numa, 4));
        int attrs = 0;
        if (o->allow_sizes && hv_chance(r, 1, 3)) { hv_str_add(out, "("); memsize(r, out, "memory"); attrs = 1; }
        if (o->allow_sizes && hv_chance(r, 1, 5)) { hv_str_add(out, attrs ? " " : "("); memsize(r, out, "memorysidecachesize"); attrs = 1; }
        if (attrs) hv_str_add(out, ")");
        hv_str_add(out, "]");
        shape = hv_hash_u64(0x100 + i, shape);
      }
      attached_any = 1;
    }
    hv_str_add(out, "%s", out->len ? (hv_chance(r, 1, 10) ? "  " : " ") : "");
    if (lv[i].name[0]) hv_str_add(out, "%s:", lv[i].name);
    hv_str_add(out, "%u", lv[i].arity);
    /* attributes */
    int open = 0;
    int is_last = i == nl - 1;
    int is_cache = lv[i].name[0] && (lv[i].name[0] == 'L' || lv[i].name[0] == 'l');
    if (o->allow_sizes && typed && is_cache && hv_chance(r, 1, 3)) { hv_str_add(out, "("); memsize(r, out, "size"); open = 1; }
    if (o->allow_sizes && lv[i].isnuma && hv_chance(r, 1, 2)) { hv_str_add(out, open ? " " : "("); memsize(r, out, "memory"); open = 1;
      if (hv_chance(r, 1, 4)) { hv_str_add(out, " "); memsize(r, out, "memorysidecachesize"); } }
    if (o->allow_indexes && typed && (is_last || lv[i].isnuma || hv_chance(r, 1, 10)) && hv_chance(r, 1, 4)) {
      hv_str_add(out, open ? " " : "("); open = 1;
      if (lv[i].width <= 64 && hv_chance(r, 1, 2)) perm_indexes(r, out, lv[i].width);
      else if (i > 0) {
        /* interleave by one or two typed ancestor levels */
        unsigned a = (unsigned)hv_below(r, i), b = (unsigned)hv_below(r, i);
        hv_str_add(out, "indexes=");
        if (lv[a].name[0]) hv_str_add(out, "%s", lv[a].name); else hv_str_add(out, "%lu*%u", lv[i].width / lv[a].width, lv[a].arity);
        if (b != a && lv[a].name[0] && lv[b].name[0] && hv_chance(r, 1, 2)) hv_str_add(out, ":%s", lv[b].name);
      } else perm_indexes(r, out, lv[i].width <= 64 ? lv[i].width : 1);
      shape = hv_hash_u64(0x200 + i, shape);
    }
    if (open) hv_str_add(out, ")");
    prev_width = lv[i].width;
  }
  (void)prev_width;
  return shape;
}

/* ------------------------------------------------------------------ loading */
static hwloc_topology_t finish_load(hwloc_topology_t t, const struct tg_config *c, int setrc, int *stage)
{
  if (setrc < 0) { *stage = 1; hwloc_topology_destroy(t); return NULL; }
  if (c && tg_config_apply(t, c)) { *stage = 2; hwloc_topology_destroy(t); return NULL; }
  if (hwloc_topology_load(t) < 0) { *stage = 3; hwloc_topology_destroy(t); return NULL; }
  *stage = 0;
  return t;
}
hwloc_topology_t tl_load_synthetic(const char *desc, const struct tg_config *c, int *stage)
{
  hwloc_topology_t t; int st;
  if (!stage) stage = &st;
  if (hwloc_topology_init(&t) < 0) hv_fail("topology_init failed");
  return finish_load(t, c, hwloc_topology_set_synthetic(t, desc), stage);
}
hwloc_topology_t tl_load_xmlbuffer(const char *buf, size_t len, const struct tg_config *c, int *stage)
{
  hwloc_topology_t t; int st;
  if (!stage) stage = &st;
  if (hwloc_topology_init(&t) < 0) hv_fail("topology_init failed");
  return finish_load(t, c, hwloc_topology_set_xmlbuffer(t, buf, (int)len), stage);
}
hwloc_topology_t tl_load_xmlfile(const char *path, const struct tg_config *c, int *stage)
{
  hwloc_topology_t t; int st;
  if (!stage) stage = &st;
  if (hwloc_topology_init(&t) < 0) hv_fail("topology_init failed");
  return finish_load(t, c, hwloc_topology_set_xml(t, path), stage);
}

char *tl_read_file(const char *path, size_t *lenp)
{
  FILE *f = fopen(path, "rb");
  if (!f) return NULL;
  fseek(f, 0, SEEK_END); long n = ftell(f); fseek(f, 0, SEEK_SET);
  char *b = malloc((size_t)n + 1);
  if (fread(b, 1, (size_t)n, f) != (size_t)n) { fclose(f); free(b); return NULL; }
  fclose(f); b[n] = 0; if (lenp) *lenp = (size_t)n;
  return b;
}

static int cmp_str(const void *a, const void *b) { return strcmp(*(const char *const *)a, *(const char *const *)b); }
static void scan_dir(const char *dir, const char *suffix, const char ***v, unsigned *n, unsigned *cap)
{
  DIR *d = opendir(dir);
  if (!d) return;
  struct dirent *e;
  while ((e = readdir(d)) != NULL) {
    size_t l = strlen(e->d_name), sl = strlen(suffix);
    if (l <= sl || strcmp(e->d_name + l - sl, suffix)) continue;
    if (*n == *cap) { *cap = *cap ? *cap * 2 : 64; *v = realloc(*v, *cap * sizeof **v); }
    char p[4096]; snprintf(p, sizeof p, "%s/%s", dir, e->d_name);
    (*v)[(*n)++] = strdup(p);
  }
  closedir(d);
}
/* hand-written regression witnesses of /verif/corpus/<sub> (sorted); they are run unmutated at the first case indexes of a check */
unsigned tl_witness(const char *sub, const char *suffix, const char ***pathsp)
{
  const char **v = NULL; unsigned n = 0, cap = 0; char p[4096];
  const char *vr = getenv("VERIF_ROOT");
  snprintf(p, sizeof p, "%s/corpus/%s", vr ? vr : "/verif", sub); scan_dir(p, suffix, &v, &n, &cap);
  if (n) qsort(v, n, sizeof *v, cmp_str);
  *pathsp = v;
  return n;
}
unsigned tl_corpus(const char ***pathsp)
{
  static const char **v; static unsigned n, cap;
  if (!v) {
    char p[4096];
    snprintf(p, sizeof p, "%s/tests/hwloc/xml", HV.repo); scan_dir(p, ".xml", &v, &n, &cap);
    snprintf(p, sizeof p, "%s/tests/hwloc/linux", HV.repo); scan_dir(p, ".xml", &v, &n, &cap);
    snprintf(p, sizeof p, "%s/tests/hwloc/x86+linux", HV.repo); scan_dir(p, ".xml", &v, &n, &cap);
    const char *vr = getenv("VERIF_ROOT");
    snprintf(p, sizeof p, "%s/corpus", vr ? vr : "/verif"); scan_dir(p, ".xml", &v, &n, &cap);
    qsort(v, n, sizeof *v, cmp_str);
  }
  *pathsp = v;
  return n;
}

/* a normal object with neither a PU nor a NUMA node below it: every discovery removes such objects (remove_empty), so no reload gives them
 * back; hwloc_topology_restrict() by nodeset can leave some behind (open finding, first seen by C05) */
int tv_has_empty_normal_object(hwloc_topology_t t)
{
  int td = hwloc_topology_get_depth(t);
  for (int d = 1; d < td; d++) for (hwloc_obj_t o = NULL; (o = hwloc_get_next_obj_by_depth(t, d, o)) != NULL; ) {
    if (!hwloc_bitmap_iszero(o->cpuset)) continue;
    int mem = 0; for (hwloc_obj_t n = NULL; !mem && (n = hwloc_get_next_obj_by_type(t, HWLOC_OBJ_NUMANODE, n)) != NULL; ) for (hwloc_obj_t a = n->parent; a; a = a->parent) if (a == o) { mem = 1; break; }
    if (!mem) return 1; }
  return 0;
}
