#ifndef HV_SNAP_H
#define HV_SNAP_H
#include "hv.h"
struct snap { char kind; /* 'l' linux fsroot, 'x' x86 cpuid dump, 'b' both */ char name[160]; char fsroot[2048]; char cpuid[2048]; };
unsigned snap_list(struct snap **lp);
/* number of component-selection variants that apply to this snapshot */
unsigned snap_nvariants(const struct snap *s);
/* set the environment for one load; returns a static description. testenv: bit mask of optional knobs */
const char *snap_setenv(const struct snap *s, unsigned variant, unsigned testenv);
void snap_clearenv(void);
#endif
