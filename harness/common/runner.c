/* Worker runner: case isolation by fork, per-case CPU limit, crash attribution,
 * shared-memory statistics and distinct-shape sets, JSONL output. */
#include "hv.h"
#include <unistd.h>
#include <fcntl.h>
#include <signal.h>
#include <time.h>
#include <sys/mman.h>
#include <sys/wait.h>
#include <sys/time.h>
#include <sys/stat.h>
#include <sys/resource.h>

#if defined(__SANITIZE_ADDRESS__)
extern int __lsan_do_recoverable_leak_check(void);
#define HV_HAVE_LSAN 1
#endif

#define DESC_MAX (1u << 20)
#define NSTAT 1024
#define DCAP (1u << 21)
#define MAX_VIOL_PER_CASE 4
#define MAX_SAMPLES 4

struct hv_shm {
  volatile uint64_t cur_case;
  volatile uint64_t next_case;
  volatile int running;
  volatile int nviol_case;
  volatile uint64_t nsamples;
  volatile size_t desc_len;
  char ctxkey[256];
  int nstats;
  struct { char name[72]; uint64_t v; int ismax; } stats[NSTAT];
  uint64_t dn;
  struct { uint64_t cls, h; } dset[DCAP];
  char desc[DESC_MAX];
};

struct hv_ctx HV;
#include <pthread.h>
/* the reporting API may be called from harness threads (C17): one recursive lock around every entry point that touches shared state */
static pthread_mutex_t hv_mx = PTHREAD_RECURSIVE_MUTEX_INITIALIZER_NP;
#define hv_lock() pthread_mutex_lock(&hv_mx)
#define hv_unlock() pthread_mutex_unlock(&hv_mx)
static struct hv_shm *S;
static int out_fd = -1, err_fd = -1;
static char err_path[4096];
static unsigned wall_limit_s = 300;

/* ------------------------------------------------------------------ prng */
uint64_t hv_splitmix(uint64_t *x)
{
  uint64_t z = (*x += 0x9e3779b97f4a7c15ULL);
  z = (z ^ (z >> 30)) * 0xbf58476d1ce4e5b9ULL;
  z = (z ^ (z >> 27)) * 0x94d049bb133111ebULL;
  return z ^ (z >> 31);
}
uint64_t hv_hash_bytes(const void *p, size_t n, uint64_t h)
{
  const unsigned char *c = p;
  h ^= 0xcbf29ce484222325ULL;
  for (size_t i = 0; i < n; i++) { h ^= c[i]; h *= 0x100000001b3ULL; }
  h ^= h >> 29; h *= 0xbf58476d1ce4e5b9ULL; h ^= h >> 32;
  return h;
}
void hv_rng_seed(struct hv_rng *r, uint64_t seed, const char *stream, uint64_t index)
{
  uint64_t x = seed * 0x9e3779b97f4a7c15ULL ^ hv_hash_str(stream, 0) ^ (index * 0xd1342543de82ef95ULL + 1);
  for (int i = 0; i < 4; i++) r->s[i] = hv_splitmix(&x);
}
static inline uint64_t rotl(uint64_t x, int k) { return (x << k) | (x >> (64 - k)); }
uint64_t hv_rand(struct hv_rng *r)
{
  uint64_t *s = r->s, result = rotl(s[1] * 5, 7) * 9, t = s[1] << 17;
  s[2] ^= s[0]; s[3] ^= s[1]; s[1] ^= s[2]; s[0] ^= s[3]; s[2] ^= t; s[3] = rotl(s[3], 45);
  return result;
}

/* ------------------------------------------------------------------ strings */
void hv_str_init(struct hv_str *b) { b->cap = 256; b->len = 0; b->s = malloc(b->cap); b->s[0] = 0; }
void hv_str_free(struct hv_str *b) { free(b->s); b->s = NULL; b->len = b->cap = 0; }
void hv_str_reset(struct hv_str *b) { b->len = 0; b->s[0] = 0; }
static void str_need(struct hv_str *b, size_t n)
{
  if (b->len + n + 1 > b->cap) {
    while (b->len + n + 1 > b->cap) b->cap *= 2;
    b->s = realloc(b->s, b->cap);
    if (!b->s) hv_fail("out of memory");
  }
}
void hv_str_addn(struct hv_str *b, const char *p, size_t n)
{
  str_need(b, n); memcpy(b->s + b->len, p, n); b->len += n; b->s[b->len] = 0;
}
void hv_str_add(struct hv_str *b, const char *fmt, ...)
{
  va_list ap; char tmp[512];
  va_start(ap, fmt);
  int n = vsnprintf(tmp, sizeof tmp, fmt, ap);
  va_end(ap);
  if (n < 0) return;
  if ((size_t)n < sizeof tmp) { hv_str_addn(b, tmp, (size_t)n); return; }
  str_need(b, (size_t)n);
  va_start(ap, fmt);
  vsnprintf(b->s + b->len, (size_t)n + 1, fmt, ap);
  va_end(ap);
  b->len += (size_t)n;
}
char *hv_exact_dup(const char *s, size_t len)
{
  char *p = malloc(len ? len : 1);
  if (!p) hv_fail("out of memory");
  memcpy(p, s, len);
  return p;
}

/* ------------------------------------------------------------------ JSON output */
static void json_escape(struct hv_str *b, const char *s, size_t n)
{
  for (size_t i = 0; i < n; i++) {
    unsigned char c = (unsigned char)s[i];
    if (c == '"' || c == '\\') { char t[2] = { '\\', (char)c }; hv_str_addn(b, t, 2); }
    else if (c == '\n') hv_str_addn(b, "\\n", 2);
    else if (c == '\t') hv_str_addn(b, "\\t", 2);
    else if (c < 0x20 || c >= 0x7f) hv_str_add(b, "\\u%04x", c);
    else hv_str_addn(b, (char *)&c, 1);
  }
}
static void emit(struct hv_str *b)
{
  hv_str_addn(b, "\n", 1);
  ssize_t w = write(out_fd, b->s, b->len);
  (void)w;
  if (HV.verbose) fputs(b->s, stdout), fflush(stdout);
}
static void add_desc(struct hv_str *b, size_t maxn)
{
  size_t n = S->desc_len;
  hv_str_add(b, ",\"desc\":\"");
  if (n <= maxn) json_escape(b, S->desc, n);
  else { json_escape(b, S->desc, maxn / 2); hv_str_add(b, " ...[cut]... "); json_escape(b, S->desc + n - maxn / 2, maxn / 2); }
  hv_str_add(b, "\"");
}

void hv_viol(const char *key, const char *fmt, ...)
{
  char detail[4096]; va_list ap;
  va_start(ap, fmt); vsnprintf(detail, sizeof detail, fmt, ap); va_end(ap);
  hv_lock();
  S->nviol_case++;
  hv_stat("oracle_violations", 1);
  if (S->nviol_case > MAX_VIOL_PER_CASE) { hv_unlock(); return; }
  struct hv_str b; hv_str_init(&b);
  hv_str_add(&b, "{\"t\":\"viol\",\"case\":%llu,\"key\":\"", (unsigned long long)S->cur_case);
  json_escape(&b, key, strlen(key));
  hv_str_add(&b, "\",\"detail\":\"");
  json_escape(&b, detail, strlen(detail));
  hv_str_add(&b, "\"");
  add_desc(&b, 24000);
  hv_str_add(&b, "}");
  emit(&b); hv_str_free(&b);
  hv_unlock();
}
int hv_viol_count(void) { hv_lock(); int n = S->nviol_case; hv_unlock(); return n; }

void hv_fail(const char *fmt, ...)
{
  char detail[2048]; va_list ap;
  va_start(ap, fmt); vsnprintf(detail, sizeof detail, fmt, ap); va_end(ap);
  if (out_fd >= 0 && S) {
    struct hv_str b; hv_str_init(&b);
    hv_str_add(&b, "{\"t\":\"harness\",\"case\":%llu,\"msg\":\"", (unsigned long long)S->cur_case);
    json_escape(&b, detail, strlen(detail));
    hv_str_add(&b, "\"}");
    emit(&b);
  }
  fprintf(stderr, "HARNESS FAILURE: %s\n", detail);
  _exit(97);
}

static int stat_slot(const char *name, int ismax)
{
  /* pointer-keyed cache in front of the by-name table (names are usually literals) */
  static struct { const char *p; int slot; } cache[512];
  unsigned c = (unsigned)(((uintptr_t)name >> 3) * 2654435761u) & 511;
  if (cache[c].p == name && cache[c].slot < S->nstats && !strcmp(S->stats[cache[c].slot].name, name))
    return cache[c].slot;
  int i;
  for (i = 0; i < S->nstats; i++)
    if (!strcmp(S->stats[i].name, name)) break;
  if (i == S->nstats) {
    if (S->nstats >= NSTAT) return -1;
    snprintf(S->stats[i].name, sizeof S->stats[i].name, "%s", name);
    S->stats[i].v = 0; S->stats[i].ismax = ismax;
    S->nstats = i + 1;
  }
  cache[c].p = name; cache[c].slot = i;
  return i;
}
void hv_stat(const char *name, uint64_t add) { hv_lock(); int i = stat_slot(name, 0); if (i >= 0) S->stats[i].v += add; hv_unlock(); }
void hv_max(const char *name, uint64_t v) { hv_lock(); int i = stat_slot(name, 1); if (i >= 0 && S->stats[i].v < v) S->stats[i].v = v; hv_unlock(); }

void hv_distinct(uint64_t cls, uint64_t h)
{
  if (!h) h = 1;
  uint64_t k = hv_hash_u64(cls, h) & (DCAP - 1);
  hv_lock();
  for (unsigned probe = 0; probe < 64; probe++, k = (k + 1) & (DCAP - 1)) {
    if (S->dset[k].h == 0) {
      if (S->dn >= DCAP / 2) break;
      S->dset[k].cls = cls; S->dset[k].h = h; S->dn++;
      break;
    }
    if (S->dset[k].h == h && S->dset[k].cls == cls) break;
  }
  hv_unlock();
}

void hv_sample(const char *fmt, ...)
{
  hv_lock();
  if (S->nsamples >= MAX_SAMPLES) { hv_unlock(); return; }
  S->nsamples++;
  hv_unlock();
  char detail[2048]; va_list ap;
  va_start(ap, fmt); vsnprintf(detail, sizeof detail, fmt, ap); va_end(ap);
  struct hv_str b; hv_str_init(&b);
  hv_str_add(&b, "{\"t\":\"sample\",\"v\":\"");
  json_escape(&b, detail, strlen(detail));
  hv_str_add(&b, "\"}");
  emit(&b); hv_str_free(&b);
}

void hv_desc_reset(void) { S->desc_len = 0; S->desc[0] = 0; }
const char *hv_desc_get(void) { return S->desc; }
void hv_desc(const char *fmt, ...)
{
  va_list ap;
  hv_lock();
  size_t room = DESC_MAX - 1 - S->desc_len;
  if (room < 2) { hv_unlock(); return; }
  va_start(ap, fmt);
  int n = vsnprintf(S->desc + S->desc_len, room, fmt, ap);
  va_end(ap);
  if (n < 0) { hv_unlock(); return; }
  S->desc_len += ((size_t)n < room) ? (size_t)n : room - 1;
  if (HV.verbose > 1) { fputs(S->desc + S->desc_len - (((size_t)n < room) ? (size_t)n : room - 1), stdout); fflush(stdout); }
  hv_unlock();
}
void hv_ctxkey(const char *fmt, ...)
{
  hv_lock();
  va_list ap; va_start(ap, fmt); vsnprintf(S->ctxkey, sizeof S->ctxkey, fmt, ap); va_end(ap);
  hv_unlock();
}

void hv_leak_check(void)
{
#ifdef HV_HAVE_LSAN
  if (__lsan_do_recoverable_leak_check()) {
    hv_stat("lsan_leak_reports", 1);
    _exit(95); /* parent attributes the LeakSanitizer text to the current case */
  }
#endif
}

/* ------------------------------------------------------------------ child side */
static void on_cpu_limit(int sig)
{
  (void)sig;
  _exit(98);
}
static void begin_case(uint64_t idx)
{
  S->cur_case = idx; S->nviol_case = 0; S->ctxkey[0] = 0;
  hv_desc_reset();
  off_t pos = lseek(err_fd, 0, SEEK_END);
  if (pos > 0) { if (ftruncate(err_fd, 0)) {} lseek(err_fd, 0, SEEK_SET); }
  static unsigned scale; if (!scale) { const char *e = getenv("VERIF_CPU_SCALE"); scale = e && atoi(e) > 0 ? (unsigned)atoi(e) : 1; }   /* valgrind stages run 20-50x slower */
  struct itimerval it = { {0, 0}, { (time_t)hv_cpu_limit_s * scale, 0 } };
  setitimer(ITIMER_PROF, &it, NULL);
  S->running = 1;
}
static void end_case(void)
{
  struct itimerval it = { {0, 0}, {0, 0} };
  setitimer(ITIMER_PROF, &it, NULL);
  S->running = 0;
  hv_stat("cases", 1);
}

static void child_main(uint64_t first, unsigned batch)
{
  struct rlimit rl = { 0, 0 };
  setrlimit(RLIMIT_CORE, &rl);
  signal(SIGPROF, on_cpu_limit);
  if (!HV.verbose) dup2(err_fd, 2);
  uint64_t idx = first;
  for (unsigned n = 0; n < batch && idx < HV.ncases; n++, idx += (uint64_t)HV.nworkers) {
    begin_case(idx);
    hv_case(idx);
    end_case();
    S->next_case = idx + (uint64_t)HV.nworkers;
  }
  fflush(stdout);
#ifdef HV_COV
  { extern void __gcov_dump(void); __gcov_dump(); }   /* children leave through _exit: flush the coverage counters (bin/covreport) */
#endif
  _exit(0);
}

/* ------------------------------------------------------------------ parent side */
static char *read_err(size_t *lenp)
{
  static char buf[20000];
  int fd = open(err_path, O_RDONLY);
  size_t n = 0;
  if (fd >= 0) {
    off_t sz = lseek(fd, 0, SEEK_END);
    lseek(fd, 0, SEEK_SET);
    if (sz <= (off_t)sizeof buf - 64) { ssize_t r = read(fd, buf, sizeof buf - 64); n = r > 0 ? (size_t)r : 0; }
    else {
      ssize_t r = read(fd, buf, 14000); n = r > 0 ? (size_t)r : 0;
      n += (size_t)snprintf(buf + n, 32, "\n...[cut]...\n");
      lseek(fd, sz - 4000, SEEK_SET);
      r = read(fd, buf + n, 4000); n += r > 0 ? (size_t)r : 0;
    }
    close(fd);
  }
  buf[n] = 0; *lenp = n;
  return buf;
}

static void record_abnormal(const char *t, int exitcode, int sig)
{
  size_t n; char *e = read_err(&n);
  struct hv_str b; hv_str_init(&b);
  hv_str_add(&b, "{\"t\":\"%s\",\"case\":%llu,\"exit\":%d,\"signal\":%d,\"in_case\":%d,\"ctx\":\"",
             t, (unsigned long long)S->cur_case, exitcode, sig, S->running);
  json_escape(&b, S->ctxkey, strlen(S->ctxkey));
  hv_str_add(&b, "\",\"stderr\":\"");
  json_escape(&b, e, n);
  hv_str_add(&b, "\"");
  add_desc(&b, 24000);
  hv_str_add(&b, "}");
  int v = HV.verbose; HV.verbose = 0;
  emit(&b);
  HV.verbose = v;
  if (v) printf("ABNORMAL %s case=%llu exit=%d signal=%d ctx=%s\n%s\n", t, (unsigned long long)S->cur_case, exitcode, sig, S->ctxkey, e);
  hv_str_free(&b);
}

static double now_s(void) { struct timespec ts; clock_gettime(CLOCK_MONOTONIC, &ts); return ts.tv_sec + ts.tv_nsec * 1e-9; }

static void run_from(uint64_t first, uint64_t limit_cases, unsigned batch)
{
  uint64_t idx = first;
  (void)limit_cases;
  while (idx < HV.ncases) {
    S->next_case = idx; S->running = 0; S->cur_case = idx;
    fflush(stdout);
    pid_t pid = fork();
    if (pid < 0) hv_fail("fork failed: %s", strerror(errno));
    if (pid == 0) child_main(idx, batch);
    int status = 0;
    uint64_t seen_case = S->cur_case; double seen_t = now_s();
    for (;;) {
      pid_t r = waitpid(pid, &status, WNOHANG);
      if (r == pid) break;
      if (r < 0 && errno != EINTR) hv_fail("waitpid: %s", strerror(errno));
      struct timespec ts = { 0, 500000 };
      nanosleep(&ts, NULL);
      if (S->cur_case != seen_case) { seen_case = S->cur_case; seen_t = now_s(); }
      else if (now_s() - seen_t > wall_limit_s) {
        kill(pid, SIGKILL); waitpid(pid, &status, 0);
        record_abnormal("timeout", -1, SIGKILL);
        status = -1;
        break;
      }
    }
    if (status == -1) { idx = S->cur_case + (uint64_t)HV.nworkers; continue; }
    if (WIFEXITED(status) && WEXITSTATUS(status) == 0 && !S->running && S->next_case > idx) { idx = S->next_case; continue; }
    int ec = WIFEXITED(status) ? WEXITSTATUS(status) : -1;
    int sg = WIFSIGNALED(status) ? WTERMSIG(status) : 0;
    if (ec == 97) { /* harness failure already recorded */ }
    else if (ec == 98) record_abnormal("hang", ec, sg);
    else record_abnormal("crash", ec, sg);
    /* the interrupted case does not count as completed; resume after it */
    idx = (S->running || S->next_case <= S->cur_case) ? S->cur_case + (uint64_t)HV.nworkers : S->next_case;
  }
}

static void dump_final(void)
{
  struct hv_str b; hv_str_init(&b);
  for (int pass = 0; pass < 2; pass++) {
    hv_str_reset(&b);
    hv_str_add(&b, "{\"t\":\"%s\",\"v\":{", pass ? "max" : "stats");
    int first = 1;
    for (int i = 0; i < S->nstats; i++) {
      if (S->stats[i].ismax != pass) continue;
      hv_str_add(&b, "%s\"", first ? "" : ",");
      json_escape(&b, S->stats[i].name, strlen(S->stats[i].name));
      hv_str_add(&b, "\":%llu", (unsigned long long)S->stats[i].v);
      first = 0;
    }
    hv_str_add(&b, "}}");
    emit(&b);
  }
  hv_str_free(&b);
  char p[4096];
  snprintf(p, sizeof p, "%s/w%d.distinct", HV.outdir, HV.worker);
  FILE *f = fopen(p, "wb");
  if (!f) hv_fail("cannot write %s", p);
  for (unsigned k = 0; k < DCAP; k++)
    if (S->dset[k].h) fwrite(&S->dset[k], 16, 1, f);
  fclose(f);
}

int main(int argc, char **argv)
{
  long only = -1;
  HV.tier = "quick"; HV.seed = 1; HV.ncases = 1; HV.worker = 0; HV.nworkers = 1; HV.outdir = ".";
  HV.repo = getenv("VERIF_REPO_ROOT") ? getenv("VERIF_REPO_ROOT") : "/repo";
  for (int i = 1; i < argc; i++) {
    const char *a = argv[i], *v = i + 1 < argc ? argv[i + 1] : NULL;
    if (!strcmp(a, "--verbose")) { HV.verbose = 2; continue; }
    if (!v) { fprintf(stderr, "missing value for %s\n", a); return 2; }
    if (!strcmp(a, "--seed")) HV.seed = strtoull(v, NULL, 0);
    else if (!strcmp(a, "--cases")) HV.ncases = strtoull(v, NULL, 0);
    else if (!strcmp(a, "--worker")) HV.worker = atoi(v);
    else if (!strcmp(a, "--nworkers")) HV.nworkers = atoi(v);
    else if (!strcmp(a, "--tier")) HV.tier = v;
    else if (!strcmp(a, "--out")) HV.outdir = v;
    else if (!strcmp(a, "--only")) only = atol(v);
    else if (!strcmp(a, "--mode")) HV.arg_mode = v;
    else if (!strcmp(a, "--data")) HV.arg_data = v;
    else if (!strcmp(a, "--wall")) wall_limit_s = (unsigned)atoi(v);
    else { fprintf(stderr, "unknown option %s\n", a); return 2; }
    i++;
  }
  HV.thorough = !strcmp(HV.tier, "thorough");
  S = mmap(NULL, sizeof *S, PROT_READ | PROT_WRITE, MAP_SHARED | MAP_ANONYMOUS, -1, 0);
  if (S == MAP_FAILED) { perror("mmap"); return 2; }
  char p[4096];
  if (only >= 0) {
    snprintf(p, sizeof p, "%s/only%ld.jsonl", HV.outdir, only);
    snprintf(err_path, sizeof err_path, "%s/only%ld.err", HV.outdir, only);
  } else {
    snprintf(p, sizeof p, "%s/w%d.jsonl", HV.outdir, HV.worker);
    snprintf(err_path, sizeof err_path, "%s/w%d.err", HV.outdir, HV.worker);
  }
  out_fd = open(p, O_WRONLY | O_CREAT | O_TRUNC | O_APPEND, 0644);
  err_fd = open(err_path, O_RDWR | O_CREAT | O_TRUNC | O_APPEND, 0644);
  if (out_fd < 0 || err_fd < 0) { perror("open output"); return 2; }
  setvbuf(stdout, NULL, _IOLBF, 0);
  hv_setup();
  if (only >= 0) {
    uint64_t n = HV.ncases;
    HV.ncases = (uint64_t)only + 1;
    (void)n;
    run_from((uint64_t)only, 1, 1);
  } else {
    run_from((uint64_t)HV.worker, HV.ncases, hv_batch ? hv_batch : 1);
  }
  dump_final();
  return 0;
}
