/* Shared declarations for the hwloc runtime-monitoring harnesses. */
#ifndef HV_H
#define HV_H
#include <stdint.h>
#include <stddef.h>
#include <stdio.h>
#include <stdlib.h>
#include <string.h>
#include <stdarg.h>
#include <errno.h>

/* ------------------------------------------------------------------ runner */
struct hv_ctx {
  const char *tier;       /* "quick" | "thorough" */
  int thorough;
  uint64_t seed;          /* VERIF_SEED */
  uint64_t ncases;
  int worker, nworkers;
  const char *outdir;
  int verbose;            /* --only/--replay mode: print everything */
  const char *repo;       /* repository root */
  const char *arg_mode;   /* --mode <x> (harness specific) */
  const char *arg_data;   /* --data <dir> (harness specific, e.g. snapshot dir) */
};
extern struct hv_ctx HV;

/* provided by each harness */
extern const char *hv_property;       /* "C03" */
extern unsigned hv_batch;             /* cases per forked child (1 = one process per case) */
extern unsigned hv_cpu_limit_s;       /* CPU seconds per case before "hang" */
void hv_setup(void);                  /* once in the worker parent, before any fork */
void hv_case(uint64_t index);         /* in the forked child */

/* reporting (child side) */
void hv_viol(const char *key, const char *fmt, ...) __attribute__((format(printf, 2, 3)));
void hv_stat(const char *name, uint64_t add);
void hv_max(const char *name, uint64_t v);
void hv_distinct(uint64_t cls, uint64_t hash);    /* cls: small class id chosen by the harness */
void hv_sample(const char *fmt, ...) __attribute__((format(printf, 1, 2)));
void hv_desc(const char *fmt, ...) __attribute__((format(printf, 1, 2)));   /* append to current case description */
void hv_desc_reset(void);
const char *hv_desc_get(void);
void hv_ctxkey(const char *fmt, ...) __attribute__((format(printf, 1, 2))); /* context appended to a crash key */
void hv_fail(const char *fmt, ...) __attribute__((format(printf, 1, 2), noreturn)); /* harness error */
int hv_viol_count(void);               /* violations reported so far in this case */
void hv_leak_check(void);              /* LSan recoverable leak check attributed to the current case */

/* ------------------------------------------------------------------ prng */
struct hv_rng { uint64_t s[4]; };
uint64_t hv_splitmix(uint64_t *x);
void hv_rng_seed(struct hv_rng *r, uint64_t seed, const char *stream, uint64_t index);
uint64_t hv_rand(struct hv_rng *r);
/* uniform in [0,n) ; n>0 */
static inline uint64_t hv_below(struct hv_rng *r, uint64_t n) { return hv_rand(r) % n; }
static inline int hv_chance(struct hv_rng *r, unsigned num, unsigned den) { return hv_below(r, den) < num; }
static inline int64_t hv_range(struct hv_rng *r, int64_t lo, int64_t hi) { return lo + (int64_t)hv_below(r, (uint64_t)(hi - lo + 1)); }
uint64_t hv_hash_bytes(const void *p, size_t n, uint64_t h);
static inline uint64_t hv_hash_u64(uint64_t v, uint64_t h) { return hv_hash_bytes(&v, 8, h); }
static inline uint64_t hv_hash_str(const char *s, uint64_t h) { return hv_hash_bytes(s, strlen(s), h); }

/* ------------------------------------------------------------------ growable string */
struct hv_str { char *s; size_t len, cap; };
void hv_str_init(struct hv_str *b);
void hv_str_free(struct hv_str *b);
void hv_str_add(struct hv_str *b, const char *fmt, ...) __attribute__((format(printf, 2, 3)));
void hv_str_addn(struct hv_str *b, const char *p, size_t n);
void hv_str_reset(struct hv_str *b);

/* exact-size heap copy (ASan red zones right after the bytes) */
char *hv_exact_dup(const char *s, size_t len_with_nul);

#endif
