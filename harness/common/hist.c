/* History executor: random operations of the modifying API with valid and invalid arguments. */
#include "hist.h"

void hx_init(struct hx *h, hwloc_topology_t t, struct hv_rng *r)
{
  memset(h, 0, sizeof *h);
  h->t = t; h->r = r; h->allow_grouping = 1; h->allow_bad_args = 1;
}

int hx_whitespace_controls;
void hx_rand_string(struct hv_rng *r, char *buf, size_t maxlen, int allow_empty)
{
  static const char special[] = "<>&\"' =/\\;:#%[](){}|~^`@!?*+-_.,";
  size_t n = (size_t)hv_below(r, maxlen > 24 ? 24 : maxlen);
  if (!n && !allow_empty) n = 1;
  for (size_t i = 0; i < n; i++) {
    if (hv_chance(r, 1, 4)) buf[i] = special[hv_below(r, sizeof special - 1)];
    else buf[i] = (char)("abcXYZ019"[hv_below(r, 9)]);
  }
  /* TAB, LF and CR are escaped as character references by both exporters (the repository's own xmlbuffer test relies on it): only
   * the monitors that opt in (C05) draw them, placed after another special character as well as first */
  if (hx_whitespace_controls && n > 1 && hv_chance(r, 1, 3)) { unsigned k = 1 + (unsigned)hv_below(r, 3); for (unsigned q = 0; q < k; q++) buf[hv_below(r, n)] = "\t\n\r"[hv_below(r, 3)]; }
  /* leading/trailing spaces are legal but worth trying */
  if (n > 2 && hv_chance(r, 1, 10)) buf[0] = ' ';
  buf[n] = 0;
}

hwloc_obj_t hx_pick_obj(struct hx *h, int need_sets)
{
  struct tv_view vw; tv_view_build(h->t, &vw, 0);
  hwloc_obj_t o = NULL;
  for (int tries = 0; tries < 60 && vw.n; tries++) {
    struct tv_obj *e = &vw.v[hv_below(h->r, vw.n)];
    if (need_sets && !e->has_sets) continue;
    o = e->o; break;
  }
  if (!o && vw.n) o = vw.v[0].o;
  tv_view_free(&vw);
  return o;
}

static hwloc_obj_t pick_of_depth(struct hx *h, int depth)
{
  unsigned n = hwloc_get_nbobjs_by_depth(h->t, depth);
  return n ? hwloc_get_obj_by_depth(h->t, depth, (unsigned)hv_below(h->r, n)) : NULL;
}

/* random subset of a bitmap keeping each bit with probability num/den; may return empty */
static hwloc_bitmap_t subset_of(struct hx *h, hwloc_const_bitmap_t src, unsigned num, unsigned den)
{
  hwloc_bitmap_t s = hwloc_bitmap_alloc();
  if (hwloc_bitmap_weight(src) < 0) return s;
  int id;
  for (id = hwloc_bitmap_first(src); id >= 0; id = hwloc_bitmap_next(src, id)) if (hv_chance(h->r, num, den)) hwloc_bitmap_set(s, (unsigned)id);
  return s;
}

static void set_to_str(hwloc_const_bitmap_t b, char *buf, size_t n)
{
  if (!b) { snprintf(buf, n, "NULL"); return; }
  char *s = NULL; hwloc_bitmap_list_asprintf(&s, b); snprintf(buf, n, "{%.200s}", s ? s : "?"); free(s);
}

/* ------------------------------------------------------------------ individual operations */
static void op_restrict(struct hx *h, struct hx_result *res)
{
  hwloc_topology_t t = h->t; struct hv_rng *r = h->r;
  unsigned long flags = hv_below(r, 32);
  /* flag bit positions: REMOVE_CPULESS 1, ADAPT_MISC 2, ADAPT_IO 4, BYNODESET 8, REMOVE_MEMLESS 16 */
  if (hv_chance(r, 1, 3)) flags &= (HWLOC_RESTRICT_FLAG_REMOVE_CPULESS | HWLOC_RESTRICT_FLAG_ADAPT_MISC | HWLOC_RESTRICT_FLAG_ADAPT_IO);
  if (h->allow_bad_args && hv_chance(r, 1, 25)) flags |= 1UL << (5 + hv_below(r, 20));
  int bynode = !!(flags & HWLOC_RESTRICT_FLAG_BYNODESET);
  hwloc_const_bitmap_t base = bynode ? hwloc_topology_get_topology_nodeset(t) : hwloc_topology_get_topology_cpuset(t);
  hwloc_bitmap_t s;
  unsigned cls = (unsigned)hv_below(r, 12);
  switch (cls) {
  case 0: s = hwloc_bitmap_alloc(); break;                                                  /* empty */
  case 1: s = hwloc_bitmap_alloc_full(); break;                                             /* infinite */
  case 2: s = hwloc_bitmap_dup(base); hwloc_bitmap_set_range(s, 1800, 1900); break;         /* superset */
  case 3: s = hwloc_bitmap_alloc(); hwloc_bitmap_set_range(s, 1800, 1810); break;           /* disjoint */
  case 4: { hwloc_obj_t o = hx_pick_obj(h, 1); s = hwloc_bitmap_dup(bynode ? o->nodeset : o->cpuset); break; }       /* one object */
  case 5: { hwloc_obj_t o = hx_pick_obj(h, 1); s = hwloc_bitmap_dup(base); hwloc_bitmap_andnot(s, s, bynode ? o->nodeset : o->cpuset); break; }  /* all but one object */
  case 6: s = hwloc_bitmap_dup(base); break;                                                /* everything */
  case 7: { s = hwloc_bitmap_alloc(); int f = hwloc_bitmap_first(base); if (f >= 0) hwloc_bitmap_set(s, (unsigned)f); break; }
  case 8: s = subset_of(h, bynode ? hwloc_topology_get_allowed_nodeset(t) : hwloc_topology_get_allowed_cpuset(t), 1, 2); break;
  default: s = subset_of(h, base, 3, 4); break;
  }
  char sb[256]; set_to_str(s, sb, sizeof sb);
  snprintf(res->desc, sizeof res->desc, "restrict(%s, flags=%#lx)", sb, flags);
  errno = 0;
  res->rc = hwloc_topology_restrict(t, s, flags);
  res->err = errno;
  res->must_be_unchanged = res->rc < 0 && res->err == EINVAL;
  snprintf(res->cls, sizeof res->cls, "restrict.f%lx:%s", flags & 31, res->rc == 0 ? "ok" : res->err == EINVAL ? "EINVAL" : "other");
  hwloc_bitmap_free(s);
}

static void op_misc(struct hx *h, struct hx_result *res)
{
  hwloc_obj_t p = hx_pick_obj(h, 0);
  char name[64]; hx_rand_string(h->r, name, 20, 1);
  snprintf(res->desc, sizeof res->desc, "insert_misc(parent=%s gp%llu, \"%s\")", hwloc_obj_type_string(p->type), (unsigned long long)p->gp_index, name);
  errno = 0;
  hwloc_obj_t m = hwloc_topology_insert_misc_object(h->t, p, hv_chance(h->r, 1, 10) ? NULL : name);
  res->rc = m ? 0 : -1; res->err = errno;
  res->must_be_unchanged = !m;
  snprintf(res->cls, sizeof res->cls, "misc.%s:%s", tk_kind(p->type) == TK_NORMAL ? "normal" : tk_kind(p->type) == TK_MEMORY ? "memory" : tk_kind(p->type) == TK_IO ? "io" : "misc", m ? "ok" : "NULL");
  if (m && hv_chance(h->r, 1, 2)) hwloc_obj_add_info(m, "MiscInfo", name);
}

static void op_group(struct hx *h, struct hx_result *res)
{
  hwloc_topology_t t = h->t; struct hv_rng *r = h->r;
  hwloc_obj_t g = hwloc_topology_alloc_group_object(t);
  if (!g) { res->rc = -1; res->err = errno; snprintf(res->desc, sizeof res->desc, "alloc_group_object -> NULL"); snprintf(res->cls, sizeof res->cls, "group.alloc_failed"); res->must_be_unchanged = 1; return; }
  /* shapes: 0-2 union of sibling subsets (all four sets copied from the children), 3 union of arbitrary objects (may conflict with
   * the hierarchy), 4 same sets as an existing object, 5 nodeset only, 6 cpuset only (union of siblings), 7 no set, 8 empty cpuset,
   * 9 cpuset larger than the root. Mutually inconsistent cpuset/nodeset pairs are API misuse and are not generated. */
  unsigned cls = (unsigned)hv_below(r, 10);
  int cl = 0;     /* a CPU-less member (empty cpuset, memory only) takes part in the union */
  char what[300] = "";
  switch (cls) {
  case 0: case 1: case 2: { /* union of some children of a normal object */
    hwloc_obj_t p = NULL;
    for (int tries = 0; tries < 30; tries++) { hwloc_obj_t o = hx_pick_obj(h, 1); if (tk_kind(o->type) == TK_NORMAL && o->arity >= 2) { p = o; break; } }
    if (!p) p = hwloc_get_root_obj(t);
    unsigned k = 0;
    for (hwloc_obj_t c = p->first_child; c; c = c->next_sibling) if (hv_chance(r, 1, 2)) { hwloc_obj_add_other_obj_sets(g, c); k++; if (hwloc_bitmap_iszero(c->cpuset)) cl = 1; }
    snprintf(what, sizeof what, "union of %u children of %s gp%llu", k, hwloc_obj_type_string(p->type), (unsigned long long)p->gp_index);
    break; }
  case 3: { /* union of arbitrary objects: may conflict with the hierarchy */
    unsigned k = 1 + (unsigned)hv_below(r, 3);
    for (unsigned i = 0; i < k; i++) { hwloc_obj_t o = hx_pick_obj(h, 1); hwloc_obj_add_other_obj_sets(g, o); if (hwloc_bitmap_iszero(o->cpuset)) cl = 1; }
    snprintf(what, sizeof what, "union of %u arbitrary objects", k); break; }
  case 4: { hwloc_obj_t o = hx_pick_obj(h, 1); hwloc_obj_add_other_obj_sets(g, o); if (hwloc_bitmap_iszero(o->cpuset)) cl = 1; snprintf(what, sizeof what, "same sets as %s gp%llu", hwloc_obj_type_string(o->type), (unsigned long long)o->gp_index); break; }
  case 5: { g->nodeset = subset_of(h, hwloc_topology_get_topology_nodeset(t), 1, 2); snprintf(what, sizeof what, "nodeset only"); break; }
  case 6: { /* cpuset only: union of some children of a normal object */
    hwloc_obj_t p = NULL;
    for (int tries = 0; tries < 30; tries++) { hwloc_obj_t o = hx_pick_obj(h, 1); if (tk_kind(o->type) == TK_NORMAL && o->arity >= 2) { p = o; break; } }
    if (!p) p = hwloc_get_root_obj(t);
    g->cpuset = hwloc_bitmap_alloc();
    for (hwloc_obj_t c = p->first_child; c; c = c->next_sibling) if (hv_chance(r, 1, 2)) hwloc_bitmap_or(g->cpuset, g->cpuset, c->cpuset);
    snprintf(what, sizeof what, "cpuset only: some children of %s gp%llu", hwloc_obj_type_string(p->type), (unsigned long long)p->gp_index); break; }
  case 7: snprintf(what, sizeof what, "no set at all"); break;
  case 8: { g->cpuset = hwloc_bitmap_alloc(); snprintf(what, sizeof what, "empty cpuset"); break; }
  default: { g->cpuset = hwloc_bitmap_dup(hwloc_topology_get_topology_cpuset(t)); hwloc_bitmap_set_range(g->cpuset, 1800, 1820); snprintf(what, sizeof what, "cpuset larger than the root"); break; }
  }
  g->attr->group.kind = (unsigned)hv_below(r, 3) ? (unsigned)hv_below(r, 4) : 0;
  g->attr->group.subkind = (unsigned)hv_below(r, 3);
  g->attr->group.dont_merge = (unsigned char)hv_chance(r, 1, 3);
  if (hv_chance(r, 1, 3)) hwloc_obj_add_info(g, "GroupInfo", "x");
  if (hv_chance(r, 1, 12)) {
    snprintf(res->desc, sizeof res->desc, "alloc_group(%s) + free_group_object", what);
    res->rc = hwloc_topology_free_group_object(t, g); res->err = errno; res->must_be_unchanged = 1;
    snprintf(res->cls, sizeof res->cls, "group.free:%s", res->rc == 0 ? "ok" : "fail");
    return;
  }
  /* does an object with the same cpuset already exist? (the Group then only adds a level if dont_merge is set) */
  int eq = 0, dm = g->attr->group.dont_merge;
  if (g->cpuset) {
    struct tv_view vw; tv_view_build(t, &vw, 0);
    hwloc_bitmap_t inroot = hwloc_bitmap_dup(g->cpuset); hwloc_bitmap_and(inroot, inroot, hwloc_topology_get_topology_cpuset(t));
    for (unsigned i = 0; i < vw.n; i++) if (vw.v[i].kind == TK_NORMAL && vw.v[i].o->cpuset && hwloc_bitmap_isequal(vw.v[i].o->cpuset, inroot)) eq = 1;
    hwloc_bitmap_free(inroot); tv_view_free(&vw);
  }
  snprintf(res->desc, sizeof res->desc, "insert_group(%s, kind=%u subkind=%u dont_merge=%u%s)", what, g->attr->group.kind, g->attr->group.subkind, g->attr->group.dont_merge, eq ? ", same cpuset as an existing object" : "");
  if (h->no_fragile_groups && ((eq && dm) || cls == 5 || cl)) {
    hwloc_topology_free_group_object(t, g);
    res->rc = -1; res->err = 0; res->must_be_unchanged = 1;
    snprintf(res->cls, sizeof res->cls, "group.fragile_shape_skipped");
    return;
  }
  errno = 0;
  hwloc_obj_t got = hwloc_topology_insert_group_object(t, g);
  res->err = errno; res->rc = got ? 0 : -1;
  res->must_be_unchanged = !got && res->err == EINVAL;
  res->fragile = (eq && dm) || cls == 5 || cl;
  snprintf(res->cls, sizeof res->cls, "group.c%u%s%s%s:%s", cls, eq ? "eq" : "", dm ? "dm" : "", cl ? "cl" : "", !got ? (res->err == EINVAL ? "EINVAL" : "NULL") : got == g ? "new" : "existing");
}

static void op_allow(struct hx *h, struct hx_result *res)
{
  hwloc_topology_t t = h->t; struct hv_rng *r = h->r;
  static const unsigned long fl[] = { HWLOC_ALLOW_FLAG_ALL, HWLOC_ALLOW_FLAG_LOCAL_RESTRICTIONS, HWLOC_ALLOW_FLAG_CUSTOM, HWLOC_ALLOW_FLAG_CUSTOM, 0, 3, 8, 5 };
  unsigned long flags = fl[hv_below(r, h->allow_bad_args ? 8 : 4)];
  hwloc_bitmap_t c = NULL, n = NULL;
  if (hv_chance(r, 1, 2)) { unsigned k = (unsigned)hv_below(r, 4); c = k == 0 ? hwloc_bitmap_alloc() : k == 1 ? hwloc_bitmap_alloc_full() : subset_of(h, hwloc_topology_get_complete_cpuset(t), 1, 2); if (k == 3) { hwloc_bitmap_zero(c); hwloc_bitmap_set(c, 1850); } }
  if (hv_chance(r, 1, 2)) { unsigned k = (unsigned)hv_below(r, 4); n = k == 0 ? hwloc_bitmap_alloc() : k == 1 ? hwloc_bitmap_alloc_full() : subset_of(h, hwloc_topology_get_complete_nodeset(t), 1, 2); if (k == 3) { hwloc_bitmap_zero(n); hwloc_bitmap_set(n, 1850); } }
  char cb[200], nb[200]; set_to_str(c, cb, sizeof cb); set_to_str(n, nb, sizeof nb);
  snprintf(res->desc, sizeof res->desc, "allow(cpuset=%s, nodeset=%s, flags=%#lx)", cb, nb, flags);
  errno = 0;
  res->rc = hwloc_topology_allow(t, c, n, flags); res->err = errno;
  res->must_be_unchanged = res->rc < 0 && res->err == EINVAL;
  snprintf(res->cls, sizeof res->cls, "allow.f%lx.%c%c:%s", flags, c ? 'c' : '-', n ? 'n' : '-', res->rc == 0 ? "ok" : res->err == EINVAL ? "EINVAL" : "other");
  hwloc_bitmap_free(c); hwloc_bitmap_free(n);
}

static void op_dist_add(struct hx *h, struct hx_result *res)
{
  hwloc_topology_t t = h->t; struct hv_rng *r = h->r;
  static const unsigned long kinds[] = { HWLOC_DISTANCES_KIND_FROM_USER | HWLOC_DISTANCES_KIND_VALUE_LATENCY, HWLOC_DISTANCES_KIND_FROM_USER | HWLOC_DISTANCES_KIND_VALUE_BANDWIDTH,
    HWLOC_DISTANCES_KIND_FROM_OS | HWLOC_DISTANCES_KIND_VALUE_HOPS, HWLOC_DISTANCES_KIND_VALUE_LATENCY, 0, HWLOC_DISTANCES_KIND_FROM_USER,
    /* invalid: */ HWLOC_DISTANCES_KIND_FROM_OS | HWLOC_DISTANCES_KIND_FROM_USER, HWLOC_DISTANCES_KIND_VALUE_LATENCY | HWLOC_DISTANCES_KIND_VALUE_BANDWIDTH, 1UL << 8, 1UL << 20 };
  unsigned long kind = kinds[hv_below(r, h->allow_bad_args ? 10 : 6)];
  char name[32]; hx_rand_string(r, name, 12, 0);
  int named = hv_chance(r, 2, 3);
  unsigned long cflags = h->allow_bad_args && hv_chance(r, 1, 20) ? 1 : 0;
  errno = 0;
  hwloc_distances_add_handle_t hd = hwloc_distances_add_create(t, named ? name : NULL, kind, cflags);
  if (!hd) { res->rc = -1; res->err = errno; res->must_be_unchanged = 1; snprintf(res->desc, sizeof res->desc, "distances_add_create(kind=%#lx flags=%#lx) -> NULL", kind, cflags); snprintf(res->cls, sizeof res->cls, "dist_add.create_rejected"); return; }
  /* objects */
  hwloc_obj_t objs[12]; unsigned nb = 2 + (unsigned)hv_below(r, 7);
  unsigned mode = (unsigned)hv_below(r, 10);
  if (h->allow_bad_args && mode == 0) nb = (unsigned)hv_below(r, 2);        /* 0 or 1 object */
  int depth = hwloc_topology_get_depth(t);
  int d = (int)hv_below(r, (uint64_t)depth);
  if (mode == 1) d = HWLOC_TYPE_DEPTH_NUMANODE;
  if (mode == 2) d = depth - 1;
  unsigned have = 0;
  if (mode <= 6) { /* one level, distinct objects */
    unsigned n = hwloc_get_nbobjs_by_depth(t, d);
    if (n < nb) nb = n;
    unsigned start = n > nb ? (unsigned)hv_below(r, n - nb + 1) : 0;
    for (unsigned i = 0; i < nb; i++) objs[have++] = hwloc_get_obj_by_depth(t, d, start + i);
  } else if (mode <= 8) { /* mixed types */
    for (unsigned i = 0; i < nb; i++) { hwloc_obj_t o = hx_pick_obj(h, 0); int dup = 0; for (unsigned j = 0; j < have; j++) if (objs[j] == o) dup = 1; if (!dup) objs[have++] = o; }
  } else { /* I/O or Misc objects */
    static const int sd[] = { HWLOC_TYPE_DEPTH_PCI_DEVICE, HWLOC_TYPE_DEPTH_OS_DEVICE, HWLOC_TYPE_DEPTH_MISC, HWLOC_TYPE_DEPTH_BRIDGE };
    int dd = sd[hv_below(r, 4)]; unsigned n = hwloc_get_nbobjs_by_depth(t, dd);
    for (unsigned i = 0; i < nb && i < n; i++) objs[have++] = hwloc_get_obj_by_depth(t, dd, i);
  }
  nb = have;
  int null_at = -1;
  if (h->allow_bad_args && nb >= 2 && hv_chance(r, 1, 20)) { null_at = 1 + (int)hv_below(r, nb - 1); objs[null_at] = NULL; }
  uint64_t vals[144];
  for (unsigned i = 0; i < nb; i++) for (unsigned j = 0; j < nb; j++) vals[i * nb + j] = i == j ? (hv_chance(r, 1, 2) ? 10 : 0) : (hv_chance(r, 1, 3) ? 20 : 10 + hv_below(r, 50)) * ((i / 2 == j / 2) ? 1 : 2);
  unsigned long vflags = h->allow_bad_args && hv_chance(r, 1, 25) ? 1 : 0;
  errno = 0;
  int rc = hwloc_distances_add_values(t, hd, nb, nb ? objs : objs, vals, vflags);
  if (rc < 0) { res->rc = -1; res->err = errno; res->must_be_unchanged = 1; snprintf(res->desc, sizeof res->desc, "distances_add_values(kind=%#lx, nbobjs=%u, null_at=%d, flags=%#lx) -> -1", kind, nb, null_at, vflags); snprintf(res->cls, sizeof res->cls, "dist_add.values_rejected"); return; }
  unsigned long gflags = 0;
  if (h->allow_grouping && hv_chance(r, 1, 3)) gflags = 1 + hv_below(r, 3);
  if (h->allow_bad_args && hv_chance(r, 1, 25)) gflags |= 4;
  errno = 0;
  rc = hwloc_distances_add_commit(t, hd, gflags);
  res->rc = rc; res->err = errno;
  res->must_be_unchanged = rc < 0 && !(gflags & 3);
  snprintf(res->desc, sizeof res->desc, "distances_add(name=%s kind=%#lx nbobjs=%u depth=%d mode=%u commit_flags=%#lx) -> %d", named ? name : "NULL", kind, nb, d, mode, gflags, rc);
  snprintf(res->cls, sizeof res->cls, "dist_add.m%u.g%lu:%s", mode > 6 ? mode : 1, gflags & 3, rc == 0 ? "ok" : "fail");
}

static void op_dist_remove(struct hx *h, struct hx_result *res)
{
  hwloc_topology_t t = h->t; struct hv_rng *r = h->r;
  unsigned mode = (unsigned)hv_below(r, 4);
  if (mode == 0) { res->rc = hwloc_distances_remove(t); snprintf(res->desc, sizeof res->desc, "distances_remove()"); }
  else if (mode == 1) { int d = hv_chance(r, 1, 3) ? HWLOC_TYPE_DEPTH_NUMANODE : (int)hv_below(r, (uint64_t)hwloc_topology_get_depth(t) + 2) - 1; res->rc = hwloc_distances_remove_by_depth(t, d); snprintf(res->desc, sizeof res->desc, "distances_remove_by_depth(%d)", d); }
  else {
    unsigned nr = 0; hwloc_distances_get(t, &nr, NULL, 0, 0);
    if (!nr) { res->rc = 0; snprintf(res->desc, sizeof res->desc, "release_remove: nothing to remove"); snprintf(res->cls, sizeof res->cls, "dist_remove.none"); return; }
    struct hwloc_distances_s **d = calloc(nr, sizeof *d); unsigned got = nr;
    hwloc_distances_get(t, &got, d, 0, 0);
    unsigned victim = (unsigned)hv_below(r, got ? got : 1);
    for (unsigned i = 0; i < got && i < nr; i++) if (i != victim) hwloc_distances_release(t, d[i]);
    res->rc = got ? hwloc_distances_release_remove(t, d[victim]) : 0;
    snprintf(res->desc, sizeof res->desc, "distances_release_remove(#%u of %u)", victim, got);
    free(d);
  }
  res->err = errno;
  snprintf(res->cls, sizeof res->cls, "dist_remove.m%u:%s", mode > 2 ? 2 : mode, res->rc == 0 ? "ok" : "fail");
}

static void op_memattr_reg(struct hx *h, struct hx_result *res)
{
  static const unsigned long fl[] = { HWLOC_MEMATTR_FLAG_HIGHER_FIRST, HWLOC_MEMATTR_FLAG_LOWER_FIRST, HWLOC_MEMATTR_FLAG_HIGHER_FIRST | HWLOC_MEMATTR_FLAG_NEED_INITIATOR, HWLOC_MEMATTR_FLAG_LOWER_FIRST | HWLOC_MEMATTR_FLAG_NEED_INITIATOR,
    0, 3, HWLOC_MEMATTR_FLAG_NEED_INITIATOR, 9, 1UL << 10 };
  unsigned long flags = fl[hv_below(h->r, h->allow_bad_args ? 9 : 4)];
  char name[48];
  unsigned k = (unsigned)hv_below(h->r, 8);
  if (k == 0) snprintf(name, sizeof name, "Bandwidth");             /* standard name: must be refused */
  else if (k == 1 && h->memattr_serial) snprintf(name, sizeof name, "custom%u", (unsigned)hv_below(h->r, h->memattr_serial));   /* duplicate */
  else snprintf(name, sizeof name, "custom%u", h->memattr_serial);
  hwloc_memattr_id_t id = 9999;
  errno = 0;
  res->rc = hwloc_memattr_register(h->t, name, flags, &id); res->err = errno;
  if (res->rc == 0 && k > 1) h->memattr_serial++;
  else if (res->rc == 0 && !strncmp(name, "custom", 6) && (unsigned)atoi(name + 6) == h->memattr_serial) h->memattr_serial++;
  res->must_be_unchanged = res->rc < 0;
  snprintf(res->desc, sizeof res->desc, "memattr_register(\"%s\", flags=%#lx) -> %d id=%u", name, flags, res->rc, id);
  snprintf(res->cls, sizeof res->cls, "memattr_reg.f%lx:%s", flags & 15, res->rc == 0 ? "ok" : res->err == EINVAL ? "EINVAL" : res->err == EBUSY ? "EBUSY" : "other");
}

static void op_memattr_set(struct hx *h, struct hx_result *res)
{
  hwloc_topology_t t = h->t; struct hv_rng *r = h->r;
  /* pick an attribute id among the existing ones (and sometimes an invalid one) */
  unsigned nattr = 0; const char *nm;
  while (hwloc_memattr_get_name(t, nattr, &nm) == 0 && nattr < 256) nattr++;
  if (!nattr && !h->allow_bad_args) { res->rc = -1; res->err = EINVAL; res->must_be_unchanged = 1; snprintf(res->desc, sizeof res->desc, "memattr_set_value: no attribute exists"); snprintf(res->cls, sizeof res->cls, "memattr_set.none"); return; }
  hwloc_memattr_id_t id = (hwloc_memattr_id_t)hv_below(r, nattr + (h->allow_bad_args ? 1 : 0));
  unsigned long aflags = 0; hwloc_memattr_get_flags(t, id, &aflags);
  hwloc_obj_t target = hv_chance(r, 9, 10) ? pick_of_depth(h, HWLOC_TYPE_DEPTH_NUMANODE) : hx_pick_obj(h, 0);
  struct hwloc_location loc, *lp = NULL;
  hwloc_bitmap_t cs = NULL;
  unsigned im = (unsigned)hv_below(r, 6);
  if ((aflags & HWLOC_MEMATTR_FLAG_NEED_INITIATOR) ? im != 0 : im == 0) {
    lp = &loc;
    if (im <= 3) { loc.type = HWLOC_LOCATION_TYPE_CPUSET; hwloc_obj_t o = hx_pick_obj(h, 1); cs = hwloc_bitmap_dup(o->cpuset); if (im == 3) hwloc_bitmap_zero(cs); loc.location.cpuset = cs; }
    else { loc.type = HWLOC_LOCATION_TYPE_OBJECT; loc.location.object = hx_pick_obj(h, im == 4); }
  }
  uint64_t value = hv_below(r, 1000000);
  unsigned long flags = h->allow_bad_args && hv_chance(r, 1, 25) ? 1 : 0;
  errno = 0;
  res->rc = hwloc_memattr_set_value(t, id, target, lp, flags, value); res->err = errno;
  res->must_be_unchanged = res->rc < 0;
  snprintf(res->desc, sizeof res->desc, "memattr_set_value(attr=%u, target=%s gp%llu, initiator=%s, flags=%#lx, value=%llu) -> %d", id, target ? hwloc_obj_type_string(target->type) : "NULL", target ? (unsigned long long)target->gp_index : 0ULL,
           !lp ? "NULL" : lp->type == HWLOC_LOCATION_TYPE_CPUSET ? "cpuset" : "object", flags, (unsigned long long)value, res->rc);
  snprintf(res->cls, sizeof res->cls, "memattr_set.%s.%s:%s", id < 8 ? "std" : "custom", !lp ? "noinit" : lp->type == HWLOC_LOCATION_TYPE_CPUSET ? "cpuset" : "obj", res->rc == 0 ? "ok" : "fail");
  hwloc_bitmap_free(cs);
}

static void op_cpukind(struct hx *h, struct hx_result *res)
{
  hwloc_topology_t t = h->t; struct hv_rng *r = h->r;
  hwloc_bitmap_t cs; unsigned k = (unsigned)hv_below(r, 8);
  if (k == 0 && h->allow_bad_args) cs = hwloc_bitmap_alloc();
  else if (k == 1) { hwloc_obj_t o = hx_pick_obj(h, 1); cs = hwloc_bitmap_dup(o->cpuset); }
  else if (k == 2) { cs = hwloc_bitmap_dup(hwloc_topology_get_topology_cpuset(t)); hwloc_bitmap_set_range(cs, 1800, 1805); }
  else cs = subset_of(h, hwloc_topology_get_topology_cpuset(t), 1, 2);
  struct hwloc_info_s pairs[2]; struct hwloc_infos_s infos = { pairs, 0, 0 };
  char v0[32], v1[32];
  static const char *names[] = { "CoreType", "FrequencyMaxMHz", "FrequencyBaseMHz", "Custom", "x" };
  unsigned ni = (unsigned)hv_below(r, 3);
  for (unsigned i = 0; i < ni; i++) { pairs[i].name = (char *)names[hv_below(r, 5)]; snprintf(i ? v1 : v0, 32, "%u", (unsigned)hv_below(r, 4) * 1000); pairs[i].value = i ? v1 : v0; }
  infos.count = ni;
  int eff = (int)hv_below(r, 7) - 1;
  unsigned long flags = h->allow_bad_args && hv_chance(r, 1, 25) ? 1 : 0;
  int nullset = h->allow_bad_args && hv_chance(r, 1, 30);
  char sb[200]; set_to_str(nullset ? NULL : cs, sb, sizeof sb);
  errno = 0;
  res->rc = hwloc_cpukinds_register(t, nullset ? NULL : cs, eff, ni || hv_chance(r, 1, 2) ? &infos : NULL, flags); res->err = errno;
  res->must_be_unchanged = res->rc < 0 && res->err == EINVAL;
  snprintf(res->desc, sizeof res->desc, "cpukinds_register(%s, eff=%d, %u infos, flags=%#lx) -> %d", sb, eff, ni, flags, res->rc);
  snprintf(res->cls, sizeof res->cls, "cpukind.k%u:%s", k > 3 ? 3 : k, res->rc == 0 ? "ok" : res->err == EINVAL ? "EINVAL" : "other");
  hwloc_bitmap_free(cs);
}

static void op_info(struct hx *h, struct hx_result *res)
{
  struct hv_rng *r = h->r;
  hwloc_obj_t o = hx_pick_obj(h, 0);
  char name[40], value[40];
  static const char *common[] = { "Name1", "dup", "dup", "CPUModel", "a" };
  if (hv_chance(r, 1, 2)) snprintf(name, sizeof name, "%s", common[hv_below(r, 5)]); else hx_rand_string(r, name, 16, 0);
  hx_rand_string(r, value, 20, 1);
  unsigned mode = (unsigned)hv_below(r, 7);
  int on_topology = hv_chance(r, 1, 5);
  struct hwloc_infos_s *infos = on_topology ? hwloc_topology_get_infos(h->t) : &o->infos;
  errno = 0;
  if (mode == 0 && !on_topology) { res->rc = hwloc_obj_add_info(o, name, value); snprintf(res->desc, sizeof res->desc, "obj_add_info(%s gp%llu, \"%s\", \"%s\")", hwloc_obj_type_string(o->type), (unsigned long long)o->gp_index, name, value); }
  else {
    static const unsigned long ops[] = { HWLOC_MODIFY_INFOS_OP_ADD, HWLOC_MODIFY_INFOS_OP_ADD_UNIQUE, HWLOC_MODIFY_INFOS_OP_REPLACE, HWLOC_MODIFY_INFOS_OP_REMOVE, HWLOC_MODIFY_INFOS_OP_REMOVE, 0, 3 };
    unsigned long op = ops[hv_below(r, h->allow_bad_args ? 7 : 5)];
    const char *vp = value;
    if (op == HWLOC_MODIFY_INFOS_OP_REMOVE && hv_chance(r, 1, 2)) vp = NULL;
    res->rc = hwloc_modify_infos(infos, op, name, vp);
    snprintf(res->desc, sizeof res->desc, "modify_infos(%s, op=%#lx, \"%s\", %s%s%s)", on_topology ? "topology" : hwloc_obj_type_string(o->type), op, name, vp ? "\"" : "", vp ? vp : "NULL", vp ? "\"" : "");
  }
  res->err = errno;
  res->must_be_unchanged = res->rc < 0;
  snprintf(res->cls, sizeof res->cls, "info.m%u:%s", mode, res->rc == 0 ? "ok" : "fail");
}

static void op_subtype(struct hx *h, struct hx_result *res)
{
  hwloc_obj_t o = hx_pick_obj(h, 0);
  char st[40]; hx_rand_string(h->r, st, 16, 1);
  int null = hv_chance(h->r, 1, 5);
  errno = 0;
  res->rc = hwloc_obj_set_subtype(h->t, o, null ? NULL : st); res->err = errno;
  res->must_be_unchanged = res->rc < 0;
  snprintf(res->desc, sizeof res->desc, "obj_set_subtype(%s gp%llu, %s%s%s)", hwloc_obj_type_string(o->type), (unsigned long long)o->gp_index, null ? "" : "\"", null ? "NULL" : st, null ? "" : "\"");
  snprintf(res->cls, sizeof res->cls, "subtype:%s", res->rc == 0 ? "ok" : "fail");
}

void hx_random_op(struct hx *h, unsigned mask, struct hx_result *res)
{
  memset(res, 0, sizeof *res);
  if (!(mask & HX_ALL)) mask = HX_ALL;
  enum hx_kind k;
  do k = (enum hx_kind)hv_below(h->r, HX_NKINDS); while (!(mask & (1u << k)));
  res->kind = k;
  hv_ctxkey("op:%s", (const char *[]){ "restrict", "insert_misc", "group", "allow", "distances_add", "distances_remove", "memattr_register", "memattr_set_value", "cpukinds_register", "infos", "set_subtype", "refresh" }[k]);
  switch (k) {
  case HX_RESTRICT: op_restrict(h, res); break;
  case HX_MISC: op_misc(h, res); break;
  case HX_GROUP: op_group(h, res); break;
  case HX_ALLOW: op_allow(h, res); break;
  case HX_DIST_ADD: op_dist_add(h, res); break;
  case HX_DIST_REMOVE: op_dist_remove(h, res); break;
  case HX_MEMATTR_REG: op_memattr_reg(h, res); break;
  case HX_MEMATTR_SET: op_memattr_set(h, res); break;
  case HX_CPUKIND: op_cpukind(h, res); break;
  case HX_INFO: op_info(h, res); break;
  case HX_SUBTYPE: op_subtype(h, res); break;
  default: res->rc = hwloc_topology_refresh(h->t); res->err = errno; snprintf(res->desc, sizeof res->desc, "refresh()"); snprintf(res->cls, sizeof res->cls, "refresh:%s", res->rc == 0 ? "ok" : "fail"); break;
  }
  hv_ctxkey("after:%s", res->cls);
  char key[96]; snprintf(key, sizeof key, "op.%.80s", res->cls);
  char *colon = strchr(key, ':'); if (colon) *colon = 0;
  hv_stat(key, 1);
  hv_stat(res->rc == 0 ? "ops.succeeded" : "ops.failed", 1);
}

unsigned hx_annotate(struct hx *h, unsigned nops)
{
  struct hx_result res; unsigned ok = 0;
  int bad = h->allow_bad_args, grp = h->allow_grouping;
  h->allow_bad_args = 0; h->allow_grouping = 0;
  for (unsigned i = 0; i < nops; i++) { hx_random_op(h, HX_ANNOTATE, &res); hv_desc("  annotate: %s\n", res.desc); if (res.rc == 0) ok++; }
  h->allow_bad_args = bad; h->allow_grouping = grp;
  hv_ctxkey("%s", "");
  return ok;
}

static int has_escaped(const char *s) { return s && strpbrk(s, "<>&\"'") != NULL; }

unsigned hx_features(hwloc_topology_t t)
{
  unsigned f = 0;
  struct tv_view vw; tv_view_build(t, &vw, 0);
  for (unsigned i = 0; i < vw.n; i++) {
    hwloc_obj_t o = vw.v[i].o;
    if (o->cpuset && (!hwloc_bitmap_isequal(o->cpuset, o->complete_cpuset) || !hwloc_bitmap_isequal(o->nodeset, o->complete_nodeset))) f |= HXF_COMPLETE_DIFFERS;
    if (has_escaped(o->name) || has_escaped(o->subtype)) f |= HXF_ESCAPED_CHARS;
    for (unsigned k = 0; k < o->infos.count; k++) { f |= HXF_INFOS; if (has_escaped(o->infos.array[k].name) || has_escaped(o->infos.array[k].value)) f |= HXF_ESCAPED_CHARS; }
    if (o->userdata) f |= HXF_USERDATA;
    if (vw.v[i].kind == TK_IO || vw.v[i].kind == TK_MISC || o->type == HWLOC_OBJ_GROUP || o->type == HWLOC_OBJ_MEMCACHE) f |= HXF_SPECIAL_OBJS;
    if (o->type == HWLOC_OBJ_NUMANODE && o->attr->numanode.page_types_len) f |= HXF_PAGE_TYPES;
  }
  tv_view_free(&vw);
  unsigned nr = 0; if (hwloc_distances_get(t, &nr, NULL, 0, 0) == 0 && nr) f |= HXF_DISTANCES;
  if (hwloc_cpukinds_get_nr(t, 0) > 0) f |= HXF_CPUKINDS;
  /* any non-standard attribute, or a standard one beyond Capacity/Locality with values */
  const char *nm;
  for (hwloc_memattr_id_t id = 2; id < 64 && hwloc_memattr_get_name(t, id, &nm) == 0; id++) {
    unsigned n = 0; if (hwloc_memattr_get_targets(t, id, NULL, 0, &n, NULL, NULL) == 0 && n) { f |= HXF_MEMATTR_VALUES; break; }
  }
  return f;
}
