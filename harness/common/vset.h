/* SET: independent finite/cofinite set model: a window of VS_W bits (packed in 64-bit words)
 * plus a "tail" flag meaning every index >= VS_W is a member.
 * Written from the documentation in include/hwloc/bitmap.h only. */
#ifndef VSET_H
#define VSET_H
#include <string.h>
#include <stdint.h>
#include <stdio.h>

#define VS_W 2048
#define VS_NW (VS_W / 64)

typedef struct vset { uint64_t w[VS_NW]; int tail; } vset;

#define VS_BIT(s, i) (((s)->w[(i) >> 6] >> ((i) & 63)) & 1u)

static inline void vs_zero(vset *s) { memset(s->w, 0, sizeof s->w); s->tail = 0; }
static inline void vs_fill(vset *s) { memset(s->w, 0xff, sizeof s->w); s->tail = 1; }
static inline void vs_copy(vset *d, const vset *s) { *d = *s; }
static inline void vs_set(vset *s, unsigned i) { if (i < VS_W) s->w[i >> 6] |= (uint64_t)1 << (i & 63); }
static inline void vs_clr(vset *s, unsigned i) { if (i < VS_W) s->w[i >> 6] &= ~((uint64_t)1 << (i & 63)); }
static inline int vs_isset(const vset *s, unsigned i) { return i < VS_W ? (int)VS_BIT(s, i) : s->tail; }
/* end == -1 means infinite */
static inline void vs_set_range(vset *s, unsigned b, long e)
{
  if (e == -1) { for (unsigned i = b; i < VS_W; i++) vs_set(s, i); s->tail = 1; return; }
  for (long i = b; i <= e && i < VS_W; i++) vs_set(s, (unsigned)i);
}
static inline void vs_clr_range(vset *s, unsigned b, long e)
{
  if (e == -1) { for (unsigned i = b; i < VS_W; i++) vs_clr(s, i); s->tail = 0; return; }
  for (long i = b; i <= e && i < VS_W; i++) vs_clr(s, (unsigned)i);
}
static inline void vs_or(vset *r, const vset *a, const vset *b) { for (int i = 0; i < VS_NW; i++) r->w[i] = a->w[i] | b->w[i]; r->tail = a->tail | b->tail; }
static inline void vs_and(vset *r, const vset *a, const vset *b) { for (int i = 0; i < VS_NW; i++) r->w[i] = a->w[i] & b->w[i]; r->tail = a->tail & b->tail; }
static inline void vs_andnot(vset *r, const vset *a, const vset *b) { for (int i = 0; i < VS_NW; i++) r->w[i] = a->w[i] & ~b->w[i]; r->tail = a->tail & !b->tail; }
static inline void vs_xor(vset *r, const vset *a, const vset *b) { for (int i = 0; i < VS_NW; i++) r->w[i] = a->w[i] ^ b->w[i]; r->tail = a->tail ^ b->tail; }
static inline void vs_not(vset *r, const vset *a) { for (int i = 0; i < VS_NW; i++) r->w[i] = ~a->w[i]; r->tail = !a->tail; }

static inline int vs_iszero(const vset *s) { if (s->tail) return 0; for (int i = 0; i < VS_NW; i++) if (s->w[i]) return 0; return 1; }
static inline int vs_isfull(const vset *s) { if (!s->tail) return 0; for (int i = 0; i < VS_NW; i++) if (~s->w[i]) return 0; return 1; }
/* first set index or -1 when empty; with tail and empty window: VS_W */
static inline long vs_first(const vset *s) { for (int i = 0; i < VS_W; i++) if (VS_BIT(s, i)) return i; return s->tail ? VS_W : -1; }
static inline long vs_next(const vset *s, long prev) { for (long i = prev + 1; i < VS_W; i++) if (VS_BIT(s, i)) return i; if (s->tail) return prev + 1 >= VS_W ? prev + 1 : VS_W; return -1; }
static inline long vs_last(const vset *s) { if (s->tail) return -1; for (int i = VS_W - 1; i >= 0; i--) if (VS_BIT(s, i)) return i; return -1; }
static inline long vs_first_unset(const vset *s) { for (int i = 0; i < VS_W; i++) if (!VS_BIT(s, i)) return i; return s->tail ? -1 : VS_W; }
static inline long vs_next_unset(const vset *s, long prev) { for (long i = prev + 1; i < VS_W; i++) if (!VS_BIT(s, i)) return i; if (!s->tail) return prev + 1 >= VS_W ? prev + 1 : VS_W; return -1; }
static inline long vs_last_unset(const vset *s) { if (!s->tail) return -1; for (int i = VS_W - 1; i >= 0; i--) if (!VS_BIT(s, i)) return i; return -1; }
static inline long vs_weight(const vset *s) { if (s->tail) return -1; long w = 0; for (int i = 0; i < VS_W; i++) w += VS_BIT(s, i); return w; }
static inline int vs_isequal(const vset *a, const vset *b) { return a->tail == b->tail && !memcmp(a->w, b->w, sizeof a->w); }
static inline int vs_isincluded(const vset *a, const vset *b) { if (a->tail && !b->tail) return 0; for (int i = 0; i < VS_NW; i++) if (a->w[i] & ~b->w[i]) return 0; return 1; }
static inline int vs_intersects(const vset *a, const vset *b) { if (a->tail && b->tail) return 1; for (int i = 0; i < VS_NW; i++) if (a->w[i] & b->w[i]) return 1; return 0; }
static inline int vs_sgn(long v) { return v < 0 ? -1 : v > 0 ? 1 : 0; }
/* "A bitmap is considered smaller if its least significant bit is smaller. The empty bitmap is
 * considered higher than anything." 0 when same least significant bit (or both empty). */
static inline int vs_compare_first(const vset *a, const vset *b)
{
  long fa = vs_first(a), fb = vs_first(b);
  if (fa == -1 && fb == -1) return 0;
  if (fa == -1) return 1;
  if (fb == -1) return -1;
  return vs_sgn(fa - fb);
}
/* lexicographic from the highest index; the empty set is lower than anything; 0 iff equal */
static inline int vs_compare(const vset *a, const vset *b)
{
  if (a->tail != b->tail) return a->tail ? 1 : -1;
  for (int i = VS_W - 1; i >= 0; i--) if (VS_BIT(a, i) != VS_BIT(b, i)) return VS_BIT(a, i) ? 1 : -1;
  return 0;
}
/* 0 equal, 1 a included in b, 2 a contains b, 3 intersect without inclusion, 4 disjoint */
static inline int vs_compare_inclusion(const vset *a, const vset *b)
{
  if (vs_isequal(a, b)) return 0;
  if (vs_isincluded(a, b)) return 1;
  if (vs_isincluded(b, a)) return 2;
  if (vs_intersects(a, b)) return 3;
  return 4;
}
static inline unsigned long vs_ith_ulong(const vset *s, unsigned i)
{
  if (i < VS_NW) return (unsigned long)s->w[i];
  return s->tail ? ~0UL : 0UL;
}
/* number of 64-bit words up to the last set bit; -1 if infinite */
static inline long vs_nr_ulongs(const vset *s) { if (s->tail) return -1; long l = vs_last(s); return l < 0 ? 0 : l / 64 + 1; }
static inline uint64_t vs_hash(const vset *s) { uint64_t h = 1469598103934665603ULL ^ (uint64_t)s->tail; for (int i = 0; i < VS_NW; i++) { h ^= s->w[i]; h *= 1099511628211ULL; h ^= h >> 31; } return h; }

/* render as list ("0-3,7,2048-") into buf */
static inline char *vs_str(const vset *s, char *buf, size_t n)
{
  size_t p = 0; buf[0] = 0;
  int i = 0;
  while (i < VS_W && p + 32 < n) {
    if (!VS_BIT(s, i)) { i++; continue; }
    int j = i; while (j + 1 < VS_W && VS_BIT(s, j + 1)) j++;
    if (j == VS_W - 1 && s->tail) { p += (size_t)snprintf(buf + p, n - p, "%s%d-", p ? "," : "", i); return buf; }
    if (j > i) p += (size_t)snprintf(buf + p, n - p, "%s%d-%d", p ? "," : "", i, j);
    else p += (size_t)snprintf(buf + p, n - p, "%s%d", p ? "," : "", i);
    i = j + 1;
  }
  if (s->tail && p + 32 < n) p += (size_t)snprintf(buf + p, n - p, "%s%d-", p ? "," : "", VS_W);
  if (!p) snprintf(buf, n, "(empty)");
  return buf;
}
#endif
