/* CANON: canonical observable dump of a topology through the public API only. Equality of dumps
 * is the meaning of "observably identical" in the monitors; the first differing line is the witness. */
#include "topo.h"

static void esc(struct hv_str *out, const char *s)
{
  if (!s) { hv_str_add(out, "(null)"); return; }
  hv_str_add(out, "\"");
  for (; *s; s++) {
    unsigned char c = (unsigned char)*s;
    if (c < 0x20 || c == '"' || c == '\\' || c >= 0x7f) hv_str_add(out, "\\x%02x", c);
    else hv_str_addn(out, s, 1);
  }
  hv_str_add(out, "\"");
}
static void put_set(struct hv_str *out, const char *label, hwloc_const_bitmap_t b)
{
  char buf[4096]; vset v;
  if (!b) { hv_str_add(out, " %s=none", label); return; }
  tv_observe(b, &v);
  hv_str_add(out, " %s={%s}", label, vs_str(&v, buf, sizeof buf));
}
static void put_infos(struct hv_str *out, const struct hwloc_infos_s *infos, const char *indent)
{
  for (unsigned i = 0; i < infos->count; i++) {
    hv_str_add(out, "%sinfo ", indent); esc(out, infos->array[i].name); hv_str_add(out, "="); esc(out, infos->array[i].value); hv_str_add(out, "\n");
  }
}
static void put_objref(struct hv_str *out, hwloc_obj_t o, unsigned what)
{
  if (!o) { hv_str_add(out, "NULL"); return; }
  hv_str_add(out, "%s", hwloc_obj_type_string(o->type));
  if (what & CANON_LIDX) hv_str_add(out, ":L%u", o->logical_index);
  hv_str_add(out, ":P%u", o->os_index);
  if (what & CANON_GP) hv_str_add(out, ":gp%llu", (unsigned long long)o->gp_index);
}
static void put_pci(struct hv_str *out, const struct hwloc_pcidev_attr_s *p)
{
  hv_str_add(out, " pci=%04x:%02x:%02x.%x class=%04x if=%02x id=%04x:%04x sub=%04x:%04x rev=%02x link=%.6g",
             p->domain, p->bus, p->dev, p->func, p->class_id, p->prog_if, p->vendor_id, p->device_id, p->subvendor_id, p->subdevice_id, p->revision, (double)p->linkspeed);
}

static void put_obj(struct hv_str *out, hwloc_obj_t o, unsigned what, unsigned level, const char *list)
{
  char ind[64]; unsigned n = level < 30 ? level : 30;
  memset(ind, ' ', n * 2); ind[n * 2] = 0;
  hv_str_add(out, "%s%s %s", ind, list, hwloc_obj_type_string(o->type));
  hv_str_add(out, " os=%u", o->os_index);
  if (what & CANON_GP) hv_str_add(out, " gp=%llu", (unsigned long long)o->gp_index);
  if (what & CANON_LIDX) hv_str_add(out, " depth=%d lidx=%u rank=%u", o->depth, o->logical_index, o->sibling_rank);
  if (what & CANON_BARE) {
    put_set(out, "cpuset", o->cpuset); put_set(out, "complete_cpuset", o->complete_cpuset);
    put_set(out, "nodeset", o->nodeset); put_set(out, "complete_nodeset", o->complete_nodeset);
    hv_str_add(out, "\n");
    hwloc_obj_t c2;
    for (c2 = o->memory_first_child; c2; c2 = c2->next_sibling) put_obj(out, c2, what, level + 1, "mem");
    for (c2 = o->first_child; c2; c2 = c2->next_sibling) put_obj(out, c2, what, level + 1, "child");
    for (c2 = o->io_first_child; c2; c2 = c2->next_sibling) put_obj(out, c2, what, level + 1, "io");
    for (c2 = o->misc_first_child; c2; c2 = c2->next_sibling) put_obj(out, c2, what, level + 1, "misc");
    return;
  }
  hv_str_add(out, " subtype="); esc(out, o->subtype);
  hv_str_add(out, " name="); esc(out, o->name);
  put_set(out, "cpuset", o->cpuset); if (!((what & CANON_NO_MEM_CCS) && tk_kind(o->type) == TK_MEMORY)) put_set(out, "complete_cpuset", o->complete_cpuset);
  put_set(out, "nodeset", o->nodeset); put_set(out, "complete_nodeset", o->complete_nodeset);
  hv_str_add(out, " total_memory=%llu", (unsigned long long)o->total_memory);
  if (what & CANON_SYMM) hv_str_add(out, " symm=%d", o->symmetric_subtree);
  if (what & CANON_USERDATA) hv_str_add(out, " userdata=%p", o->userdata);
  if (o->attr) switch (o->type) {
  case HWLOC_OBJ_NUMANODE:
    hv_str_add(out, " local_memory=%llu pages=[", (unsigned long long)o->attr->numanode.local_memory);
    for (unsigned i = 0; i < o->attr->numanode.page_types_len; i++)
      hv_str_add(out, "%s%llu*%llu", i ? "," : "", (unsigned long long)o->attr->numanode.page_types[i].size, (unsigned long long)o->attr->numanode.page_types[i].count);
    hv_str_add(out, "]");
    break;
  case HWLOC_OBJ_GROUP:
    hv_str_add(out, " gdepth=%u kind=%u subkind=%u dont_merge=%u", o->attr->group.depth, o->attr->group.kind, o->attr->group.subkind, o->attr->group.dont_merge);
    break;
  case HWLOC_OBJ_PCI_DEVICE: put_pci(out, &o->attr->pcidev); break;
  case HWLOC_OBJ_BRIDGE:
    hv_str_add(out, " up=%d down=%d bdepth=%u", (int)o->attr->bridge.upstream_type, (int)o->attr->bridge.downstream_type, o->attr->bridge.depth);
    if (o->attr->bridge.upstream_type == HWLOC_OBJ_BRIDGE_PCI) put_pci(out, &o->attr->bridge.upstream.pci);
    hv_str_add(out, " dpci=%04x:[%02x-%02x]", o->attr->bridge.downstream.pci.domain, o->attr->bridge.downstream.pci.secondary_bus, o->attr->bridge.downstream.pci.subordinate_bus);
    break;
  case HWLOC_OBJ_OS_DEVICE: hv_str_add(out, " osdev=%#lx", o->attr->osdev.types); break;
  default:
    if (tk_is_cache(o->type) || o->type == HWLOC_OBJ_MEMCACHE)
      hv_str_add(out, " csize=%llu cdepth=%u line=%u assoc=%d ctype=%d", (unsigned long long)o->attr->cache.size, o->attr->cache.depth, o->attr->cache.linesize, o->attr->cache.associativity, (int)o->attr->cache.type);
    break;
  }
  hv_str_add(out, "\n");
  if (what & CANON_INFOS) { char i2[80]; snprintf(i2, sizeof i2, "%s    ", ind); put_infos(out, &o->infos, i2); }
  hwloc_obj_t c;
  for (c = o->memory_first_child; c; c = c->next_sibling) put_obj(out, c, what, level + 1, "mem");
  for (c = o->first_child; c; c = c->next_sibling) put_obj(out, c, what, level + 1, "child");
  for (c = o->io_first_child; c; c = c->next_sibling) put_obj(out, c, what, level + 1, "io");
  for (c = o->misc_first_child; c; c = c->next_sibling) put_obj(out, c, what, level + 1, "misc");
}

static int cmp_line(const void *a, const void *b) { return strcmp(*(char *const *)a, *(char *const *)b); }
static void put_location(struct hv_str *out, struct hwloc_location *l, unsigned what)
{
  if (l->type == HWLOC_LOCATION_TYPE_CPUSET) put_set(out, "cpuset", l->location.cpuset);
  else { hv_str_add(out, " obj="); put_objref(out, l->location.object, what); }
}

void canon_dump(hwloc_topology_t t, unsigned what, struct hv_str *out)
{
  if (what & CANON_CONFIG) {
    hv_str_add(out, "flags=%#lx thissystem=%d filters=", hwloc_topology_get_flags(t), hwloc_topology_is_thissystem(t));
    for (int ty = 0; ty < HWLOC_OBJ_TYPE_MAX; ty++) { enum hwloc_type_filter_e f = 0; hwloc_topology_get_type_filter(t, (hwloc_obj_type_t)ty, &f); hv_str_add(out, "%d", (int)f); }
    hv_str_add(out, "\n");
  }
  if (what & CANON_SUPPORT) {
    const struct hwloc_topology_support *s = hwloc_topology_get_support(t);
    hv_str_add(out, "support discovery=");
    for (size_t i = 0; i < sizeof *s->discovery; i++) hv_str_add(out, "%u", ((unsigned char *)s->discovery)[i]);
    hv_str_add(out, " cpubind=");
    for (size_t i = 0; i < sizeof *s->cpubind; i++) hv_str_add(out, "%u", ((unsigned char *)s->cpubind)[i]);
    hv_str_add(out, " membind=");
    for (size_t i = 0; i < sizeof *s->membind; i++) hv_str_add(out, "%u", ((unsigned char *)s->membind)[i]);
    hv_str_add(out, "\n");
  }
  if (what & CANON_TOPOINFOS) put_infos(out, hwloc_topology_get_infos(t), "topology ");
  if (what & CANON_TREE) {
    hv_str_add(out, "allowed:"); put_set(out, "cpuset", hwloc_topology_get_allowed_cpuset(t)); put_set(out, "nodeset", hwloc_topology_get_allowed_nodeset(t)); hv_str_add(out, "\n");
    put_obj(out, hwloc_get_root_obj(t), what, 0, "root");
  }
  if (what & CANON_DIST) {
    struct hv_str *realout = out, tmpout;
    if (what & CANON_DIST_SORTED) { hv_str_init(&tmpout); out = &tmpout; }
    unsigned nr = 0;
    if (hwloc_distances_get(t, &nr, NULL, 0, 0) == 0 && nr) {
      struct hwloc_distances_s **d = calloc(nr, sizeof *d);
      unsigned got = nr;
      if (hwloc_distances_get(t, &got, d, 0, 0) == 0) {
        if (got != nr) hv_str_add(out, "distances count changed %u -> %u\n", nr, got);
        for (unsigned i = 0; i < got && i < nr; i++) {
          hv_str_add(out, "distances name="); esc(out, hwloc_distances_get_name(t, d[i]));
          hv_str_add(out, " kind=%#lx nbobjs=%u objs=", d[i]->kind, d[i]->nbobjs);
          for (unsigned k = 0; k < d[i]->nbobjs; k++) { hv_str_add(out, k ? "," : ""); put_objref(out, d[i]->objs[k], what); }
          hv_str_add(out, " values=");
          for (unsigned k = 0; k < d[i]->nbobjs * d[i]->nbobjs; k++) hv_str_add(out, "%s%llu", k ? "," : "", (unsigned long long)d[i]->values[k]);
          hv_str_add(out, "\n");
          hwloc_distances_release(t, d[i]);
        }
      } else hv_str_add(out, "distances_get failed errno=%d\n", errno);
      free(d);
    }
    if (what & CANON_DIST_SORTED) {
      /* sort the lines */
      unsigned nl = 0; for (size_t i = 0; i < tmpout.len; i++) if (tmpout.s[i] == '\n') nl++;
      char **lines = calloc(nl + 1, sizeof *lines); unsigned k = 0; char *p = tmpout.s;
      while (k < nl) { lines[k++] = p; char *e = strchr(p, '\n'); *e = 0; p = e + 1; }
      qsort(lines, nl, sizeof *lines, cmp_line);
      for (k = 0; k < nl; k++) hv_str_add(realout, "%s\n", lines[k]);
      free(lines); hv_str_free(&tmpout); out = realout;
    }
  }
  if (what & CANON_MEMATTR) {
    unsigned nnodes = (unsigned)hwloc_get_nbobjs_by_type(t, HWLOC_OBJ_NUMANODE);
    for (hwloc_memattr_id_t id = 0; id < 4096; id++) {
      const char *name = NULL; unsigned long fl = 0;
      if (hwloc_memattr_get_name(t, id, &name) < 0) break;
      hwloc_memattr_get_flags(t, id, &fl);
      hv_str_add(out, "memattr %u name=", id); esc(out, name); hv_str_add(out, " flags=%#lx\n", fl);
      unsigned nt = nnodes + 4;
      hwloc_obj_t *tg = calloc(nt, sizeof *tg); hwloc_uint64_t *tv = calloc(nt, sizeof *tv);
      unsigned got = nt;
      if (hwloc_memattr_get_targets(t, id, NULL, 0, &got, tg, tv) < 0) { hv_str_add(out, "  get_targets failed errno=%d\n", errno); got = 0; }
      if (got > nt) { hv_str_add(out, "  more targets (%u) than NUMA nodes\n", got); got = nt; }
      for (unsigned k = 0; k < got; k++) {
        hv_str_add(out, "  target "); put_objref(out, tg[k], what);
        if (!(fl & HWLOC_MEMATTR_FLAG_NEED_INITIATOR)) { hv_str_add(out, " value=%llu\n", (unsigned long long)tv[k]); continue; }
        unsigned ni = 0;
        if (hwloc_memattr_get_initiators(t, id, tg[k], 0, &ni, NULL, NULL) < 0) { hv_str_add(out, " get_initiators failed errno=%d\n", errno); continue; }
        struct hwloc_location *loc = calloc(ni + 1, sizeof *loc); hwloc_uint64_t *iv = calloc(ni + 1, sizeof *iv);
        unsigned gi = ni;
        hwloc_memattr_get_initiators(t, id, tg[k], 0, &gi, loc, iv);
        hv_str_add(out, " initiators=%u\n", gi);
        for (unsigned q = 0; q < gi && q < ni; q++) { hv_str_add(out, "    from"); put_location(out, &loc[q], what); hv_str_add(out, " value=%llu\n", (unsigned long long)iv[q]); }
        free(loc); free(iv);
      }
      free(tg); free(tv);
    }
  }
  if (what & CANON_CPUKINDS) {
    int nk = hwloc_cpukinds_get_nr(t, 0);
    hv_str_add(out, "cpukinds nr=%d\n", nk);
    hwloc_bitmap_t b = hwloc_bitmap_alloc();
    for (int k = 0; k < nk; k++) {
      int eff = -99; struct hwloc_infos_s *infos = NULL;
      if (hwloc_cpukinds_get_info(t, (unsigned)k, b, &eff, &infos, 0) < 0) { hv_str_add(out, "cpukind %d get_info failed errno=%d\n", k, errno); continue; }
      hv_str_add(out, "cpukind %d eff=%d", k, eff); put_set(out, "cpuset", b); hv_str_add(out, "\n");
      if (infos) put_infos(out, infos, "    ");
    }
    hwloc_bitmap_free(b);
  }
}

const char *canon_diff(const struct hv_str *a, const struct hv_str *b)
{
  static char buf[1400];
  if (a->len == b->len && !memcmp(a->s, b->s, a->len)) return NULL;
  const char *p = a->s, *q = b->s; unsigned line = 1;
  while (*p && *q) {
    const char *pe = strchr(p, '\n'), *qe = strchr(q, '\n');
    size_t pl = pe ? (size_t)(pe - p) : strlen(p), ql = qe ? (size_t)(qe - q) : strlen(q);
    if (pl != ql || memcmp(p, q, pl)) {
      /* show the region around the first differing column */
      size_t c = 0; while (c < pl && c < ql && p[c] == q[c]) c++;
      size_t from = c > 200 ? c - 200 : 0;
      snprintf(buf, sizeof buf, "line %u col %zu: A<%.*s> B<%.*s>", line, c, (int)(pl - from > 500 ? 500 : pl - from), p + from, (int)(ql - from > 500 ? 500 : ql - from), q + from);
      return buf;
    }
    if (!pe || !qe) { p += pl; q += ql; break; }
    p = pe + 1; q = qe + 1; line++;
  }
  snprintf(buf, sizeof buf, "line %u: one dump ends early: A<%.300s> B<%.300s>", line, p, q);
  return buf;
}
