/* snprintf-contract monitor shared by C04, C07 and C11.
 * The function under test is called with heap buffers of exactly L bytes (ASan red zone right
 * behind them) for L in 0..needed+1, with NULL/0, and the results are compared with the full text. */
#ifndef HV_SNP_H
#define HV_SNP_H
#include "hv.h"

typedef int (*hv_snp_fn)(char *buf, size_t len, void *arg);

/* Returns the needed length (or -1 when the function reports an error with NULL/0; that is
 * left to the caller to judge). *fullp receives a malloc'ed copy of the untruncated text. */
static int hv_snp_contract(const char *what, hv_snp_fn fn, void *arg, char **fullp, struct hv_rng *r)
{
  char key[128];
  int needed = fn(NULL, 0, arg);
  if (fullp) *fullp = NULL;
  hv_stat("snp.objects", 1);
  if (needed < 0) return needed;
  char *full = malloc((size_t)needed + 1);
  memset(full, 0xAA, (size_t)needed + 1);
  int r2 = fn(full, (size_t)needed + 1, arg);
  if (r2 != needed) { snprintf(key, sizeof key, "snp.%s.len_unstable", what); hv_viol(key, "%s: NULL/0 said %d, exact buffer said %d", what, needed, r2); }
  if (memchr(full, 0, (size_t)needed + 1) != full + needed) {
    snprintf(key, sizeof key, "snp.%s.full_len", what);
    hv_viol(key, "%s: text in a buffer of needed+1=%d bytes has length %zu", what, needed + 1, strnlen(full, (size_t)needed + 1));
    full[needed] = 0;
  }
  /* which L to try: all when short, otherwise both ends plus a random sample */
  for (int L = 0; L <= needed + 2; L++) {
    if (needed > 160 && L > 48 && L < needed - 48 && !hv_chance(r, 1, 16)) continue;
    char *buf = malloc((size_t)L);          /* exactly L bytes; L == 0 gives a zero-size block */
    if (L) memset(buf, 0xAA, (size_t)L);
    int rr = fn(buf, (size_t)L, arg);
    hv_stat("snp.calls", 1);
    if (rr != needed) { snprintf(key, sizeof key, "snp.%s.retval", what); hv_viol(key, "%s: size %d returned %d, untruncated length is %d", what, L, rr, needed); }
    if (L > 0) {
      size_t want = (size_t)(L - 1 < needed ? L - 1 : needed);
      size_t got = strnlen(buf, (size_t)L);
      if (got == (size_t)L) { snprintf(key, sizeof key, "snp.%s.no_nul", what); hv_viol(key, "%s: size %d: no NUL inside the buffer", what, L); }
      else if (got > want || memcmp(buf, full, got)) {
        snprintf(key, sizeof key, "snp.%s.not_prefix", what);
        hv_viol(key, "%s: size %d: got '%.80s' (len %zu), expected a prefix (at most %zu bytes) of '%.80s'", what, L, buf, got, want, full);
      } else if (got < want) hv_stat("snp.shorter_than_room", 1);   /* allowed by the statement, counted only */
    }
    free(buf);
    if (hv_viol_count()) break;
  }
  if (fullp) *fullp = full; else free(full);
  return needed;
}
#endif
