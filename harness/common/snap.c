/* Bundled Linux sysfs / x86 CPUID snapshots: enumeration and per-load environment. */
#include "snap.h"
#include <dirent.h>
#include <sys/stat.h>
#include <unistd.h>

static struct snap *S_list; static unsigned S_n;

static int isdir(const char *p) { struct stat st; return stat(p, &st) == 0 && S_ISDIR(st.st_mode); }
static int cmp_snap(const void *a, const void *b) { const struct snap *x = a, *y = b; int c = x->kind - y->kind; return c ? c : strcmp(x->name, y->name); }

static void scan(const char *base, const char *sub, char kind)
{
  char p[2048]; snprintf(p, sizeof p, "%s/%s", base, sub);
  DIR *d = opendir(p);
  if (!d) return;
  struct dirent *e;
  while ((e = readdir(d)) != NULL) {
    if (e->d_name[0] == '.') continue;
    char q[3072]; snprintf(q, sizeof q, "%s/%s", p, e->d_name);
    if (!isdir(q)) continue;
    /* the tarball contains one top directory */
    DIR *d2 = opendir(q); struct dirent *e2; char inner[4096] = "";
    if (!d2) continue;
    while ((e2 = readdir(d2)) != NULL) { if (e2->d_name[0] == '.') continue; snprintf(inner, sizeof inner, "%s/%s", q, e2->d_name); if (isdir(inner)) break; inner[0] = 0; }
    closedir(d2);
    if (!inner[0]) continue;
    S_list = realloc(S_list, (S_n + 1) * sizeof *S_list);
    struct snap *s = &S_list[S_n]; memset(s, 0, sizeof *s);
    s->kind = kind; snprintf(s->name, sizeof s->name, "%s", e->d_name);
    if (kind == 'l') snprintf(s->fsroot, sizeof s->fsroot, "%s", inner);
    else if (kind == 'x') snprintf(s->cpuid, sizeof s->cpuid, "%s", inner);
    else { snprintf(s->fsroot, sizeof s->fsroot, "%s/fsroot", inner); snprintf(s->cpuid, sizeof s->cpuid, "%s/cpuid", inner); }
    S_n++;
  }
  closedir(d);
}

unsigned snap_list(struct snap **lp)
{
  if (!S_list) {
    if (!HV.arg_data) hv_fail("snapshot directory not given (--data)");
    scan(HV.arg_data, "linux", 'l'); scan(HV.arg_data, "x86", 'x'); scan(HV.arg_data, "x86+linux", 'b');
    if (S_n) qsort(S_list, S_n, sizeof *S_list, cmp_snap);
    if (!S_n) hv_fail("no snapshot found under %s", HV.arg_data);
  }
  *lp = S_list;
  return S_n;
}

static const char *const managed[] = { "HWLOC_COMPONENTS", "HWLOC_FSROOT", "HWLOC_CPUID_PATH", "HWLOC_THISSYSTEM", "HWLOC_DUMPED_HWDATA_DIR",
  "HWLOC_X86_TOPOEXT_NUMANODES", "HWLOC_PCI_LOCALITY", "HWLOC_KNL_MSCACHE_L3", "HWLOC_KEEP_NVIDIA_GPU_NUMA_NODES",
  "HWLOC_DEBUG_ALLOW_OVERLAPPING_NODE_CPUSETS", "HWLOC_CPUKINDS_MAXFREQ", "HWLOC_XMLFILE", "HWLOC_SYNTHETIC", "HWLOC_CPUKINDS_HOMOGENEOUS",
  "HWLOC_DONT_MERGE_CLUSTER_GROUPS", "HWLOC_USE_NUMA_DISTANCES", NULL };

void snap_clearenv(void) { for (unsigned i = 0; managed[i]; i++) unsetenv(managed[i]); }

unsigned snap_nvariants(const struct snap *s) { return s->kind == 'l' ? 1 : s->kind == 'x' ? 2 : 5; }

const char *snap_setenv(const struct snap *s, unsigned variant, unsigned testenv)
{
  static char desc[512];
  snap_clearenv();
  const char *comp = "linux,stop";
  variant %= snap_nvariants(s);
  if (s->kind == 'l') {
    setenv("HWLOC_FSROOT", s->fsroot, 1);
  } else if (s->kind == 'x') {
    comp = "x86,stop";
    setenv("HWLOC_CPUID_PATH", s->cpuid, 1);
    setenv("HWLOC_THISSYSTEM", "0", 1);
    if (variant == 1) setenv("HWLOC_X86_TOPOEXT_NUMANODES", "1", 1);
  } else {
    setenv("HWLOC_FSROOT", s->fsroot, 1); setenv("HWLOC_CPUID_PATH", s->cpuid, 1); setenv("HWLOC_THISSYSTEM", "0", 1);
    switch (variant) {
    case 0: comp = "x86,linux,stop"; break;
    case 1: comp = "linux,x86,stop"; break;
    case 2: comp = "x86,linux,stop"; setenv("HWLOC_X86_TOPOEXT_NUMANODES", "1", 1); break;
    case 3: comp = "linux,stop"; unsetenv("HWLOC_CPUID_PATH"); break;
    default: comp = "x86,stop"; unsetenv("HWLOC_FSROOT"); break;
    }
  }
  setenv("HWLOC_COMPONENTS", comp, 1);
  if (s->kind != 'x') setenv("HWLOC_DUMPED_HWDATA_DIR", "/var/run/hwloc", 1);
  /* env: lines of the repository's .test files, and the documented knobs they exercise */
  if (testenv && s->kind == 'l') {
    if (strstr(s->name, "pcilocality")) setenv("HWLOC_PCI_LOCALITY", "# near 1st package;0000:00-09 0x00000055,0x55555555;# near 2nd package;0000:40-46 0x000000aa,0xaaaaaaaa", 1);
    if (strstr(s->name, "fakeKNL")) setenv("HWLOC_KNL_MSCACHE_L3", testenv & 2 ? "1" : "0", 1);
    if (strstr(s->name, "nvidiagpunumanodes")) setenv("HWLOC_KEEP_NVIDIA_GPU_NUMA_NODES", "1", 1);
    if (strstr(s->name, "fakeheterocpunuma")) { setenv("HWLOC_DEBUG_ALLOW_OVERLAPPING_NODE_CPUSETS", "1", 1); setenv("HWLOC_CPUKINDS_MAXFREQ", "1", 1); }
    if (testenv & 4) setenv("HWLOC_CPUKINDS_HOMOGENEOUS", "1", 1);
    if (testenv & 8) setenv("HWLOC_DONT_MERGE_CLUSTER_GROUPS", "1", 1);
    if (testenv & 16) setenv("HWLOC_USE_NUMA_DISTANCES", "0", 1);
  }
  snprintf(desc, sizeof desc, "%c:%s comp=%s variant=%u testenv=%u", s->kind, s->name, comp, variant, testenv);
  return desc;
}
