/* Topology-level shared monitors: observation into SET, WF oracle, CANON dump, generators. */
#ifndef HV_TOPO_H
#define HV_TOPO_H
#include "hv.h"
#include "vset.h"
#include <hwloc.h>

/* ---------------------------------------------------------------- kinds (written from hwloc.h, not from private headers) */
enum tk_kind { TK_NORMAL, TK_MEMORY, TK_IO, TK_MISC };
static inline enum tk_kind tk_kind(hwloc_obj_type_t t)
{
  switch (t) {
  case HWLOC_OBJ_NUMANODE: case HWLOC_OBJ_MEMCACHE: return TK_MEMORY;
  case HWLOC_OBJ_BRIDGE: case HWLOC_OBJ_PCI_DEVICE: case HWLOC_OBJ_OS_DEVICE: return TK_IO;
  case HWLOC_OBJ_MISC: return TK_MISC;
  default: return TK_NORMAL;
  }
}
static inline int tk_is_cache(hwloc_obj_type_t t) { return t >= HWLOC_OBJ_L1CACHE && t <= HWLOC_OBJ_L3ICACHE; }
static inline int tk_is_icache(hwloc_obj_type_t t) { return t >= HWLOC_OBJ_L1ICACHE && t <= HWLOC_OBJ_L3ICACHE; }

void tv_observe(hwloc_const_bitmap_t b, vset *o);
/* build a hwloc bitmap from a vset (uses only alloc/set/set_range) */
hwloc_bitmap_t tv_to_bitmap(const vset *s);

/* ---------------------------------------------------------------- flat view of a topology */
struct tv_obj {
  hwloc_obj_t o;
  int parent;                  /* index in the view, -1 for root */
  enum tk_kind kind;
  int has_sets;
  vset cs, ccs, ns, cns;       /* cpuset, complete_cpuset, nodeset, complete_nodeset */
};
struct tv_view {
  struct tv_obj *v; unsigned n, cap;
  int truncated;               /* walk aborted (cycle / too many objects) */
  struct { hwloc_obj_t o; int idx; } *sorted;   /* pointer index, built lazily by tv_view_find */
};
/* Pre-order walk through the four child lists (normal, memory, io, misc). Never trusts arity. */
void tv_view_build(hwloc_topology_t t, struct tv_view *vw, int with_sets);
void tv_view_free(struct tv_view *vw);
int tv_view_find(const struct tv_view *vw, hwloc_obj_t o);

/* ---------------------------------------------------------------- WF oracle */
/* Checks the C01 conditions through public accessors + SET. Every failed condition is reported with
 * hv_viol("<prefix>wf.<cond>", ...). Returns the number of failed conditions. */
int wf_check(hwloc_topology_t t, const char *keyprefix);
/* hwloc_topology_check() with a crash context (an abort is attributed by the runner) */
void wf_builtin(hwloc_topology_t t, const char *ctx);

/* ---------------------------------------------------------------- CANON */
#define CANON_GP        (1u << 0)   /* print gp_index */
#define CANON_USERDATA  (1u << 1)   /* print userdata pointers */
#define CANON_SUPPORT   (1u << 2)   /* print support bits */
#define CANON_CONFIG    (1u << 3)   /* flags, filters, is_thissystem */
#define CANON_DIST      (1u << 4)
#define CANON_MEMATTR   (1u << 5)
#define CANON_CPUKINDS  (1u << 6)
#define CANON_TREE      (1u << 7)   /* object tree with sets and attributes */
#define CANON_INFOS     (1u << 8)
#define CANON_LIDX      (1u << 9)   /* depth / logical_index */
#define CANON_TOPOINFOS (1u << 10)
#define CANON_SYMM      (1u << 11)  /* symmetric_subtree */
#define CANON_BARE      (1u << 12)  /* with CANON_TREE: only type, os_index, sets and child lists (v2-format comparisons) */
#define CANON_DIST_SORTED (1u << 13) /* print the distances structures sorted by their text (list order is not part of the claim) */
#define CANON_NO_MEM_CCS (1u << 14)  /* do not print the complete_cpuset of memory objects (open finding: stale after level merges) */
#define CANON_ALL       (0x0fffu)
#define CANON_EQUIV     (CANON_ALL & ~(CANON_USERDATA | CANON_SUPPORT))
void canon_dump(hwloc_topology_t t, unsigned what, struct hv_str *out);
/* first differing line of two dumps (static buffer), or NULL when equal */
const char *canon_diff(const struct hv_str *a, const struct hv_str *b);

/* ---------------------------------------------------------------- configurations */
#define TG_NTYPES HWLOC_OBJ_TYPE_MAX
struct tg_config {
  int filter[TG_NTYPES];          /* -1: leave default */
  unsigned long flags;
  int corner;                     /* which corner vector was used (evidence) */
};
void tg_config_default(struct tg_config *c);
/* random legal configuration for a non-"this system" source (synthetic / XML) unless thissystem */
void tg_config_random(struct hv_rng *r, struct tg_config *c, int thissystem_source);
/* returns 0 when every set_type_filter/set_flags call succeeded */
int tg_config_apply(hwloc_topology_t t, const struct tg_config *c);
uint64_t tg_config_hash(const struct tg_config *c);
void tg_config_str(const struct tg_config *c, struct hv_str *out);

/* ---------------------------------------------------------------- synthetic generator */
struct tg_synth_opts {
  int max_pus;          /* bound on the product of arities (default 256) */
  int max_levels;       /* default 7 */
  int allow_attached;   /* [numa] attached at several depths, memory-side caches */
  int allow_indexes;    /* explicit / interleaved index clauses */
  int allow_sizes;      /* (size=..) (memory=..) attributes */
};
void tg_synth_opts_default(struct tg_synth_opts *o);
/* renders a valid synthetic description into out; returns a shape hash */
uint64_t tg_synth_random(struct hv_rng *r, const struct tg_synth_opts *o, struct hv_str *out);

/* ---------------------------------------------------------------- loading helpers */
/* each returns NULL (and sets *loadrc) when set_* or load failed; the topology is destroyed then */
hwloc_topology_t tl_load_synthetic(const char *desc, const struct tg_config *c, int *stage);
hwloc_topology_t tl_load_xmlbuffer(const char *buf, size_t len, const struct tg_config *c, int *stage);
hwloc_topology_t tl_load_xmlfile(const char *path, const struct tg_config *c, int *stage);
/* list of corpus XML files (tests/hwloc/xml/*.xml + /verif/corpus/*.xml); returns count */
unsigned tl_corpus(const char ***pathsp);
unsigned tl_witness(const char *sub, const char *suffix, const char ***pathsp);   /* /verif/corpus/<sub>/\*<suffix>, sorted */
char *tl_read_file(const char *path, size_t *lenp);

uint64_t tv_shape_hash(hwloc_topology_t t);
int tv_has_empty_normal_object(hwloc_topology_t t);   /* see gen.c */
#endif
